//! C20: polynomial arithmetic (math/src/polynom/mod.rs) and batch utilities (math/src/utils/mod.rs).
//!
//! Op lines (mirrored by lean/Winter/Drv/C20.lean):  `<field> <op> <arg>…`
//!   field  f64 | f62 | f128 | q64 q62 q128 (QuadExtension of the base field, elements written `a:b`)
//!          | c64 c62 (CubeExtension, elements `a:b:c`)
//!   a polynomial / vector argument is a comma separated list of elements, `-` is the empty list;
//!   base-field elements are written as integers < 2^64 (2^128 for f128) and enter through
//!   `BaseElement::new` (silent reduction), outputs are canonical integers.
//!
//! Oracle (independent of the library): schoolbook polynomial arithmetic on u128 residues with
//! wf_harness::oracle::{addmod,submod,mulmod,invmod}; every identity of the property is judged by it:
//! q*b+r = a with deg r < deg b, p = q*(x^a-b)+r with deg r < a, interpolants evaluated at their
//! points, product of (x - x_i), b^i, x*inv(x) = 1, …  A panic is a failure of the property unless
//! the doc comment of the function documents it for that input (`documented` below).
#![allow(dead_code, unused_variables, unused_imports, unused_mut)]
use wf_harness::core::*;
use wf_harness::fields::*;
use wf_harness::oracle::*;
use winter_math::{
    add_in_place, batch_inversion,
    fields::{f128, f62, f64, CubeExtension, QuadExtension},
    get_power_series, get_power_series_with_offset, mul_acc, polynom, ExtensionOf, FieldElement, StarkField,
};

pub struct P;

// ------------------------------------------------------------------------------------ oracle field
/// oracle element: c0 + c1*phi + c2*phi^2 (unused coordinates are 0)
#[derive(Clone, Copy, PartialEq, Eq, Debug)]
struct OE([u128; 3]);

/// oracle field: F_m[phi]/(phi^k - red(phi)), k = 1 (base field), 2 or 3; `red` is the documented
/// irreducible polynomial solved for phi^k
#[derive(Clone, Copy)]
struct OF {
    m: u128,
    k: usize,
    red: [u128; 3],
}

const Z: OE = OE([0, 0, 0]);
const ONE: OE = OE([1, 0, 0]);

impl OF {
    fn add(&self, a: OE, b: OE) -> OE {
        OE([addmod(a.0[0], b.0[0], self.m), addmod(a.0[1], b.0[1], self.m), addmod(a.0[2], b.0[2], self.m)])
    }
    fn sub(&self, a: OE, b: OE) -> OE {
        OE([submod(a.0[0], b.0[0], self.m), submod(a.0[1], b.0[1], self.m), submod(a.0[2], b.0[2], self.m)])
    }
    fn mul(&self, a: OE, b: OE) -> OE {
        let m = self.m;
        if self.k == 1 {
            return OE([mulmod(a.0[0], b.0[0], m), 0, 0]);
        }
        // schoolbook product, then phi^d = phi^(d-k) * red(phi) from the top down
        let mut c = [0u128; 5];
        for i in 0..self.k {
            for j in 0..self.k {
                c[i + j] = addmod(c[i + j], mulmod(a.0[i], b.0[j], m), m);
            }
        }
        for d in (self.k..=2 * self.k - 2).rev() {
            let t = c[d];
            c[d] = 0;
            for j in 0..self.k {
                c[d - self.k + j] = addmod(c[d - self.k + j], mulmod(t, self.red[j], m), m);
            }
        }
        OE([c[0], c[1], c[2]])
    }
    /// inverse by solving (multiplication-by-a matrix) * y = 1 with Gaussian elimination over F_m
    fn inv(&self, a: OE) -> OE {
        let m = self.m;
        if a == Z {
            return Z;
        }
        let k = self.k;
        if k == 1 {
            return OE([invmod(a.0[0], m), 0, 0]);
        }
        // column j of the matrix is a * phi^j; rows are coordinates; augmented with e_0
        let mut mat = [[0u128; 4]; 3];
        let mut col = a;
        let mut phi = Z;
        phi.0[1] = 1;
        for j in 0..k {
            for i in 0..k {
                mat[i][j] = col.0[i];
            }
            col = self.mul(col, phi);
        }
        mat[0][3] = 1;
        for c in 0..k {
            let p = (c..k).find(|r| mat[*r][c] != 0).expect("oracle: singular multiplication matrix");
            mat.swap(c, p);
            let pi = invmod(mat[c][c], m);
            for x in 0..4 {
                mat[c][x] = mulmod(mat[c][x], pi, m);
            }
            for r in 0..k {
                if r != c && mat[r][c] != 0 {
                    let f = mat[r][c];
                    for x in 0..4 {
                        mat[r][x] = submod(mat[r][x], mulmod(f, mat[c][x], m), m);
                    }
                }
            }
        }
        let mut y = Z;
        for i in 0..k {
            y.0[i] = mat[i][3];
        }
        assert!(self.mul(a, y) == ONE, "oracle: inverse check");
        y
    }
    fn pow(&self, a: OE, mut e: u64) -> OE {
        let mut r = ONE;
        let mut b = a;
        while e > 0 {
            if e & 1 == 1 {
                r = self.mul(r, b);
            }
            b = self.mul(b, b);
            e >>= 1;
        }
        r
    }
    // ---- schoolbook polynomials (coefficient i at index i)
    fn eval(&self, p: &[OE], x: OE) -> OE {
        let mut acc = Z;
        let mut xp = ONE;
        for c in p {
            acc = self.add(acc, self.mul(*c, xp));
            xp = self.mul(xp, x);
        }
        acc
    }
    fn padd(&self, a: &[OE], b: &[OE]) -> Vec<OE> {
        (0..a.len().max(b.len()))
            .map(|i| self.add(*a.get(i).unwrap_or(&Z), *b.get(i).unwrap_or(&Z)))
            .collect()
    }
    fn psub(&self, a: &[OE], b: &[OE]) -> Vec<OE> {
        (0..a.len().max(b.len()))
            .map(|i| self.sub(*a.get(i).unwrap_or(&Z), *b.get(i).unwrap_or(&Z)))
            .collect()
    }
    /// product as a vector of length a.len()+b.len()-1 (empty when one factor is empty)
    fn pmul(&self, a: &[OE], b: &[OE]) -> Vec<OE> {
        if a.is_empty() || b.is_empty() {
            return vec![];
        }
        let mut r = vec![Z; a.len() + b.len() - 1];
        for (i, x) in a.iter().enumerate() {
            for (j, y) in b.iter().enumerate() {
                r[i + j] = self.add(r[i + j], self.mul(*x, *y));
            }
        }
        r
    }
    /// x^a - b
    fn xab(&self, a: usize, b: OE) -> Vec<OE> {
        let mut d = vec![Z; a + 1];
        d[0] = self.sub(Z, b);
        d[a] = self.add(d[a], ONE);
        d
    }
    /// prod (x - r_i)
    fn from_roots(&self, roots: &[OE]) -> Vec<OE> {
        let mut r = vec![ONE];
        for x in roots {
            r = self.pmul(&r, &[self.sub(Z, *x), ONE]);
        }
        r
    }
}

/// degree of a polynomial, None for the zero polynomial
fn odeg(p: &[OE]) -> Option<usize> {
    p.iter().rposition(|c| *c != Z)
}
fn ostrip(p: &[OE]) -> Vec<OE> {
    match odeg(p) {
        Some(d) => p[..=d].to_vec(),
        None => vec![],
    }
}
/// equality as polynomials (ignoring leading zeros)
fn same_poly(a: &[OE], b: &[OE]) -> bool {
    ostrip(a) == ostrip(b)
}
fn has_dup(xs: &[OE]) -> bool {
    (0..xs.len()).any(|i| (0..i).any(|j| xs[i] == xs[j]))
}

// ------------------------------------------------------------------------------------ elements
trait El: FieldElement + From<Self::Sub> + ExtensionOf<Self::Sub> {
    const NAME: &'static str;
    const OFLD: OF;
    /// the field whose elements appear as `b` of mul_acc and as coefficients of `evalb`
    type Sub: El + FieldElement<BaseField = Self::BaseField>;
    fn parse(s: &str) -> Option<(Self, OE)>;
    fn oe(&self) -> OE;
}

fn parse_word<F: Fld>(s: &str) -> Option<(F, u128)> {
    if s.is_empty() || !s.bytes().all(|c| c.is_ascii_digit()) || s.len() > 39 {
        return None;
    }
    let v = s.parse::<u128>().ok()?;
    if F::word_bits() == 64 && v > u64::MAX as u128 {
        return None;
    }
    Some((F::from_word(v), v % F::MOD))
}

macro_rules! base_el {
    ($t:ty) => {
        impl El for $t {
            const NAME: &'static str = <$t as Fld>::NAME;
            const OFLD: OF = OF { m: <$t as Fld>::MOD, k: 1, red: [0, 0, 0] };
            type Sub = $t;
            fn parse(s: &str) -> Option<(Self, OE)> {
                parse_word::<$t>(s).map(|(x, v)| (x, OE([v, 0, 0])))
            }
            fn oe(&self) -> OE {
                OE([self.canon(), 0, 0])
            }
        }
    };
}
base_el!(f64::BaseElement);
base_el!(f62::BaseElement);
base_el!(f128::BaseElement);

type Q64 = QuadExtension<f64::BaseElement>;
type Q62 = QuadExtension<f62::BaseElement>;
type Q128 = QuadExtension<f128::BaseElement>;
type C64 = CubeExtension<f64::BaseElement>;
type C62 = CubeExtension<f62::BaseElement>;

macro_rules! quad_el {
    ($t:ty, $b:ty, $name:expr, $red:expr) => {
        impl El for $t {
            const NAME: &'static str = $name;
            const OFLD: OF = OF { m: <$b as Fld>::MOD, k: 2, red: $red };
            type Sub = $b;
            fn parse(s: &str) -> Option<(Self, OE)> {
                let (a, b) = s.split_once(':')?;
                let (x, vx) = parse_word::<$b>(a)?;
                let (y, vy) = parse_word::<$b>(b)?;
                Some((<$t>::new(x, y), OE([vx, vy, 0])))
            }
            fn oe(&self) -> OE {
                let b = self.to_base_elements();
                OE([b[0].canon(), b[1].canon(), 0])
            }
        }
    };
}
macro_rules! cube_el {
    ($t:ty, $b:ty, $name:expr, $red:expr) => {
        impl El for $t {
            const NAME: &'static str = $name;
            const OFLD: OF = OF { m: <$b as Fld>::MOD, k: 3, red: $red };
            type Sub = $b;
            fn parse(s: &str) -> Option<(Self, OE)> {
                let (a, rest) = s.split_once(':')?;
                let (b, c) = rest.split_once(':')?;
                let (x, vx) = parse_word::<$b>(a)?;
                let (y, vy) = parse_word::<$b>(b)?;
                let (z, vz) = parse_word::<$b>(c)?;
                Some((<$t>::new(x, y, z), OE([vx, vy, vz])))
            }
            fn oe(&self) -> OE {
                let b = self.to_base_elements();
                OE([b[0].canon(), b[1].canon(), b[2].canon()])
            }
        }
    };
}
// the documented irreducible polynomials, solved for the leading power of phi
quad_el!(Q64, f64::BaseElement, "q64", [M64 - 2, 1, 0]); // phi^2 = phi - 2
quad_el!(Q62, f62::BaseElement, "q62", [1, 1, 0]); // phi^2 = phi + 1
quad_el!(Q128, f128::BaseElement, "q128", [1, 1, 0]); // phi^2 = phi + 1
cube_el!(C64, f64::BaseElement, "c64", [1, 1, 0]); // phi^3 = phi + 1
cube_el!(C62, f62::BaseElement, "c62", [M62 - 2, M62 - 2, 0]); // phi^3 = -2 phi - 2

fn show<E: El>(x: &E) -> String {
    let o = x.oe();
    (0..E::OFLD.k).map(|i| o.0[i].to_string()).collect::<Vec<_>>().join(":")
}
/// output form of a list; the empty list is `[]` (a bare `-` output would mean "not modelled")
fn show_list<E: El>(xs: &[E]) -> String {
    if xs.is_empty() {
        "[]".into()
    } else {
        xs.iter().map(show).collect::<Vec<_>>().join(",")
    }
}
fn oes<E: El>(xs: &[E]) -> Vec<OE> {
    xs.iter().map(|x| x.oe()).collect()
}
fn plist<E: El>(s: &str) -> Option<(Vec<E>, Vec<OE>)> {
    if s == "-" {
        return Some((vec![], vec![]));
    }
    let mut a = vec![];
    let mut b = vec![];
    for t in s.split(',') {
        let (x, o) = E::parse(t)?;
        a.push(x);
        b.push(o);
    }
    Some((a, b))
}

// ------------------------------------------------------------------------------------ exec
/// run a library call; a panic gives output `panic` and is a failure unless documented
fn call<T>(site: &str, documented: bool, f: impl FnOnce() -> T, judge: impl FnOnce(T) -> Outcome) -> Outcome {
    match guarded(f) {
        // the doc comment promises a panic for this input (the harness runs a debug build, so
        // `debug_assert!` counts): returning normally contradicts the documented contract
        Ok(v) if documented => judge(v).fail(format!("{}.nopanic", site), "documented panic did not occur"),
        Ok(v) => judge(v),
        Err(info) => {
            let o = Outcome::ok("panic");
            if documented {
                o
            } else {
                o.fail(format!("{}.panic", site), format!("undocumented panic at {}", info))
            }
        },
    }
}

fn interpb_n<E: El, const N: usize>(nx: usize, ny: usize, xs: &[E], ys: &[E]) -> Vec<E> {
    let xb: Vec<[E; N]> = (0..nx).map(|i| core::array::from_fn(|j| xs[i * N + j])).collect();
    let yb: Vec<[E; N]> = (0..ny).map(|i| core::array::from_fn(|j| ys[i * N + j])).collect();
    polynom::interpolate_batch(&xb, &yb).into_iter().flatten().collect()
}

fn exec_f<E: El>(t: &[&str]) -> Outcome {
    let f = E::OFLD;
    let bad = || Outcome::ok("bad-op");
    macro_rules! list {
        ($s:expr) => {
            match plist::<E>($s) {
                Some(v) => v,
                None => return bad(),
            }
        };
    }
    macro_rules! elem {
        ($s:expr) => {
            match E::parse($s) {
                Some(v) => v,
                None => return bad(),
            }
        };
    }
    macro_rules! num {
        ($s:expr, $max:expr) => {
            match $s.parse::<usize>() {
                Ok(v) if v <= $max && $s.bytes().all(|c| c.is_ascii_digit()) => v,
                _ => return bad(),
            }
        };
    }
    match t {
        ["eval", p, x] => {
            let (p, op) = list!(p);
            let (x, ox) = elem!(x);
            call("polynom.eval", false, || polynom::eval(&p, x), |r| {
                let mut o = Outcome::ok(show(&r));
                if r.oe() != f.eval(&op, ox) {
                    o = o.fail("polynom.eval.value", format!("{}: expected {:?}", E::NAME, f.eval(&op, ox)));
                }
                o
            })
        },
        ["evalb", p, x] => {
            // coefficients in the sub-field, point in the field itself
            let (p, op) = match plist::<E::Sub>(p) {
                Some(v) => v,
                None => return bad(),
            };
            let (x, ox) = elem!(x);
            call("polynom.eval", false, || polynom::eval(&p, x), |r: E| {
                let mut o = Outcome::ok(show(&r));
                if r.oe() != f.eval(&op, ox) {
                    o = o.fail("polynom.eval.value", format!("{}: base coefficients", E::NAME));
                }
                o
            })
        },
        ["evalmany", p, xs] => {
            let (p, op) = list!(p);
            let (xs, oxs) = list!(xs);
            call("polynom.eval_many", false, || polynom::eval_many(&p, &xs), |r| {
                let mut o = Outcome::ok(show_list(&r));
                let e: Vec<OE> = oxs.iter().map(|x| f.eval(&op, *x)).collect();
                if oes(&r) != e {
                    o = o.fail("polynom.eval_many.value", E::NAME);
                }
                o
            })
        },
        ["add", a, b] | ["sub", a, b] => {
            let (a, oa) = list!(a);
            let (b, ob) = list!(b);
            let is_add = t[0] == "add";
            let site = if is_add { "polynom.add" } else { "polynom.sub" };
            call(site, false, || if is_add { polynom::add(&a, &b) } else { polynom::sub(&a, &b) }, |r| {
                let mut o = Outcome::ok(show_list(&r));
                let e = if is_add { f.padd(&oa, &ob) } else { f.psub(&oa, &ob) };
                if oes(&r) != e {
                    o = o.fail(format!("{}.value", site), format!("{}: not the coefficient-wise result of length max", E::NAME));
                }
                o
            })
        },
        ["mul", a, b] => {
            let (a, oa) = list!(a);
            let (b, ob) = list!(b);
            // no panic is documented: the product of two empty (zero) polynomials is the zero polynomial
            call("polynom.mul", false, || polynom::mul(&a, &b), |r| {
                let mut o = Outcome::ok(show_list(&r));
                let e = f.pmul(&oa, &ob);
                let want_len = (oa.len() + ob.len()).saturating_sub(1);
                if r.len() != want_len || !same_poly(&oes(&r), &e) {
                    o = o.fail("polynom.mul.value", format!("{}: product differs from the schoolbook product", E::NAME));
                }
                o
            })
        },
        ["scal", p, k] => {
            let (p, op) = list!(p);
            let (k, ok) = elem!(k);
            call("polynom.mul_by_scalar", false, || polynom::mul_by_scalar(&p, k), |r| {
                let mut o = Outcome::ok(show_list(&r));
                let e: Vec<OE> = op.iter().map(|c| f.mul(*c, ok)).collect();
                if oes(&r) != e {
                    o = o.fail("polynom.mul_by_scalar.value", E::NAME);
                }
                o
            })
        },
        ["div", a, b] => {
            let (a, oa) = list!(a);
            let (b, ob) = list!(b);
            let (da, db) = (odeg(&oa), odeg(&ob));
            // documented: b empty; degree of b zero and constant coefficient zero (i.e. b = 0);
            // degree of b greater than degree of a (degree_of convention: zero polynomial has degree 0)
            let documented = ob.is_empty() || db.is_none() || db.unwrap_or(0) > da.unwrap_or(0);
            call("polynom.div", documented, || polynom::div(&a, &b), |q| {
                let mut o = Outcome::ok(show_list(&q));
                if !documented {
                    let oq = oes(&q);
                    let r = f.psub(&oa, &f.pmul(&oq, &ob));
                    let dbv = db.unwrap();
                    let small = match odeg(&r) {
                        None => true,
                        Some(d) => d < dbv,
                    };
                    if !small {
                        o = o.fail("polynom.div.identity", format!("{}: deg(a - q*b) >= deg b", E::NAME));
                    }
                    if q.len() != da.unwrap_or(0) - dbv + 1 {
                        o = o.fail("polynom.div.length", format!("{}: quotient length {}", E::NAME, q.len()));
                    }
                }
                o
            })
        },
        ["syndiv", p, a, b] => {
            let (p, op) = list!(p);
            let a = num!(a, 100000);
            let (b, ob) = elem!(b);
            let documented = a == 0 || ob == Z || op.len() <= a;
            call(
                "polynom.syn_div",
                documented,
                || {
                    let q = polynom::syn_div(&p, a, b);
                    let mut q2 = p.clone();
                    polynom::syn_div_in_place(&mut q2, a, b);
                    (q, q2)
                },
                |(q, q2)| {
                    let mut o = Outcome::ok(show_list(&q));
                    if q != q2 {
                        o = o.fail("polynom.syn_div.in_place", format!("{}: syn_div != syn_div_in_place", E::NAME));
                    }
                    if !documented {
                        let oq = oes(&q);
                        let r = f.psub(&op, &f.pmul(&oq, &f.xab(a, ob)));
                        let small = match odeg(&r) {
                            None => true,
                            Some(d) => d < a,
                        };
                        let tail_zero = q.len() == p.len() && oq[p.len() - a..].iter().all(|c| *c == Z);
                        if !small || !tail_zero {
                            o = o.fail("polynom.syn_div.identity", format!("{}: p != q*(x^a-b)+r with deg r < a", E::NAME));
                        }
                    }
                    o
                },
            )
        },
        ["syndivroots", p, roots] => {
            let (p, op) = list!(p);
            let (roots, or) = list!(roots);
            let documented = or.is_empty() || op.len() <= or.len();
            call(
                "polynom.syn_div_roots",
                documented,
                || {
                    let mut q = p.clone();
                    polynom::syn_div_roots_in_place(&mut q, &roots);
                    q
                },
                |q| {
                    let mut o = Outcome::ok(show_list(&q));
                    if !documented {
                        let oq = oes(&q);
                        let r = f.psub(&op, &f.pmul(&oq, &f.from_roots(&or)));
                        let small = match odeg(&r) {
                            None => true,
                            Some(d) => d < or.len(),
                        };
                        let tail_zero = q.len() == p.len() && oq[p.len() - or.len()..].iter().all(|c| *c == Z);
                        if !small || !tail_zero {
                            o = o.fail("polynom.syn_div_roots.identity", format!("{}: p != q*prod(x-r_i)+r, deg r < m", E::NAME));
                        }
                    }
                    o
                },
            )
        },
        ["roots", xs] => {
            let (xs, oxs) = list!(xs);
            call("polynom.poly_from_roots", false, || polynom::poly_from_roots(&xs), |r| {
                let mut o = Outcome::ok(show_list(&r));
                if oes(&r) != f.from_roots(&oxs) {
                    o = o.fail("polynom.poly_from_roots.value", format!("{}: not prod (x - x_i)", E::NAME));
                }
                o
            })
        },
        ["interp", xs, ys, rlz] => {
            let (xs, oxs) = list!(xs);
            let (ys, oys) = list!(ys);
            let rlz = match *rlz {
                "0" => false,
                "1" => true,
                _ => return bad(),
            };
            // documented: different numbers of X and Y coordinates
            let documented = oxs.len() != oys.len();
            call("polynom.interpolate", documented, || polynom::interpolate(&xs, &ys, rlz), |r| {
                let mut o = Outcome::ok(show_list(&r));
                // duplicate X coordinates: no interpolant exists in general (precondition) - only classified
                if !documented && !has_dup(&oxs) {
                    let or = oes(&r);
                    let len_ok = if rlz { or == ostrip(&or) && or.len() <= oxs.len() } else { or.len() == oxs.len() };
                    let ev_ok = oxs.iter().zip(&oys).all(|(x, y)| f.eval(&or, *x) == *y);
                    if !len_ok {
                        o = o.fail("polynom.interpolate.length", format!("{}: result length {}", E::NAME, or.len()));
                    }
                    if !ev_ok {
                        o = o.fail("polynom.interpolate.value", format!("{}: interpolant does not pass through the points", E::NAME));
                    }
                }
                o
            })
        },
        ["interpb", n, nx, ny, xs, ys] => {
            let n = num!(n, 8);
            let nx = num!(nx, 4096);
            let ny = num!(ny, 4096);
            let (xs, oxs) = list!(xs);
            let (ys, oys) = list!(ys);
            if xs.len() != nx * n || ys.len() != ny * n {
                return bad();
            }
            // documented: different numbers of X and Y batches
            let documented = nx != ny;
            call(
                "polynom.interpolate_batch",
                documented,
                || match n {
                    0 => interpb_n::<E, 0>(nx, ny, &xs, &ys),
                    1 => interpb_n::<E, 1>(nx, ny, &xs, &ys),
                    2 => interpb_n::<E, 2>(nx, ny, &xs, &ys),
                    3 => interpb_n::<E, 3>(nx, ny, &xs, &ys),
                    4 => interpb_n::<E, 4>(nx, ny, &xs, &ys),
                    5 => interpb_n::<E, 5>(nx, ny, &xs, &ys),
                    6 => interpb_n::<E, 6>(nx, ny, &xs, &ys),
                    7 => interpb_n::<E, 7>(nx, ny, &xs, &ys),
                    _ => interpb_n::<E, 8>(nx, ny, &xs, &ys),
                },
                |r| {
                    let mut o = Outcome::ok(show_list(&r));
                    if !documented {
                        let or = oes(&r);
                        if or.len() != nx * n {
                            o = o.fail("polynom.interpolate_batch.length", E::NAME);
                        } else {
                            for i in 0..nx {
                                let (bx, by, bp) = (&oxs[i * n..(i + 1) * n], &oys[i * n..(i + 1) * n], &or[i * n..(i + 1) * n]);
                                if !has_dup(bx) && !bx.iter().zip(by).all(|(x, y)| f.eval(bp, *x) == *y) {
                                    o = o.fail(
                                        "polynom.interpolate_batch.value",
                                        format!("{}: batch {} does not pass through its points", E::NAME, i),
                                    );
                                    break;
                                }
                            }
                        }
                    }
                    o
                },
            )
        },
        ["deg", p] => {
            let (p, op) = list!(p);
            call("polynom.degree_of", false, || polynom::degree_of(&p), |d| {
                let mut o = Outcome::ok(format!("{}", d));
                if d != odeg(&op).unwrap_or(0) {
                    o = o.fail("polynom.degree_of.value", E::NAME);
                }
                o
            })
        },
        ["rlz", p] => {
            let (p, op) = list!(p);
            call("polynom.remove_leading_zeros", false, || polynom::remove_leading_zeros(&p), |r| {
                let mut o = Outcome::ok(show_list(&r));
                if oes(&r) != ostrip(&op) {
                    o = o.fail("polynom.remove_leading_zeros.value", E::NAME);
                }
                o
            })
        },
        ["pser", b, n] => {
            let (b, ob) = elem!(b);
            let n = num!(n, 1 << 20);
            // nothing documented: for n = 0 the documented result [1, b, …, b^(n-1)] is the empty vector
            call("utils.get_power_series", false, || get_power_series(b, n), |r| {
                let mut o = Outcome::ok(show_list(&r));
                let mut e = vec![];
                let mut acc = ONE;
                for _ in 0..n {
                    e.push(acc);
                    acc = f.mul(acc, ob);
                }
                if oes(&r) != e {
                    o = o.fail("utils.get_power_series.value", format!("{}: not [b^i]", E::NAME));
                }
                o
            })
        },
        ["psero", b, s, n] => {
            let (b, ob) = elem!(b);
            let (s, os) = elem!(s);
            let n = num!(n, 1 << 20);
            call("utils.get_power_series_with_offset", false, || get_power_series_with_offset(b, s, n), |r| {
                let mut o = Outcome::ok(show_list(&r));
                let e: Vec<OE> = (0..n).map(|i| f.mul(os, f.pow(ob, i as u64))).collect();
                if oes(&r) != e {
                    o = o.fail("utils.get_power_series_with_offset.value", format!("{}: not [s*b^i]", E::NAME));
                }
                o
            })
        },
        ["addip", a, b] => {
            let (a, oa) = list!(a);
            let (b, ob) = list!(b);
            let documented = oa.len() != ob.len();
            call(
                "utils.add_in_place",
                documented,
                || {
                    let mut c = a.clone();
                    add_in_place(&mut c, &b);
                    c
                },
                |r| {
                    let mut o = Outcome::ok(show_list(&r));
                    if !documented && oes(&r) != f.padd(&oa, &ob) {
                        o = o.fail("utils.add_in_place.value", E::NAME);
                    }
                    o
                },
            )
        },
        ["mulacc", a, b, c] => {
            let (a, oa) = list!(a);
            let (b, ob) = match plist::<E::Sub>(b) {
                Some(v) => v,
                None => return bad(),
            };
            let (c, oc) = elem!(c);
            let documented = oa.len() != ob.len();
            call(
                "utils.mul_acc",
                documented,
                || {
                    let mut d = a.clone();
                    mul_acc::<E::Sub, E>(&mut d, &b, c);
                    d
                },
                |r| {
                    let mut o = Outcome::ok(show_list(&r));
                    let e: Vec<OE> = oa.iter().zip(&ob).map(|(x, y)| f.add(*x, f.mul(*y, oc))).collect();
                    if !documented && oes(&r) != e {
                        o = o.fail("utils.mul_acc.value", E::NAME);
                    }
                    o
                },
            )
        },
        ["binv", xs] => {
            let (xs, oxs) = list!(xs);
            call("utils.batch_inversion", false, || batch_inversion(&xs), |r| {
                let mut o = Outcome::ok(show_list(&r));
                let or = oes(&r);
                let ok = or.len() == oxs.len()
                    && oxs.iter().zip(&or).all(|(x, y)| if *x == Z { *y == Z } else { f.mul(*x, *y) == ONE });
                if !ok {
                    o = o.fail("utils.batch_inversion.value", format!("{}: not x^-1 / 0 elementwise", E::NAME));
                }
                o
            })
        },
        _ => bad(),
    }
}

/// class label of algebraically related operands, computed from the op line with the oracle: product of the
/// non-zero entries of a batch-inversion input (or of the interpolation denominators) equal to 1 / -1, a
/// proper prefix product equal to 1, entries summing to 0, a Horner accumulator hitting 0 / 1 midway,
/// a power-series base of small order
fn related_label<E: El>(t: &[&str]) -> String {
    let f = E::OFLD;
    let neg1 = f.sub(Z, ONE);
    let prod_label = |v: &[OE], what: &str| -> String {
        let mut out = String::new();
        let nz: Vec<OE> = v.iter().cloned().filter(|x| *x != Z).collect();
        if nz.len() < 2 {
            return out;
        }
        let mut acc = ONE;
        let mut prefix1 = false;
        for (i, x) in nz.iter().enumerate() {
            acc = f.mul(acc, *x);
            if acc == ONE && i + 1 < nz.len() {
                prefix1 = true;
            }
        }
        if acc == ONE {
            out.push_str(&format!(":{}prod=1", what));
        } else if acc == neg1 {
            out.push_str(&format!(":{}prod=-1", what));
        }
        if prefix1 {
            out.push_str(&format!(":{}prefix-prod=1", what));
        }
        out
    };
    match t {
        ["binv", xs] => match plist::<E>(xs) {
            Some((_, v)) => {
                let mut l = prod_label(&v, "");
                if v.len() >= 2 && v.iter().fold(Z, |a, x| f.add(a, *x)) == Z && v.iter().any(|x| *x != Z) {
                    l.push_str(":sum=0");
                }
                l
            },
            None => String::new(),
        },
        ["interp", xs, _, _] => match plist::<E>(xs) {
            Some((_, v)) if v.len() >= 2 && v.len() <= 8 && !has_dup(&v) => {
                let dens: Vec<OE> = (0..v.len())
                    .map(|i| (0..v.len()).filter(|j| *j != i).fold(ONE, |a, j| f.mul(a, f.sub(v[i], v[j]))))
                    .collect();
                prod_label(&dens, "den-")
            },
            _ => String::new(),
        },
        ["eval", p, x] if p.len() < 2000 => match (plist::<E>(p), E::parse(x)) {
            (Some((_, v)), Some((_, x))) if v.len() >= 3 => {
                let mut acc = Z;
                let mut hit = "";
                for (i, c) in v.iter().rev().enumerate() {
                    acc = f.add(f.mul(acc, x), *c);
                    if i >= 1 && i + 1 < v.len() {
                        if acc == Z {
                            hit = ":acc=0-midway";
                        } else if acc == ONE && hit.is_empty() {
                            hit = ":acc=1-midway";
                        }
                    }
                }
                hit.into()
            },
            _ => String::new(),
        },
        ["pser", b, n] => match (E::parse(b), n.parse::<usize>()) {
            (Some((_, b)), Ok(n)) if n >= 3 && b != ONE && b != Z => {
                let mut acc = b;
                for i in 1..n.min(40) {
                    if acc == ONE {
                        return format!(":base-order<={}", i);
                    }
                    acc = f.mul(acc, b);
                }
                String::new()
            },
            _ => String::new(),
        },
        _ => String::new(),
    }
}

// ------------------------------------------------------------------------------------ generators
struct G<'a> {
    f: &'static str,
    m: u128,
    bits: u32,
    deg: usize, // extension degree of the field (1 = base field)
    rng: &'a mut Rng,
    sub: bool, // generate elements of the sub-field (for q64: plain f64 words)
}

impl<'a> G<'a> {
    fn word(&mut self) -> u128 {
        let m = self.m;
        match self.rng.below(10) {
            0 => *self.rng.pick(&[0u128, 1, 2, m - 1]),
            1 => *self.rng.pick(&[m, m + 1, m - 2, 3, (m - 1) / 2, (m + 1) / 2]),
            _ => {
                let v = self.rng.u128();
                if self.bits == 64 {
                    v & 0xFFFF_FFFF_FFFF_FFFF
                } else {
                    v
                }
            },
        }
    }
    /// degree of the elements currently generated
    fn k(&self) -> usize {
        if self.sub {
            1
        } else {
            self.deg
        }
    }
    fn coords(&self, c: &[u128]) -> String {
        c.iter().map(|x| x.to_string()).collect::<Vec<_>>().join(":")
    }
    fn el(&mut self) -> String {
        let c: Vec<u128> = (0..self.k()).map(|_| self.word()).collect();
        self.coords(&c)
    }
    fn nz_el(&mut self) -> String {
        loop {
            let c: Vec<u128> = (0..self.k()).map(|_| self.word()).collect();
            if c.iter().any(|x| x % self.m != 0) {
                return self.coords(&c);
            }
        }
    }
    fn list(&mut self, n: usize) -> String {
        join(&(0..n).map(|_| self.el()).collect::<Vec<_>>())
    }
    /// list with zero coefficients sprinkled in (leading/trailing zeros, interior zeros)
    fn zlist(&mut self, n: usize) -> String {
        let lead = if n > 0 && self.rng.chance(1, 3) { self.rng.range(1, (n as u64).min(3)) as usize } else { 0 };
        let trail = if n > lead && self.rng.chance(1, 4) { self.rng.range(1, ((n - lead) as u64).min(3)) as usize } else { 0 };
        let z = self.zero();
        let v: Vec<String> = (0..n)
            .map(|i| if i < trail || i >= n - lead || self.rng.chance(1, 12) { z.clone() } else { self.el() })
            .collect();
        join(&v)
    }
    fn zero(&self) -> String {
        self.coords(&vec![0u128; self.k()])
    }
    /// pairwise distinct elements
    fn distinct(&mut self, n: usize) -> Vec<String> {
        let mut v: Vec<String> = vec![];
        while v.len() < n {
            // small values make collisions modulo p impossible to miss: keep them canonical
            let small = self.rng.chance(1, 4);
            let c: Vec<u128> = (0..self.k())
                .map(|i| {
                    if small {
                        self.rng.below(if i == 0 { 8 } else { 3 }) as u128
                    } else {
                        self.word() % self.m
                    }
                })
                .collect();
            let e = self.coords(&c);
            if !v.contains(&e) {
                v.push(e);
            }
        }
        v
    }
    /// boundary elements {0, 1, 2, p-1} (extensions: {0, 1, phi, (p-1)(1 + phi (+ phi^2))})
    fn bset(&self) -> Vec<String> {
        let k = self.k();
        if k == 1 {
            return vec!["0".into(), "1".into(), "2".into(), format!("{}", self.m - 1)];
        }
        let mut one = vec![0u128; k];
        one[0] = 1;
        let mut phi = vec![0u128; k];
        phi[1] = 1;
        vec![self.coords(&vec![0; k]), self.coords(&one), self.coords(&phi), self.coords(&vec![self.m - 1; k])]
    }
    /// all lists over the boundary set with length <= maxlen
    fn small(&self, maxlen: usize) -> Vec<String> {
        let b = self.bset();
        let mut out: Vec<Vec<String>> = vec![vec![]];
        let mut layer: Vec<Vec<String>> = vec![vec![]];
        for _ in 0..maxlen {
            let mut next = vec![];
            for l in &layer {
                for e in &b {
                    let mut l2 = l.clone();
                    l2.push(e.clone());
                    next.push(l2);
                }
            }
            out.extend(next.iter().cloned());
            layer = next;
        }
        out.iter().map(|l| join(l)).collect()
    }
}

fn join(v: &[String]) -> String {
    if v.is_empty() {
        "-".into()
    } else {
        v.join(",")
    }
}

// ------------------------------------------------------------------------------------ structured cases
/// Operands built by construction (HARDENING.md): products of chosen factors (exact divisions, quotients
/// with interior zero coefficients), sparse polynomials, x^k ± c, a zero at every interior position,
/// independent amounts of leading-zero padding for both operands, every comparison of the code
/// (a vs len, #roots vs len, deg a vs deg b vs the slice lengths, n vs 1024) on, below and above the
/// boundary, interpolation on subgroups / cosets / arithmetic progressions with values of low-degree
/// polynomials, Lagrange basis values, batches that follow a batch with larger/duplicate data.
fn gen_structured(g: &mut G, of: OF, gen0: u128, thorough: bool, light: bool, emit: &mut dyn FnMut(String)) {
    let f = g.f;
    let k = g.deg;
    let m = g.m;
    let fmt = |e: &OE| -> String { (0..k).map(|i| e.0[i].to_string()).collect::<Vec<_>>().join(":") };
    let ps = |p: &[OE]| -> String {
        if p.is_empty() {
            "-".into()
        } else {
            p.iter().map(|e| fmt(e)).collect::<Vec<_>>().join(",")
        }
    };
    let pad = |p: &[OE], z: usize| -> Vec<OE> {
        let mut v = p.to_vec();
        v.extend(std::iter::repeat(Z).take(z));
        v
    };
    let base = |v: u128| -> OE { OE([v % m, 0, 0]) };
    let neg1 = base(m - 1);
    // random non-zero element / random element
    fn rnd(g: &mut G, k: usize, m: u128, nz: bool) -> OE {
        loop {
            let mut e = [0u128; 3];
            for c in e.iter_mut().take(k) {
                *c = g.word() % m;
            }
            if !nz || e != [0, 0, 0] {
                return OE(e);
            }
        }
    }
    let mono = |c: OE, d: usize| -> Vec<OE> {
        let mut v = vec![Z; d + 1];
        v[d] = c;
        v
    };
    let reps = if light && !thorough { 1 } else { 2 };

    // ---- quotient shapes and divisor shapes
    let mut qs: Vec<Vec<OE>> = vec![];
    for _ in 0..reps {
        let len = g.rng.range(4, 7) as usize;
        let dense: Vec<OE> = (0..len).map(|_| rnd(g, k, m, true)).collect();
        qs.push(dense.clone());
        // a zero at every position except the leading one, and runs of zeros
        for i in 0..len - 1 {
            let mut q = dense.clone();
            q[i] = Z;
            qs.push(q);
        }
        let mut q = dense.clone();
        for c in q.iter_mut().take(len - 1).skip(1) {
            *c = Z;
        }
        qs.push(q); // only constant and leading term
        let mut q = dense.clone();
        for c in q.iter_mut().take(len - 1) {
            *c = Z;
        }
        qs.push(q); // a monomial
    }
    qs.push(vec![ONE]);
    qs.push(vec![rnd(g, k, m, true)]);
    qs.push(of.xab(3, ONE)); // x^3 - 1
    qs.push(of.xab(4, neg1)); // x^4 + 1
    qs.push(vec![ONE; 5]);
    let mut bs: Vec<Vec<OE>> = vec![];
    bs.push(vec![rnd(g, k, m, true)]); // constant divisor
    bs.push(vec![ONE]);
    bs.push(vec![rnd(g, k, m, false), ONE]); // x + c
    bs.push(vec![Z, ONE]); // x
    bs.push(of.xab(2, ONE)); // x^2 - 1
    bs.push(of.xab(3, rnd(g, k, m, true)));
    bs.push((0..3).map(|_| rnd(g, k, m, true)).collect());
    bs.push(vec![rnd(g, k, m, true), Z, Z, rnd(g, k, m, true)]); // interior zeros
    bs.push(vec![Z, Z, rnd(g, k, m, true)]); // c x^2
    if !light || thorough {
        bs.push((0..5).map(|_| rnd(g, k, m, true)).collect());
    }
    let pads: &[(usize, usize)] = if light && !thorough { &[(0, 0), (1, 3), (2, 0)] } else { &[(0, 0), (0, 2), (1, 0), (3, 1), (2, 2)] };
    for (qi, q) in qs.iter().enumerate() {
        for (bi, b) in bs.iter().enumerate() {
            if !thorough && (qi + 2 * bi) % 3 != 0 && qi > 2 {
                continue; // sample the product in the quick tier
            }
            let prod = of.pmul(q, b);
            // exact, and with a remainder of degree < deg b whose top coefficients may vanish
            let mut dividends = vec![prod.clone()];
            if b.len() > 1 {
                let r: Vec<OE> = (0..b.len() - 1).map(|_| rnd(g, k, m, false)).collect();
                dividends.push(of.padd(&prod, &r));
                dividends.push(of.padd(&prod, &[rnd(g, k, m, true)]));
            }
            for a in &dividends {
                let (pa, pb) = *g.rng.pick(pads);
                emit(format!("{} div {} {}", f, ps(&pad(a, pa)), ps(&pad(b, pb))));
                if qi % 4 == 0 || thorough {
                    for (pa, pb) in pads {
                        emit(format!("{} div {} {}", f, ps(&pad(a, *pa)), ps(&pad(b, *pb))));
                    }
                }
            }
            emit(format!("{} mul {} {}", f, ps(&pad(q, bi % 3)), ps(&pad(b, qi % 2))));
            emit(format!("{} add {} {}", f, ps(&pad(&prod, qi % 3)), ps(&pad(b, bi % 4))));
            emit(format!("{} sub {} {}", f, ps(&pad(b, bi % 4)), ps(&pad(&prod, qi % 3))));
        }
    }
    // degree relations against slice-length relations: deg a = deg b - 1, deg b, deg b + 1 with the
    // slice of a shorter than, as long as, longer than the slice of b (padding the other operand)
    for db in [0usize, 1, 3] {
        for da in [db.saturating_sub(1), db, db + 1] {
            for (za, zb) in [(0usize, 0usize), (0, 3), (3, 0), (1, 1)] {
                let a: Vec<OE> = (0..=da).map(|_| rnd(g, k, m, true)).collect();
                let b: Vec<OE> = (0..=db).map(|_| rnd(g, k, m, true)).collect();
                for op in ["div", "add", "sub", "mul", "addip"] {
                    emit(format!("{} {} {} {}", f, op, ps(&pad(&a, za)), ps(&pad(&b, zb))));
                }
            }
        }
    }
    // zero dividend / zero divisor in every padding
    for za in 0..3usize {
        for zb in 0..3usize {
            emit(format!("{} div {} {}", f, ps(&pad(&[], za)), ps(&pad(&[rnd(g, k, m, true)], zb))));
            emit(format!("{} div {} {}", f, ps(&pad(&[rnd(g, k, m, true)], za)), ps(&pad(&[], zb))));
        }
    }

    // ---- synthetic division: p = s*(x^a - b) + rem by construction; a vs len on, below, above
    let ss: Vec<Vec<OE>> = vec![
        vec![ONE],
        (0..4).map(|_| rnd(g, k, m, true)).collect(),
        vec![rnd(g, k, m, true), Z, Z, rnd(g, k, m, true), Z, rnd(g, k, m, true)],
        mono(rnd(g, k, m, true), 5),
        of.xab(2, ONE),
    ];
    for s_ in &ss {
        for a in [1usize, 2, 3, 5] {
            for b in [ONE, neg1, base(2), rnd(g, k, m, true)] {
                let d = of.xab(a, b);
                let exact = of.pmul(s_, &d);
                let rem: Vec<OE> = (0..a).map(|_| rnd(g, k, m, false)).collect();
                let mut low = vec![Z; a];
                low[0] = rnd(g, k, m, true);
                for p in [exact.clone(), of.padd(&exact, &rem), of.padd(&exact, &low)] {
                    let z = g.rng.below(3) as usize;
                    emit(format!("{} syndiv {} {} {}", f, ps(&pad(&p, z)), a, fmt(&b)));
                }
            }
        }
    }
    for len in [1usize, 2, 3, 6] {
        let p: Vec<OE> = (0..len).map(|_| rnd(g, k, m, true)).collect();
        for a in [len.saturating_sub(1), len, len + 1] {
            for b in [ONE, rnd(g, k, m, true)] {
                emit(format!("{} syndiv {} {} {}", f, ps(&p), a, fmt(&b)));
            }
        }
    }
    // ---- division by roots: exact products, repeated roots, the root 0, #roots vs len
    let r1 = rnd(g, k, m, true);
    let r2 = rnd(g, k, m, true);
    let root_sets: Vec<Vec<OE>> = vec![
        vec![r1],
        vec![Z],
        vec![r1, r2],
        vec![r1, r1],
        vec![Z, r1],
        vec![r1, Z],
        vec![Z, Z],
        vec![r1, Z, r2, r1],
        vec![ONE, neg1, base(2)],
    ];
    for rs in &root_sets {
        let d = of.from_roots(rs);
        for s_ in &ss[..3] {
            let exact = of.pmul(s_, &d);
            emit(format!("{} syndivroots {} {}", f, ps(&exact), ps(rs)));
            emit(format!("{} syndivroots {} {}", f, ps(&pad(&of.padd(&exact, &[rnd(g, k, m, true)]), 2)), ps(rs)));
        }
        for len in [rs.len().saturating_sub(1), rs.len(), rs.len() + 1, rs.len() + 2] {
            let p: Vec<OE> = (0..len).map(|_| rnd(g, k, m, true)).collect();
            emit(format!("{} syndivroots {} {}", f, ps(&p), ps(rs)));
        }
        emit(format!("{} roots {}", f, ps(rs)));
    }

    // ---- sparse polynomials and a zero / a single non-zero at every position
    for len in [5usize, 6] {
        let dense: Vec<OE> = (0..len).map(|_| rnd(g, k, m, true)).collect();
        for i in 0..len {
            let mut z = dense.clone();
            z[i] = Z;
            let single = {
                let mut v = vec![Z; len];
                v[i] = dense[i];
                v
            };
            for p in [&z, &single] {
                emit(format!("{} deg {}", f, ps(p)));
                emit(format!("{} rlz {}", f, ps(p)));
                emit(format!("{} binv {}", f, ps(p)));
                emit(format!("{} eval {} {}", f, ps(p), fmt(&rnd(g, k, m, false))));
                emit(format!("{} scal {} {}", f, ps(p), fmt(&rnd(g, k, m, true))));
                emit(format!("{} mul {} {}", f, ps(p), ps(&z)));
            }
        }
    }
    for d in [1usize, 2, 7, 16] {
        for c in [ONE, neg1] {
            let p = of.xab(d, c);
            for x in [Z, ONE, neg1, rnd(g, k, m, false)] {
                emit(format!("{} eval {} {}", f, ps(&p), fmt(&x)));
            }
        }
    }

    // ---- interpolation domains: subgroups, cosets, arithmetic progressions (with and without 0)
    let sizes: &[usize] = if light && !thorough { &[1, 2, 4, 5] } else { &[1, 2, 3, 4, 5, 8, 9, 16] };
    for &n in sizes {
        let mut domains: Vec<Vec<OE>> = vec![];
        if n.is_power_of_two() {
            let w = powmod(gen0, (m - 1) / n as u128, m);
            let sub: Vec<OE> = (0..n).map(|i| base(powmod(w, i as u128, m))).collect();
            let off = rnd(g, k, m, true);
            domains.push(sub.iter().map(|x| of.mul(*x, off)).collect()); // coset
            domains.push(sub);
        }
        let start = rnd(g, k, m, false);
        let step = rnd(g, k, m, true);
        let mut ap = vec![];
        let mut cur = start;
        for _ in 0..n {
            ap.push(cur);
            cur = of.add(cur, step);
        }
        domains.push(ap);
        domains.push((0..n).map(|i| base(i as u128)).collect()); // 0, 1, 2, …
        for xs in &domains {
            let mut yss: Vec<Vec<OE>> = vec![];
            for d in [0usize, 1, n.saturating_sub(2), n.saturating_sub(1)] {
                // values of a polynomial with d+1 coefficients (degree < n: leading zeros in the result)
                let p: Vec<OE> = (0..=d.min(n.saturating_sub(1))).map(|_| rnd(g, k, m, true)).collect();
                yss.push(xs.iter().map(|x| of.eval(&p, *x)).collect());
            }
            yss.push(vec![Z; n]);
            for i in 0..n.min(3) {
                let mut e = vec![Z; n];
                e[(i * 5 + n - 1) % n] = ONE; // Lagrange basis polynomials
                yss.push(e);
            }
            for ys in &yss {
                for rlz in [0, 1] {
                    emit(format!("{} interp {} {} {}", f, ps(xs), ps(ys), rlz));
                }
                if n <= 8 {
                    emit(format!("{} interpb {} 1 1 {} {}", f, n, ps(xs), ps(ys)));
                }
            }
            emit(format!("{} roots {}", f, ps(xs)));
            emit(format!("{} evalmany {} {}", f, ps(&yss[1]), ps(xs)));
        }
        // several batches: the state (`roots`) of a batch with large / duplicate data is reused by the next
        if n <= 8 && n >= 1 {
            let good = domains[domains.len() - 2].clone();
            let mut dup = good.clone();
            if n >= 2 {
                dup[n - 1] = dup[0];
            }
            let ys1: Vec<OE> = (0..n).map(|_| rnd(g, k, m, false)).collect();
            let ys2: Vec<OE> = good.iter().map(|x| of.eval(&[ONE, ONE], *x)).collect();
            for order in [[&dup, &good], [&good, &dup]] {
                let xs: Vec<OE> = order.iter().flat_map(|b| b.iter().cloned()).collect();
                let ys: Vec<OE> = ys1.iter().chain(ys2.iter()).cloned().collect();
                emit(format!("{} interpb {} 2 2 {} {}", f, n, ps(&xs), ps(&ys)));
            }
            let three: Vec<OE> = domains[domains.len() - 1].iter().chain(good.iter()).chain(domains[domains.len() - 1].iter()).cloned().collect();
            let ys3: Vec<OE> = (0..3 * n).map(|_| rnd(g, k, m, false)).collect();
            emit(format!("{} interpb {} 3 3 {} {}", f, n, ps(&three), ps(&ys3)));
        }
    }

    // ---- batch inversion / power series / accumulation: structured vectors and the 1024 threshold
    for len in [1usize, 2, 5, 8] {
        emit(format!("{} binv {}", f, ps(&vec![Z; len])));
        for off in 0..2usize {
            let v: Vec<OE> = (0..len).map(|i| if (i + off) % 2 == 0 { Z } else { rnd(g, k, m, true) }).collect();
            emit(format!("{} binv {}", f, ps(&v))); // alternating at even / odd offsets
        }
        let c = rnd(g, k, m, true);
        emit(format!("{} binv {}", f, ps(&vec![c; len]))); // constant
    }
    let big: &[usize] = if light && !thorough { &[1024] } else { &[1023, 1024, 1025] };
    for &len in big {
        let c = rnd(g, k, m, true);
        emit(format!("{} binv {}", f, ps(&vec![Z; len])));
        for pos in [0usize, 1, len - 2, len - 1] {
            let mut v = vec![c; len];
            v[pos] = Z;
            emit(format!("{} binv {}", f, ps(&v))); // a single zero at the borders
            let mut v = vec![Z; len];
            v[pos] = c;
            emit(format!("{} binv {}", f, ps(&v))); // a single non-zero at the borders
        }
    }
    for nn in [0usize, 1, 2, 1023, 1024, 1025] {
        for b in [Z, ONE, neg1, base(gen0)] {
            if nn > 2 && light && !thorough && b != neg1 {
                continue;
            }
            emit(format!("{} pser {} {}", f, fmt(&b), nn));
            emit(format!("{} psero {} {} {}", f, fmt(&b), fmt(&rnd(g, k, m, true)), nn));
        }
    }
}

// ------------------------------------------------------------------------------------ related operands
/// Algebraically related operands (HARDENING.md 10): products / sums / accumulators that hit 0, 1 or -1.
/// Random operands never have a running product of exactly 1, a Horner accumulator of exactly 0, … so
/// every special-casing of such a value inside the code is invisible to them.
fn gen_related(g: &mut G, of: OF, gen0: u128, thorough: bool, light: bool, emit: &mut dyn FnMut(String)) {
    let f = g.f;
    let k = g.deg;
    let m = g.m;
    let fmt = |e: &OE| -> String { (0..k).map(|i| e.0[i].to_string()).collect::<Vec<_>>().join(":") };
    let ps = |p: &[OE]| -> String {
        if p.is_empty() {
            "-".into()
        } else {
            p.iter().map(|e| fmt(e)).collect::<Vec<_>>().join(",")
        }
    };
    let base = |v: u128| -> OE { OE([v % m, 0, 0]) };
    let neg1 = base(m - 1);
    fn rnd(g: &mut G, k: usize, m: u128) -> OE {
        loop {
            let mut e = [0u128; 3];
            for c in e.iter_mut().take(k) {
                *c = g.word() % m;
            }
            if e != [0, 0, 0] {
                return OE(e);
            }
        }
    }
    let prod = |v: &[OE]| -> OE { v.iter().filter(|x| **x != Z).fold(ONE, |a, x| of.mul(a, *x)) };
    // a vector of `len` non-zero entries whose product is `target`: random prefix, closing element at `pos`
    let with_product = |g: &mut G, len: usize, target: OE, pos: usize| -> Vec<OE> {
        let mut v: Vec<OE> = (0..len).map(|_| rnd(g, k, m)).collect();
        v[pos] = ONE;
        let p = prod(&v);
        v[pos] = of.mul(target, of.inv(p));
        v
    };
    let mut binv = |v: &[OE], emit: &mut dyn FnMut(String)| emit(format!("{} binv {}", f, ps(v)));

    // ---- batch inversion: product of the non-zero entries exactly 1, -1, a small constant
    let lens: Vec<usize> = if light && !thorough { vec![2, 3, 4, 5, 8, 17] } else { (2..=17).collect() };
    let targets = [ONE, neg1, base(2)];
    for &len in &lens {
        for (ti, t) in targets.iter().enumerate() {
            for pos in [0, len / 2, len - 1] {
                if ti > 0 && pos == len / 2 && !thorough {
                    continue;
                }
                let v = with_product(g, len, *t, pos);
                binv(&v, emit);
                // zeros interleaved: at every position (short vectors) or at a few positions
                let zpos: Vec<usize> = if len <= 6 || thorough { (0..=len).collect() } else { vec![0, len / 2, len] };
                if ti == 0 {
                    for z in zpos {
                        let mut w = v.clone();
                        w.insert(z, Z);
                        binv(&w, emit);
                        if z % 2 == 0 {
                            w.insert(len + 1 - z.min(len), Z);
                            binv(&w, emit); // two zeros
                        }
                    }
                }
            }
        }
        // prefix product 1 midway, then more entries (total != 1, and total == 1 again)
        let h = (len / 2).max(2).min(len);
        let mut v = with_product(g, h, ONE, h - 1);
        let tail: Vec<OE> = (0..len - h).map(|_| rnd(g, k, m)).collect();
        v.extend(tail);
        binv(&v, emit);
        if len - h >= 2 {
            let mut w = with_product(g, h, ONE, 0);
            w.extend(with_product(g, len - h, ONE, len - h - 1));
            binv(&w, emit);
            w.insert(h, Z);
            binv(&w, emit);
        }
        // sum = 0
        let mut v: Vec<OE> = (0..len - 1).map(|_| rnd(g, k, m)).collect();
        let sum = v.iter().fold(Z, |a, x| of.add(a, *x));
        if sum != Z {
            v.push(of.sub(Z, sum));
            binv(&v, emit);
        }
    }
    // the smallest instances, spelled out: [x, 1/x], [x, 0, 1/x], [a, b, 1/(ab)], (a, -a), (a, a),
    // inverses in adjacent and in distant positions
    for _ in 0..(if light && !thorough { 2 } else { 4 }) {
        let x = rnd(g, k, m);
        let y = rnd(g, k, m);
        let xi = of.inv(x);
        let yi = of.inv(y);
        let nx = of.sub(Z, x);
        for v in [
            vec![x, xi],
            vec![xi, x],
            vec![x, Z, xi],
            vec![Z, x, xi],
            vec![x, xi, Z],
            vec![x, y, of.inv(of.mul(x, y))],
            vec![x, nx],
            vec![x, Z, nx],
            vec![x, x],
            vec![x, x, xi, xi],
            vec![x, xi, y],
            vec![x, y, xi],
            vec![y, x, xi],
            vec![x, y, y, y, xi],
            vec![x, y, xi, yi],
            vec![x, y, yi, xi],
            vec![x, nx, xi, of.sub(Z, xi)],
            vec![neg1, neg1],
            vec![neg1, x, neg1, xi],
            vec![base(2), base(5), of.inv(base(10))],
        ] {
            binv(&v, emit);
        }
    }
    // around the chunk boundary of the concurrent variant: product 1 over the whole vector, over the first
    // 1024 entries, over the entries from 1024 on
    let bigs: &[usize] = if light && !thorough { &[1025] } else { &[1023, 1024, 1025, 2048] };
    for &len in bigs {
        let v = with_product(g, len, ONE, len - 1);
        binv(&v, emit);
        let mut w = v.clone();
        w[1] = Z;
        w[len - 2] = Z;
        let p = prod(&w);
        w[0] = of.mul(w[0], of.inv(p));
        binv(&w, emit);
        if len > 1024 {
            let mut u = with_product(g, 1024, ONE, 1023);
            u.extend(with_product(g, len - 1024 + 1, ONE, 0).into_iter().skip(1));
            binv(&u, emit);
            let mut u2 = with_product(g, 1024, base(3), 5);
            u2.extend(with_product(g, len - 1024, of.inv(base(3)), 0));
            binv(&u2, emit);
        }
        let v = with_product(g, len, neg1, 0);
        binv(&v, emit);
    }

    // ---- interpolation: the denominators prod_{k != i}(x_i - x_k) handed to batch inversion multiply to 1 / -1
    // n = 2: d0 = x0 - x1, d1 = -d0, product -d0^2; with d0 = sqrt(-1) the product is 1, with d0 = 1 it is -1
    let im = base(powmod(gen0, (m - 1) / 4, m)); // a square root of -1
    for a in [Z, ONE, rnd(g, k, m), rnd(g, k, m)] {
        for d in [im, of.sub(Z, im), ONE, neg1, base(2)] {
            let xs = vec![a, of.add(a, d)];
            let ys = vec![rnd(g, k, m), rnd(g, k, m)];
            for rlz in [0, 1] {
                emit(format!("{} interp {} {} {}", f, ps(&xs), ps(&ys), rlz));
            }
            emit(format!("{} interpb 2 1 1 {} {}", f, ps(&xs), ps(&ys)));
            // two batches whose denominator products are 1 each / multiply to 1 together
            let b = rnd(g, k, m);
            let xs2 = vec![a, of.add(a, d), b, of.add(b, of.inv(d))];
            let ys2: Vec<OE> = (0..4).map(|_| rnd(g, k, m)).collect();
            emit(format!("{} interpb 2 2 2 {} {}", f, ps(&xs2), ps(&ys2)));
        }
    }
    // n = 3 on a scaled arithmetic progression a, a+t, a+2t: the product of the denominators is -4 t^6;
    // n points scaled so that the product is exactly 1 needs a root - instead sweep small t (products 1*..)
    for t in [ONE, neg1, im, base(2)] {
        let a = rnd(g, k, m);
        let xs = vec![a, of.add(a, t), of.add(a, of.add(t, t))];
        let ys: Vec<OE> = (0..3).map(|_| rnd(g, k, m)).collect();
        emit(format!("{} interp {} {} 0", f, ps(&xs), ps(&ys)));
        emit(format!("{} interpb 3 1 1 {} {}", f, ps(&xs), ps(&ys)));
    }

    // ---- Horner / synthetic-division accumulators hitting 0 and 1 midway
    for _ in 0..(if light && !thorough { 2 } else { 4 }) {
        let r = rnd(g, k, m);
        let u: Vec<OE> = of.pmul(&[of.sub(Z, r), ONE], &[rnd(g, k, m), rnd(g, k, m), ONE]); // u(r) = 0
        let low: Vec<OE> = (0..3).map(|_| rnd(g, k, m)).collect();
        // p = x^3 * u + low: the accumulator is 0 after the high part, at x = r
        let mut p0 = low.clone();
        p0.extend(u.iter().cloned());
        emit(format!("{} eval {} {}", f, ps(&p0), fmt(&r)));
        emit(format!("{} syndiv {} 1 {}", f, ps(&p0), fmt(&r)));
        emit(format!("{} syndivroots {} {}", f, ps(&p0), ps(&[r, rnd(g, k, m)])));
        // accumulator 1 after the high part: u + 1
        let mut u1 = u.clone();
        u1[0] = of.add(u1[0], ONE);
        let mut p1 = low.clone();
        p1.extend(u1.iter().cloned());
        emit(format!("{} eval {} {}", f, ps(&p1), fmt(&r)));
        emit(format!("{} syndiv {} 1 {}", f, ps(&p1), fmt(&r)));
        // value exactly 0 / 1 / -1 at the point
        for c in [Z, ONE, neg1] {
            let mut pc = u.clone();
            pc[0] = of.add(pc[0], c);
            emit(format!("{} eval {} {}", f, ps(&pc), fmt(&r)));
            emit(format!("{} evalmany {} {}", f, ps(&pc), ps(&[r, Z, ONE, r])));
        }
        // quotients with coefficients 0, 1, -1 (the carry / `quot` of the loops)
        let q = vec![ONE, Z, neg1, ONE, ONE, Z, ONE];
        let b = vec![rnd(g, k, m), rnd(g, k, m), ONE];
        emit(format!("{} div {} {}", f, ps(&of.pmul(&q, &b)), ps(&b)));
        emit(format!("{} syndiv {} 1 {}", f, ps(&of.pmul(&q, &[of.sub(Z, r), ONE])), fmt(&r)));
        emit(format!("{} syndiv {} 2 {}", f, ps(&of.pmul(&q, &of.xab(2, r))), fmt(&r)));
    }
    // ---- power series whose accumulator returns to 1 (bases of small order) or is 0
    for ord in [1u128, 2, 4, 8, 16] {
        let b = base(powmod(gen0, (m - 1) / ord, m));
        for nn in [3usize, 9, 17, 33] {
            emit(format!("{} pser {} {}", f, fmt(&b), nn));
            emit(format!("{} psero {} {} {}", f, fmt(&b), fmt(&of.inv(b)), nn));
            emit(format!("{} psero {} {} {}", f, fmt(&b), fmt(&rnd(g, k, m)), nn));
        }
    }
    // ---- sums / products cancelling: a + (-a), a - a, a + b*c = 0, coefficients of a product cancelling
    for len in [1usize, 3, 6] {
        let a: Vec<OE> = (0..len).map(|_| rnd(g, k, m)).collect();
        let na: Vec<OE> = a.iter().map(|x| of.sub(Z, *x)).collect();
        emit(format!("{} add {} {}", f, ps(&a), ps(&na)));
        emit(format!("{} sub {} {}", f, ps(&a), ps(&a)));
        emit(format!("{} addip {} {}", f, ps(&a), ps(&na)));
        let mut a1 = a.clone();
        a1.push(rnd(g, k, m));
        emit(format!("{} add {} {}", f, ps(&a1), ps(&na))); // only the top coefficient survives
        emit(format!("{} sub {} {}", f, ps(&a), ps(&a1)));
        emit(format!("{} scal {} {}", f, ps(&a), fmt(&of.inv(a[0])))); // a coefficient becomes 1
    }
    emit(format!("{} mul {} {}", f, ps(&[ONE, ONE]), ps(&[ONE, neg1]))); // (1+x)(1-x): middle term cancels
    emit(format!("{} mul {} {}", f, ps(&[ONE, ONE, ONE]), ps(&[neg1, ONE]))); // x^3 - 1
    let r = rnd(g, k, m);
    emit(format!("{} mul {} {}", f, ps(&[r, ONE]), ps(&[of.sub(Z, r), ONE]))); // x^2 - r^2
    emit(format!("{} mul {} {}", f, ps(&[r, of.inv(r)]), ps(&[of.inv(r), r])));
    if k == 1 {
        // mul_acc: a[i] + b[i]*c = 0 and = 1 (b is a sub-field list: only expressible in the base fields here)
        let c = rnd(g, k, m);
        let b: Vec<OE> = (0..5).map(|_| rnd(g, k, m)).collect();
        let a0: Vec<OE> = b.iter().map(|x| of.sub(Z, of.mul(*x, c))).collect();
        let a1: Vec<OE> = b.iter().map(|x| of.sub(ONE, of.mul(*x, c))).collect();
        emit(format!("{} mulacc {} {} {}", f, ps(&a0), ps(&b), fmt(&c)));
        emit(format!("{} mulacc {} {} {}", f, ps(&a1), ps(&b), fmt(&c)));
    }
}

/// `light`: the further extension fields get the same generators on smaller exhaustive sets (the code
/// under test is generic; they mainly add the extension arithmetic of C08 to the picture)
#[allow(clippy::too_many_arguments)]
fn gen_f(
    fname: &'static str,
    m: u128,
    bits: u32,
    deg: usize,
    light: bool,
    of: OF,
    gen0: u128,
    rng: &mut Rng,
    tier: Tier,
    n: usize,
    emit: &mut dyn FnMut(String),
) {
    let quad = deg > 1;
    let f = fname;
    let thorough = tier == Tier::Thorough;
    let mut g = G { f, m, bits, deg, rng, sub: false };
    let bset = g.bset();
    let s2 = g.small(2);
    let s4 = if light { s2.clone() } else { g.small(4) };
    let s3 = if light { s2.clone() } else { g.small(3) };
    let s1 = g.small(1);
    let sub_small2 = {
        g.sub = true;
        let v = g.small(2);
        g.sub = false;
        v
    };
    let zero = g.zero();
    let one = bset[1].clone();

    // ---- exhaustive small cases: unary operations on every list of length <= 4
    for p in &s4 {
        emit(format!("{} deg {}", f, p));
        emit(format!("{} rlz {}", f, p));
        emit(format!("{} roots {}", f, p));
        emit(format!("{} binv {}", f, p));
        for x in &bset {
            emit(format!("{} eval {} {}", f, p, x));
        }
        for k in [&bset[0], &bset[1], &bset[3]] {
            emit(format!("{} scal {} {}", f, p, k));
        }
        for a in 0..=5usize {
            if !thorough && a == 4 {
                continue;
            }
            for b in [&bset[1], &bset[2], &bset[3]] {
                if !thorough && b == &bset[2] && a > 2 {
                    continue;
                }
                emit(format!("{} syndiv {} {} {}", f, p, a, b));
            }
        }
        emit(format!("{} syndiv {} 1 {}", f, p, zero));
        emit(format!("{} syndiv {} 2 {}", f, p, zero));
    }
    // ---- binary operations: all pairs up to the tier's size, plus long x short
    let (big, small): (&Vec<String>, &Vec<String>) = if thorough { (&s4, &s2) } else { (&s3, &s1) };
    let pairs: &Vec<String> = if thorough { &s3 } else { &s2 };
    let mut bin = |a: &String, b: &String, emit: &mut dyn FnMut(String)| {
        for op in ["add", "sub", "mul", "div", "addip"] {
            emit(format!("{} {} {} {}", f, op, a, b));
        }
    };
    for a in pairs {
        for b in pairs {
            bin(a, b, emit);
        }
    }
    for a in big {
        for b in small {
            bin(a, b, emit);
            if a != b {
                bin(b, a, emit);
            }
        }
    }
    for p in if thorough { &s4 } else { &s3 } {
        for r in &s2 {
            emit(format!("{} syndivroots {} {}", f, p, r));
            emit(format!("{} evalmany {} {}", f, p, r));
        }
    }
    for a in &s2 {
        for b in &sub_small2 {
            for c in [&bset[0], &bset[1], &bset[3]] {
                emit(format!("{} mulacc {} {} {}", f, a, b, c));
            }
        }
    }
    if quad {
        for p in &sub_small2 {
            for x in &bset {
                emit(format!("{} evalb {} {}", f, p, x));
            }
        }
    }
    // interpolation over every small point list (duplicates included) with boundary values
    for xs in if thorough { &s4 } else { &s3 } {
        let k = if xs == "-" { 0 } else { xs.split(',').count() };
        for rlz in [0, 1] {
            let ys = g.list(k);
            emit(format!("{} interp {} {} {}", f, xs, ys, rlz));
            let ys: Vec<String> = (0..k).map(|_| g.rng.pick(&bset).clone()).collect();
            emit(format!("{} interp {} {} {}", f, xs, join(&ys), rlz));
        }
        // mismatching numbers of coordinates
        emit(format!("{} interp {} {} 0", f, xs, g.list(k + 1)));
        if k > 0 {
            emit(format!("{} interp {} {} 0", f, xs, g.list(k - 1)));
        }
        // the same points as one batch of interpolate_batch
        if k <= 8 {
            emit(format!("{} interpb {} 1 1 {} {}", f, k, xs, g.list(k)));
        }
    }
    // power series and batch inversion at the batching threshold and at the degenerate sizes
    // 4096 / 4100 / 8200: with the `concurrent` build variant (3 worker threads, rounded up to 4 batches) the
    // series is split into batches only from 1024 elements per batch on
    let series_sizes: Vec<usize> =
        if light { vec![0, 1, 2, 3, 1023, 1024, 1025] } else { vec![0, 1, 2, 3, 1023, 1024, 1025, 4096, 4100, 8200] };
    for nn in series_sizes {
        for b in [bset[0].clone(), bset[1].clone(), bset[3].clone(), g.el()] {
            if nn > 3 && (b == bset[0] || b == bset[1]) && !thorough {
                continue;
            }
            if nn > 4000 && b == bset[3] && !thorough {
                continue;
            }
            emit(format!("{} pser {} {}", f, b, nn));
            emit(format!("{} psero {} {} {}", f, b, g.el(), nn));
        }
        emit(format!("{} psero {} {} {}", f, g.el(), zero, nn));
    }
    for nn in if thorough {
        vec![1023usize, 1024, 1025, 2048, 2049]
    } else if light {
        vec![1024usize, 1025]
    } else {
        vec![1023usize, 1024, 1025, 4099]
    } {
        // zeros at the chunk borders and at random positions
        let mut v: Vec<String> = (0..nn).map(|_| g.nz_el()).collect();
        emit(format!("{} binv {}", f, join(&v)));
        for pos in [0usize, 1022, 1023, 1024, nn - 1] {
            if pos < nn {
                v[pos] = zero.clone();
            }
        }
        emit(format!("{} binv {}", f, join(&v)));
        let a = g.list(nn);
        let b = g.list(nn);
        emit(format!("{} addip {} {}", f, a, b));
        g.sub = true;
        let bs = g.list(nn);
        g.sub = false;
        emit(format!("{} mulacc {} {} {}", f, a, bs, g.el()));
    }
    // vectors with a zero at every position / every pattern of zeros
    for len in 1..=(if thorough { 10 } else if light { 4 } else { 7 }) {
        let base: Vec<String> = (0..len).map(|_| g.nz_el()).collect();
        for mask in 0u32..(1 << len) {
            let v: Vec<String> = (0..len).map(|i| if mask >> i & 1 == 1 { zero.clone() } else { base[i].clone() }).collect();
            emit(format!("{} binv {}", f, join(&v)));
        }
    }
    for len in if light && !thorough { vec![16usize] } else { vec![16usize, 33, 100] } {
        let base: Vec<String> = (0..len).map(|_| g.nz_el()).collect();
        for pos in 0..len {
            let mut v = base.clone();
            v[pos] = zero.clone();
            emit(format!("{} binv {}", f, join(&v)));
        }
    }

    gen_structured(&mut g, of, gen0, thorough, light, emit);
    gen_related(&mut g, of, gen0, thorough, light, emit);

    // ---- random structured cases
    let sizes = |g: &mut G| -> usize {
        match g.rng.below(20) {
            0 => 0,
            1 => 1,
            2..=9 => g.rng.range(2, 8) as usize,
            10..=16 => g.rng.range(9, 40) as usize,
            17 | 18 => g.rng.range(41, 120) as usize,
            _ => g.rng.range(121, 300) as usize,
        }
    };
    for i in 0..n {
        match i % 16 {
            0 => {
                let la = sizes(&mut g);
                let lb = sizes(&mut g);
                let op = *g.rng.pick(&["add", "sub", "addip"]);
                let lb = if op == "addip" && g.rng.chance(9, 10) { la } else { lb };
                emit(format!("{} {} {} {}", f, op, g.zlist(la), g.zlist(lb)));
            },
            1 => {
                let la = sizes(&mut g);
                let lb = sizes(&mut g).min(120);
                emit(format!("{} mul {} {}", f, g.zlist(la), g.zlist(lb)));
            },
            2 | 3 => {
                // division: mostly deg b <= deg a, sometimes exact multiples
                // (every quotient coefficient costs one field inversion)
                let lb = sizes(&mut g).min(60).max(1);
                let la = lb + sizes(&mut g).min(if thorough { 80 } else { 24 });
                let (a, b) = (g.zlist(la), g.zlist(lb));
                if g.rng.chance(1, 8) {
                    emit(format!("{} div {} {}", f, b, a));
                } else {
                    emit(format!("{} div {} {}", f, a, b));
                }
            },
            4 | 5 => {
                // synthetic division: a = 1, a >= 2, b = 1, a > deg p
                let lp = sizes(&mut g);
                let a = match g.rng.below(8) {
                    0 => 0,
                    1..=3 => 1,
                    4 | 5 => g.rng.range(2, 9) as usize,
                    6 => lp + g.rng.below(2) as usize,
                    _ => g.rng.range(2, (lp as u64).max(3)) as usize,
                };
                let b = match g.rng.below(6) {
                    0 => one.clone(),
                    1 => zero.clone(),
                    _ => g.el(),
                };
                emit(format!("{} syndiv {} {} {}", f, g.zlist(lp), a, b));
            },
            6 => {
                let lp = sizes(&mut g).min(150);
                let lr = match g.rng.below(6) {
                    0 => 0,
                    1 => lp,
                    _ => g.rng.range(1, (lp as u64).max(2).min(12)) as usize,
                };
                emit(format!("{} syndivroots {} {}", f, g.zlist(lp), g.zlist(lr)));
            },
            7 => {
                let l = sizes(&mut g).min(120);
                emit(format!("{} roots {}", f, g.zlist(l)));
            },
            8 | 9 => {
                // interpolation: distinct points (sometimes containing 0), sometimes a duplicate
                let k = sizes(&mut g).min(if thorough { 48 } else { 20 });
                let mut xs = g.distinct(k);
                if k > 0 && g.rng.chance(1, 4) {
                    let pos = g.rng.below(k as u64) as usize;
                    if !xs.contains(&zero) {
                        xs[pos] = zero.clone();
                    }
                }
                if k > 1 && g.rng.chance(1, 10) {
                    let (i, j) = (g.rng.below(k as u64) as usize, g.rng.below(k as u64) as usize);
                    xs[i] = xs[j].clone();
                }
                let ys = g.zlist(k);
                emit(format!("{} interp {} {} {}", f, join(&xs), ys, g.rng.below(2)));
            },
            10 => {
                let nn = *g.rng.pick(&[0usize, 1, 2, 3, 4, 4, 5, 6, 7, 8, 8]);
                let nb = g.rng.range(0, 4) as usize;
                let nby = if g.rng.chance(1, 10) { nb + 1 } else { nb };
                let mut xs = vec![];
                for _ in 0..nb {
                    let mut b = g.distinct(nn);
                    if nn > 0 && g.rng.chance(1, 4) && !b.contains(&zero) {
                        b[g.rng.below(nn as u64) as usize] = zero.clone();
                    }
                    if nn > 1 && g.rng.chance(1, 12) {
                        b[0] = b[1].clone();
                    }
                    xs.extend(b);
                }
                emit(format!("{} interpb {} {} {} {} {}", f, nn, nb, nby, join(&xs), g.zlist(nby * nn)));
            },
            11 => {
                let l = sizes(&mut g);
                let k = sizes(&mut g).min(20);
                emit(format!("{} evalmany {} {}", f, g.zlist(l), g.list(k)));
                if quad {
                    g.sub = true;
                    let p = g.zlist(l);
                    g.sub = false;
                    emit(format!("{} evalb {} {}", f, p, g.el()));
                }
            },
            12 => {
                let l = sizes(&mut g);
                emit(format!("{} deg {}", f, g.zlist(l)));
                emit(format!("{} rlz {}", f, g.zlist(l)));
                emit(format!("{} scal {} {}", f, g.zlist(l), g.el()));
            },
            13 => {
                let nn = sizes(&mut g);
                emit(format!("{} pser {} {}", f, g.el(), nn));
                emit(format!("{} psero {} {} {}", f, g.el(), g.el(), nn));
            },
            14 => {
                let l = sizes(&mut g);
                emit(format!("{} binv {}", f, g.zlist(l)));
            },
            _ => {
                let l = sizes(&mut g);
                let lb = if g.rng.chance(1, 10) { sizes(&mut g) } else { l };
                let a = g.zlist(l);
                g.sub = true;
                let b = g.zlist(lb);
                g.sub = false;
                emit(format!("{} mulacc {} {} {}", f, a, b, g.el()));
            },
        }
    }
    // malformed lines
    for l in ["eval", "eval 1 2 3", "mul 1,,2 3", "div x 1", "syndiv 1,2 -1 3", "interp 1 2 2", "nosuch 1", "pser 1 x", "binv 1:"] {
        emit(format!("{} {}", f, l));
    }
}

impl Prop for P {
    fn id(&self) -> &'static str {
        "C20"
    }
    fn gen(&self, rng: &mut Rng, tier: Tier, n: usize, emit: &mut dyn FnMut(String)) {
        let n = default_n(tier, 1_200, 60_000, n);
        gen_f("f64", M64, 64, 1, false, <f64::BaseElement as El>::OFLD, 7, rng, tier, n, emit);
        gen_f("f62", M62, 64, 1, false, <f62::BaseElement as El>::OFLD, 3, rng, tier, n, emit);
        gen_f("f128", M128, 128, 1, false, <f128::BaseElement as El>::OFLD, 3, rng, tier, n / 2, emit);
        gen_f("q64", M64, 64, 2, false, <Q64 as El>::OFLD, 7, rng, tier, n / 2, emit);
        gen_f("q62", M62, 64, 2, true, <Q62 as El>::OFLD, 3, rng, tier, n / 6, emit);
        gen_f("q128", M128, 128, 2, true, <Q128 as El>::OFLD, 3, rng, tier, n / 6, emit);
        gen_f("c64", M64, 64, 3, true, <C64 as El>::OFLD, 7, rng, tier, n / 6, emit);
        gen_f("c62", M62, 64, 3, true, <C62 as El>::OFLD, 3, rng, tier, n / 6, emit);
        emit("f63 eval 1 1".into());
    }
    fn exec(&self, line: &str) -> Outcome {
        let t: Vec<&str> = line.split(' ').collect();
        match t[0] {
            "f64" => exec_f::<f64::BaseElement>(&t[1..]),
            "f62" => exec_f::<f62::BaseElement>(&t[1..]),
            "f128" => exec_f::<f128::BaseElement>(&t[1..]),
            "q64" => exec_f::<Q64>(&t[1..]),
            "q62" => exec_f::<Q62>(&t[1..]),
            "q128" => exec_f::<Q128>(&t[1..]),
            "c64" => exec_f::<C64>(&t[1..]),
            "c62" => exec_f::<C62>(&t[1..]),
            _ => Outcome::ok("bad-op"),
        }
    }
    fn timeout_ms(&self) -> u64 {
        // long vectors over the 128-bit extension are slow in the bignum oracle on a loaded machine;
        // a timeout must not be mistaken for a hang of the implementation
        180_000
    }
    fn class(&self, line: &str, out: &str) -> String {
        let t: Vec<&str> = line.split(' ').collect();
        let o = if out == "panic" || out == "hang" || out == "abort" || out == "bad-op" { out } else { "ok" };
        let empty = if t.iter().skip(2).any(|a| *a == "-") { ":empty-operand" } else { "" };
        let rel = match t.first() {
            Some(&"f64") => related_label::<f64::BaseElement>(&t[1..]),
            Some(&"f62") => related_label::<f62::BaseElement>(&t[1..]),
            Some(&"f128") => related_label::<f128::BaseElement>(&t[1..]),
            Some(&"q64") => related_label::<Q64>(&t[1..]),
            Some(&"q62") => related_label::<Q62>(&t[1..]),
            Some(&"q128") => related_label::<Q128>(&t[1..]),
            Some(&"c64") => related_label::<C64>(&t[1..]),
            Some(&"c62") => related_label::<C62>(&t[1..]),
            _ => String::new(),
        };
        format!("{}.{}:{}{}{}", t.first().unwrap_or(&""), t.get(1).unwrap_or(&""), o, empty, rel)
    }
    fn panic_site(&self, _line: &str) -> Option<String> {
        // panics of the library are caught and judged inside exec (`call`); a panic that escapes is
        // one in the harness/oracle itself and must not go unnoticed
        Some("harness.panic".into())
    }
    fn rule(&self) -> &'static str {
        "every list over {0,1,2,p-1} (extension fields q64 q62 q128 c64 c62: {0,1,phi,(p-1)(1+phi(+phi^2))}, the last four on smaller exhaustive sets) of length <= 4 for each unary operation and as dividend of synthetic \
         division with a in 0..5 and b in {1,2,p-1,0}; all pairs of such lists of length <= 2 (thorough: <= 3) and long x short pairs for \
         add/sub/mul/div/add_in_place; interpolation over every small point list incl. empty, singletons, duplicates and 0; batch inversion \
         with every pattern of zeros up to length 7 (thorough 10) and a zero at every position of longer vectors; sizes 0,1,2,3,1023,1024,1025 \
         for the batched utilities; algebraically related operands (batch-inversion inputs and interpolation denominators whose non-zero product is 1, -1 or a small constant, prefix products 1, sums 0, (a,-a), (a,a), mutual inverses, Horner accumulators 0/1 midway, bases of small order; labelled in the distribution); seeded random operands up to length 300 with leading/trailing/interior zeros, non-canonical inputs (p, p+1), \
         exact and inexact divisions, a = 1, a >= 2, b = 1, a > deg p; a case is non-trivial when its op line is distinct"
    }
}

fn main() {
    wf_harness::core::main_for(&P);
}
