//! C05: FRI soundness — what the verifier enforces, played against adversaries.
//! Op lines mirror lean/Winter/Drv/C05.lean:
//!   vfy <tag> <fld> <hasher> <N> <remdeg> <logb> <maxdeg> <parts> <ncommit> <alphas> <positions> <evals> <rem> <crem> <layers>
//!       FriVerifier::new + verify (the repository's decision code) on channel data given in the line: the channel is
//!       a harness implementation of the public `VerifierChannel` trait whose Merkle check is the flag of the layer and
//!       whose last commitment is the hash of `crem`; the coin returns the given α's.  Compared with the Lean model.
//!   adv <fld> <hasher> <N> <remdeg> <logb> <logT> <nq> <fkind> <fparam> <strategy> <sparam> <seed>
//!       adversaries against the real prover/verifier with the default channels, Merkle trees and coin
//!       (not modelled: α's and query positions depend on the hash function).
//!   prt <fld> <hasher> <N> <remdeg> <logb> <logT> <nq> <fkind> <strategy> <pexp> <cshift> <seed>
//!       the partition-count dimension and the error kinds of MerkleTree::verify_batch, end to end with the default
//!       channel (its provided `read_layer_queries`), real Merkle trees and coin: the proof's num_partitions byte is
//!       `pexp` (2^pexp partitions), the channel is built for a domain of size/2^cshift (wrong tree depth), and the
//!       values are honest, forged so that they fold onto the committed remainder (real or junk layer commitments),
//!       substituted openings, more than 255 folded positions, or no position at all (not modelled: oracle only).
//! Oracle: a function that is not of low degree (random, degree bound+1..domain-1, heavily corrupted) must be
//! rejected whatever the strategy; the remainder must be the one committed to before the queries were drawn; for
//! honest folding the verdict is predicted exactly in the coefficient domain.
#![allow(dead_code, unused_variables, unused_imports, unused_mut)]
#[path = "../fri_common.rs"]
mod fri_common;
use std::collections::VecDeque;

use fri_common::*;
use wf_harness::core::*;
use wf_harness::fields::*;
use wf_harness::oracle::*;
use winter_crypto::{BatchMerkleProof, DefaultRandomCoin, ElementHasher, Hasher, RandomCoin};
use winter_fri::{
    folding::{apply_drp, fold_positions},
    DefaultProverChannel, FriOptions, FriProof, FriProver, FriVerifier, ProverChannel, VerifierChannel, VerifierError,
};
use winter_math::{fft, get_power_series_with_offset, polynom, FieldElement, StarkField};
use winter_utils::{group_slice_elements, transpose_slice, Deserializable, Serializable};

pub struct P;

// ------------------------------------------------------------------------------------ abstract channel
struct AbsChannel<E: FieldElement, H: ElementHasher<BaseField = E::BaseField>> {
    parts: usize,
    commitments: Vec<H::Digest>,
    layers: VecDeque<(bool, Vec<E>)>,
    remainder: Vec<E>,
}

impl<E: FieldElement, H: ElementHasher<BaseField = E::BaseField>> VerifierChannel<E> for AbsChannel<E, H> {
    type Hasher = H;
    fn read_fri_num_partitions(&self) -> usize {
        self.parts
    }
    fn read_fri_layer_commitments(&mut self) -> Vec<H::Digest> {
        self.commitments.drain(..).collect()
    }
    fn take_next_fri_layer_queries(&mut self) -> Vec<E> {
        unreachable!()
    }
    fn take_next_fri_layer_proof(&mut self) -> BatchMerkleProof<H> {
        unreachable!()
    }
    fn take_fri_remainder(&mut self) -> Vec<E> {
        self.remainder.clone()
    }
    /// Merkle verification abstracted: the flag says whether the opened rows are the committed ones; a batch
    /// proof with fewer leaves than indexes never verifies
    fn read_layer_queries<const N: usize>(
        &mut self,
        positions: &[usize],
        _commitment: &H::Digest,
    ) -> Result<Vec<[E; N]>, VerifierError> {
        let (ok, flat) = self.layers.pop_front().expect("no more layers in the channel");
        if !ok || flat.len() / N < positions.len() {
            return Err(VerifierError::LayerCommitmentMismatch);
        }
        Ok(group_slice_elements(&flat).to_vec())
    }
}

// ------------------------------------------------------------------------------------ vfy
struct Vfy<'a> {
    t: &'a [&'a str],
}

fn parse_layers(of: &OF, s: &str) -> Option<Vec<(bool, Vec<Vec<O>>)>> {
    if s == "-" {
        return Some(vec![]);
    }
    s.split('|')
        .map(|l| {
            let mut it = l.split('/');
            let flag = it.next()?;
            let rows = of.parse_rows(it.next()?)?;
            Some((flag == "1", rows))
        })
        .collect()
}

impl<'a> Job for Vfy<'a> {
    fn run<B: Fld, E: El<B>, H: ElementHasher<BaseField = B> + 'static>(&self, of: OF) -> Outcome {
        let t = self.t;
        let pu = |s: &str| s.parse::<usize>().ok();
        let (n, r, logb, maxdeg, parts, ncommit) = match (pu(t[0]), pu(t[1]), pu(t[2]), pu(t[3]), pu(t[4]), pu(t[5])) {
            (Some(a), Some(b), Some(c), Some(d), Some(e), Some(f)) => (a, b, c, d, e, f),
            _ => return Outcome::ok("bad-op"),
        };
        let (alphas, positions, evals, rem, crem, layers) = match (
            of.parse_list(t[6]),
            parse_usizes(t[7]),
            of.parse_list(t[8]),
            of.parse_list(t[9]),
            of.parse_list(t[10]),
            parse_layers(&of, t[11]),
        ) {
            (Some(a), Some(b), Some(c), Some(d), Some(e), Some(f)) => (a, b, c, d, e, f),
            _ => return Outcome::ok("bad-op"),
        };
        let options = FriOptions::new(1 << logb, n, r);
        let crem_e: Vec<E> = to_els::<B, E>(&crem);
        let mut commitments: Vec<H::Digest> = vec![];
        for i in 0..ncommit {
            if i + 1 == ncommit {
                commitments.push(H::hash_elements(&crem_e));
            } else {
                // a layer commitment: never equal to the hash of a remainder used here
                commitments.push(H::hash_elements(&[E::from(0xC0FFEEu32), E::from(i as u32)]));
            }
        }
        let mut channel = AbsChannel::<E, H> {
            parts,
            commitments,
            layers: layers
                .iter()
                .map(|(ok, rows)| (*ok, rows.iter().flat_map(|r| to_els::<B, E>(r)).collect::<Vec<E>>()))
                .collect(),
            remainder: to_els::<B, E>(&rem),
        };
        let al: Vec<E> = to_els::<B, E>(&alphas);
        let mut coin = ScriptCoin::<B, H>::of::<E>(&al);
        let ev: Vec<E> = to_els::<B, E>(&evals);
        let verdict = match FriVerifier::new(&mut channel, &mut coin, options, maxdeg) {
            Ok(v) => verdict_str(&v.verify(&mut channel, &ev, &positions)),
            Err(e) => verr_str(&e),
        };
        let mut o = Outcome::ok(verdict.clone());
        if verdict == "ok" && rem != crem {
            o = o.fail(
                "fri.verify.remainder-not-committed",
                "accepted although the remainder presented is not the remainder that was committed to",
            );
        }
        o
    }
}

// ------------------------------------------------------------------------------------ vfy generator
#[derive(Clone)]
struct Scn {
    fld: &'static str,
    hasher: &'static str,
    n: usize,
    r: usize,
    logb: u32,
    logt: u32,
    maxdeg: usize,
    parts: usize,
    ncommit: usize,
    alphas: Vec<O>,
    positions: Vec<usize>,
    evals: Vec<O>,
    rem: Vec<O>,
    crem: Vec<O>,
    layers: Vec<(bool, Vec<Vec<O>>)>,
    // bookkeeping for the adversary
    last_positions: Vec<usize>,
    last_coeffs: Vec<O>,
    last_domain: usize,
}

impl Scn {
    fn line(&self, of: &OF, tag: &str) -> String {
        let layers = if self.layers.is_empty() {
            "-".to_string()
        } else {
            self.layers
                .iter()
                .map(|(ok, rows)| format!("{}/{}", if *ok { 1 } else { 0 }, of.print_rows(rows)))
                .collect::<Vec<_>>()
                .join("|")
        };
        format!(
            "vfy {} {} {} {} {} {} {} {} {} {} {} {} {} {} {}",
            tag,
            self.fld,
            self.hasher,
            self.n,
            self.r,
            self.logb,
            self.maxdeg,
            self.parts,
            self.ncommit,
            of.print_list(&self.alphas),
            print_usizes(&self.positions),
            of.print_list(&self.evals),
            of.print_list(&self.rem),
            of.print_list(&self.crem),
            layers
        )
    }
}

/// the data an honest prover would send for the function with coefficients `coeffs` (any number ≤ domain)
fn honest_scn(
    of: &OF,
    fld: &'static str,
    hasher: &'static str,
    n: usize,
    r: usize,
    logb: u32,
    logt: u32,
    coeffs: &[O],
    alphas: &[O],
    positions: &[usize],
) -> Scn {
    let blowup = 1usize << logb;
    let size = (1usize << logt) * blowup;
    let num_layers = ref_num_layers(blowup, n, r, size);
    let dom = of.domain(size);
    let evals: Vec<O> = positions.iter().map(|p| of.horner(coeffs, dom[*p])).collect();
    let mut h = coeffs.to_vec();
    let mut ps = positions.to_vec();
    let mut nd = size;
    let mut layers = vec![];
    for d in 0..num_layers {
        let m = nd / n;
        ps = ref_fold_positions(&ps, m);
        let domd = of.domain(nd);
        let rows: Vec<Vec<O>> = ps.iter().map(|p| (0..n).map(|j| of.horner(&h, domd[p + j * m])).collect()).collect();
        layers.push((true, rows));
        h = of.fold_layer_coeffs(&h, alphas[d], n);
        nd = m;
    }
    let want = nd / blowup;
    let mut rem: Vec<O> = h.iter().cloned().take(want).collect();
    rem.resize(want, of.zero());
    Scn {
        fld,
        hasher,
        n,
        r,
        logb,
        logt,
        maxdeg: (1usize << logt) - 1,
        parts: 1,
        ncommit: num_layers + 1,
        alphas: alphas.to_vec(),
        positions: positions.to_vec(),
        evals,
        rem: rem.clone(),
        crem: rem,
        layers,
        last_positions: ps,
        last_coeffs: h,
        last_domain: nd,
    }
}

fn remainder_len(t: usize, blowup: usize, folding: usize, remdeg: usize) -> usize {
    let mut d = t * blowup;
    while d > (remdeg + 1) * blowup {
        d /= folding;
    }
    d / blowup
}

fn gen_positions(kind: u64, n: usize, folding: usize, nq: usize, rng: &mut Rng) -> Vec<usize> {
    match kind % 4 {
        0 => (0..nq).map(|_| rng.below(n as u64) as usize).collect(),
        1 => {
            let base = rng.below(n as u64) as usize;
            (0..nq).map(|_| (base + rng.below(3) as usize) % n).collect()
        },
        2 => {
            let p = rng.below(n as u64) as usize;
            let step = n / folding;
            (0..nq).map(|k| (p + (k % folding) * step + k / folding) % n).collect()
        },
        _ => vec![rng.below(n as u64) as usize; nq],
    }
}

fn gen_vfy(rng: &mut Rng, tier: Tier, count: usize, emit: &mut dyn FnMut(String)) {
    let maxlogn = if tier == Tier::Quick { 8 } else { 10 };
    let mut k = 0usize;
    let mut attempts = 0usize;
    while k < count {
        let fld = FIELDS[k % 4];
        let of = of_for(fld).unwrap();
        let hs = hashers_for(fld);
        let hasher = hs[(k / 4) % hs.len()];
        attempts += 1;
        // folding factor by index; after repeated misses (e.g. two layers of folding 16 do not fit) any
        let n = if attempts > 50 { *rng.pick(&[2usize, 4, 8, 16]) } else { [2usize, 4, 8, 16][(k / 16) % 4] };
        let r = *rng.pick(&[0usize, 1, 3, 7, 15, 31]);
        let logb = rng.range(1, 3) as u32;
        let logt = rng.range(2, (maxlogn - logb) as u64) as u32;
        let t = 1usize << logt;
        let blowup = 1usize << logb;
        if remainder_len(t, blowup, n, r) == 0 {
            continue;
        }
        let size = t * blowup;
        let num_layers = ref_num_layers(blowup, n, r, size);
        // strategies that alter a layer need one (two for a swap)
        let need = match (k + 1) % 24 {
            6 | 7 | 9 | 10 | 11 | 13 | 17 => 1,
            12 => 2,
            _ => 0,
        };
        if num_layers < need {
            continue;
        }
        k += 1;
        attempts = 0;
        let alphas: Vec<O> = (0..num_layers + 1).map(|_| of.rand(rng)).collect();
        let nq = rng.range(1, 8) as usize;
        let positions = gen_positions(rng.u64(), size, n, nq, rng);
        let low: Vec<O> = (0..t).map(|_| of.rand(rng)).collect();
        let over_len = match rng.below(3) {
            0 => t + 1,
            1 => size,
            _ => rng.range(t as u64 + 1, size as u64) as usize,
        };
        let mut over: Vec<O> = (0..over_len).map(|_| of.rand(rng)).collect();
        if *over.last().unwrap() == of.zero() {
            *over.last_mut().unwrap() = of.one();
        }
        let honest = honest_scn(&of, fld, hasher, n, r, logb, logt, &low, &alphas, &positions);
        let bad = honest_scn(&of, fld, hasher, n, r, logb, logt, &over, &alphas, &positions);
        let strategy = k % 24;
        let pick_layer = |rng: &mut Rng| rng.below(num_layers.max(1) as u64) as usize;
        match strategy {
            0 => emit(honest.line(&of, "honest")),
            1 => emit(bad.line(&of, "overdeg")),
            2 | 3 | 4 | 5 => {
                // the remainder is re-computed after the queries are known: the polynomial through the folded points
                let tl = bad.rem.len();
                let mut s = bad.clone();
                let mut lp = bad.last_positions.clone();
                lp.sort();
                lp.dedup();
                let doml = of.domain(bad.last_domain);
                if lp.len() <= tl {
                    let xs: Vec<O> = lp.iter().map(|p| doml[*p]).collect();
                    let ys: Vec<O> = xs.iter().map(|x| of.horner(&bad.last_coeffs, *x)).collect();
                    let mut nr = of.interpolate(&xs, &ys);
                    nr.resize(tl, of.zero());
                    s.rem = nr;
                    if strategy == 5 {
                        s.crem = s.rem.clone();
                        emit(s.line(&of, "adaptboth"));
                    } else {
                        emit(s.line(&of, "adaptrem"));
                    }
                } else {
                    emit(s.line(&of, "overdeg"));
                }
            },
            6 | 7 => {
                let mut s = honest.clone();
                if num_layers > 0 {
                    let d = pick_layer(rng);
                    let i = rng.below(s.layers[d].1.len() as u64) as usize;
                    let j = rng.below(n as u64) as usize;
                    s.layers[d].1[i][j] = of.add(s.layers[d].1[i][j], of.one());
                    emit(s.line(&of, "tamperval"));
                } else {
                    s.rem[0] = of.add(s.rem[0], of.one());
                    s.crem = s.rem.clone();
                    emit(s.line(&of, "tamperrem"));
                }
            },
            8 => {
                let mut s = honest.clone();
                let i = rng.below(s.evals.len() as u64) as usize;
                s.evals[i] = of.add(s.evals[i], of.one());
                emit(s.line(&of, "tampereval"));
            },
            9 => {
                let mut s = honest.clone();
                if num_layers > 0 {
                    let d = pick_layer(rng);
                    s.layers[d].0 = false;
                }
                emit(s.line(&of, "merkle0"));
            },
            10 => {
                let mut s = honest.clone();
                if num_layers > 0 {
                    let d = pick_layer(rng);
                    s.alphas[d] = of.add(s.alphas[d], of.one());
                }
                emit(s.line(&of, "wrongalpha"));
            },
            11 => {
                let mut s = honest.clone();
                if num_layers > 0 {
                    let d = pick_layer(rng);
                    s.layers.remove(d);
                }
                emit(s.line(&of, "omit"));
            },
            12 => {
                let mut s = honest.clone();
                if num_layers > 1 {
                    let d = rng.below(num_layers as u64 - 1) as usize;
                    s.layers.swap(d, d + 1);
                }
                emit(s.line(&of, "swap"));
            },
            13 => {
                let mut s = honest.clone();
                if let Some(l) = s.layers.last().cloned() {
                    s.layers.push(l);
                }
                emit(s.line(&of, "extra"));
            },
            14 => {
                let mut s = honest.clone();
                if rng.chance(1, 2) && s.ncommit > 1 {
                    s.ncommit -= 1;
                    s.alphas.pop();
                    emit(s.line(&of, "ncommit-"));
                } else {
                    s.ncommit += 1;
                    s.alphas.push(of.rand(rng));
                    emit(s.line(&of, "ncommit+"));
                }
            },
            15 => {
                let mut s = honest.clone();
                s.maxdeg = match rng.below(5) {
                    0 if t > 9 => t - 9,
                    1 => t - 2,
                    2 => t,
                    3 => 2 * t - 1,
                    _ => t / 2 - 1,
                };
                emit(s.line(&of, "maxdeg"));
            },
            16 => {
                let mut s = honest.clone();
                let l = s.rem.len();
                s.rem.resize(2 * l, of.zero());
                s.crem = s.rem.clone();
                emit(s.line(&of, "remlong"));
            },
            17 => {
                let mut s = honest.clone();
                if num_layers > 0 {
                    let d = pick_layer(rng);
                    if rng.chance(1, 2) {
                        s.layers[d].1.pop();
                        emit(s.line(&of, "rowsfewer"));
                    } else {
                        let row = s.layers[d].1[0].clone();
                        s.layers[d].1.push(row);
                        emit(s.line(&of, "rowsmore"));
                    }
                } else {
                    emit(s.line(&of, "honest"));
                }
            },
            18 => {
                let mut s = honest.clone();
                if rng.chance(1, 2) {
                    s.evals.pop();
                } else {
                    s.positions.pop();
                }
                emit(s.line(&of, "lenmismatch"));
            },
            19 => {
                let mut s = honest.clone();
                let i = rng.below(s.positions.len() as u64) as usize;
                s.positions[i] += size;
                emit(s.line(&of, "posoob"));
            },
            20 => {
                let mut s = honest.clone();
                // the partition count is untrusted proof data: small, around the folded domain size, huge
                let target = (size / n).max(1);
                s.parts = *rng.pick(&[2usize, 4, (target / 2).max(1), target, 2 * target, 1 << 16, 1 << 40, 1 << 63]);
                emit(s.line(&of, "parts"));
            },
            21 => {
                // random function, honest folding
                let f: Vec<O> = (0..size).map(|_| of.rand(rng)).collect();
                let s = honest_scn(&of, fld, hasher, n, r, logb, logt, &f, &alphas, &positions);
                emit(s.line(&of, "randfn"));
            },
            22 => {
                // remainder not the committed one although both fit the queried points is impossible for an honest
                // low-degree run; here the committed remainder is simply a different polynomial
                let mut s = honest.clone();
                s.crem[0] = of.add(s.crem[0], of.one());
                emit(s.line(&of, "cremdiff"));
            },
            _ => {
                // degree exactly bound + 1
                let mut f: Vec<O> = (0..t + 1).map(|_| of.rand(rng)).collect();
                f[t] = of.one();
                let s = honest_scn(&of, fld, hasher, n, r, logb, logt, &f, &alphas, &positions);
                emit(s.line(&of, "overdeg1"));
            },
        }
    }
}

/// schedule classes × structured inputs × remainder/commitment strategies (HARDENING.md 1-4): every class of
/// (folding, layers 0..3, remainder length vs folding factor, folded bound vs remainder_max_degree+1, blowup) gets
/// an honest line and lines with longer / shorter / zero-padded remainders whose commitment is consistent
/// (`crem` = `rem`) or not, a degree bound one step below the honest one, and the adaptive remainder
fn gen_sched_vfy(rng: &mut Rng, tier: Tier, emit: &mut dyn FnMut(String)) {
    let classes = schedule_classes(8);
    let strategies = [
        "honest", "cremdiff", "adaptrem", "rempad", "remtrim", "crempad", "cremtrim", "boundtrim", "boundtrim-honest",
        "overdeg1", "ncommit-", "ncommit+", "lenmismatch", "tampereval", "remzero",
    ];
    let reps = if tier == Tier::Quick { 3 } else { 15 };
    let mut k = 0usize;
    for c in &classes {
        if (c.t << c.logb) > 64 {
            continue;
        }
        for rep in 0..reps {
            k += 1;
            let fld = FIELDS[k % 4];
            let of = of_for(fld).unwrap();
            let hs = hashers_for(fld);
            let hasher = hs[(k / 4) % hs.len()];
            let t = 1usize << c.logt;
            let size = t << c.logb;
            let alphas: Vec<O> = (0..c.layers + 1).map(|_| of.rand(rng)).collect();
            let pk = POLY_KINDS[(k * 7 + rep) % POLY_KINDS.len()];
            let qk = QUERY_KINDS[(k * 5 + rep) % QUERY_KINDS.len()];
            let positions = structured_positions(qk, size, c.n, c.layers, rng);
            let strategy = strategies[k % strategies.len()];
            let nl = c.n.pow(c.layers as u32);
            let coeffs = match strategy {
                "adaptrem" | "overdeg1" => {
                    let mut f: Vec<O> = (0..t + 1).map(|_| of.rand(rng)).collect();
                    f[t] = of.one();
                    f
                },
                // degree below the bound lowered by one step of the last layer
                "boundtrim" | "boundtrim-honest" | "remtrim" | "cremtrim" if c.t >= 2 => {
                    let mut f = structured_poly(&of, pk, t - nl, c.n, alphas[0], rng);
                    f.resize(t, of.zero());
                    f
                },
                _ => structured_poly(&of, pk, t, c.n, alphas[0], rng),
            };
            let mut s = honest_scn(&of, fld, hasher, c.n, c.r, c.logb, c.logt, &coeffs, &alphas, &positions);
            let tl = s.rem.len();
            match strategy {
                "cremdiff" => s.crem[0] = of.add(s.crem[0], of.one()),
                "adaptrem" => {
                    let mut lp = s.last_positions.clone();
                    lp.sort();
                    lp.dedup();
                    if lp.len() <= tl {
                        let doml = of.domain(s.last_domain);
                        let xs: Vec<O> = lp.iter().map(|p| doml[*p]).collect();
                        let ys: Vec<O> = xs.iter().map(|x| of.horner(&s.last_coeffs, *x)).collect();
                        let mut nr = of.interpolate(&xs, &ys);
                        nr.resize(tl, of.zero());
                        s.rem = nr;
                    }
                },
                "rempad" => {
                    s.rem.push(of.zero());
                    s.crem = s.rem.clone();
                },
                "remtrim" => {
                    if c.t >= 2 {
                        s.rem.pop();
                        s.crem = s.rem.clone();
                    }
                },
                "crempad" => s.crem.push(of.zero()),
                "cremtrim" => {
                    if c.t >= 2 {
                        s.crem.pop();
                    }
                },
                "boundtrim" | "boundtrim-honest" => {
                    // the claimed bound is one coefficient of the last layer lower; same domain when t > 2
                    if c.t >= 4 {
                        s.maxdeg = t - nl - 1;
                        if strategy == "boundtrim" {
                            s.rem.pop();
                            s.crem = s.rem.clone();
                        }
                    }
                },
                "ncommit-" => {
                    if s.ncommit > 1 {
                        s.ncommit -= 1;
                        s.alphas.pop();
                    }
                },
                "ncommit+" => {
                    s.ncommit += 1;
                    s.alphas.push(of.rand(rng));
                },
                "lenmismatch" => {
                    s.evals.pop();
                },
                "tampereval" => {
                    let i = rng.below(s.evals.len() as u64) as usize;
                    s.evals[i] = of.add(s.evals[i], of.one());
                },
                "remzero" => {
                    // the all-zero remainder presented for a non-zero function (commitment consistent)
                    for x in s.rem.iter_mut() {
                        *x = of.zero();
                    }
                    s.crem = s.rem.clone();
                },
                _ => {},
            }
            emit(s.line(&of, &format!("s-{}", strategy)));
        }
    }
}

/// single-step alterations of an honest scenario, combined in pairs so that the PRECEDENCE of the verifier's checks
/// is pinned (which error is reported when two things are wrong), plus schedules whose folding overshoots the
/// remainder (bound below the folding factor at the last layer) with and without the remainder commitment
fn mutate(of: &OF, s: &mut Scn, name: &str, folding: usize, layers: usize, t: usize, rng: &mut Rng) {
    match name {
        "cremdiff" => {
            if let Some(x) = s.crem.first_mut() {
                *x = of.add(*x, of.one());
            }
        },
        "rempad" => {
            s.rem.push(of.zero());
            s.crem = s.rem.clone();
        },
        "crempad" => s.crem.push(of.zero()),
        "tampereval" => {
            if !s.evals.is_empty() {
                let i = rng.below(s.evals.len() as u64) as usize;
                s.evals[i] = of.add(s.evals[i], of.one());
            }
        },
        "tamperval" => {
            if layers > 0 {
                let d = rng.below(layers as u64) as usize;
                if !s.layers[d].1.is_empty() {
                    let i = rng.below(s.layers[d].1.len() as u64) as usize;
                    let j = rng.below(folding as u64) as usize;
                    s.layers[d].1[i][j] = of.add(s.layers[d].1[i][j], of.one());
                }
            }
        },
        "merkle0" => {
            if layers > 0 {
                let d = rng.below(layers as u64) as usize;
                s.layers[d].0 = false;
            }
        },
        "ncommit-" => {
            if s.ncommit > 1 {
                s.ncommit -= 1;
                s.alphas.pop();
            }
        },
        "ncommit+" => {
            s.ncommit += 1;
            s.alphas.push(of.rand(rng));
        },
        "lenmismatch" => {
            s.evals.pop();
        },
        "baddeg" => {
            // same domain, but the bound stops being divisible by the folding factor at layer d
            if layers > 0 {
                let d = rng.below(layers as u64) as usize;
                let nd = folding.pow(d as u32);
                if 2 * nd < t {
                    s.maxdeg = t - nd - 1;
                }
            }
        },
        "remzero" => {
            for x in s.rem.iter_mut() {
                *x = of.zero();
            }
            s.crem = s.rem.clone();
        },
        _ => {},
    }
}

fn gen_combo_vfy(rng: &mut Rng, tier: Tier, emit: &mut dyn FnMut(String)) {
    let names = [
        "cremdiff", "rempad", "crempad", "tampereval", "tamperval", "merkle0", "ncommit-", "ncommit+", "lenmismatch", "baddeg",
        "remzero",
    ];
    let classes: Vec<Sched> = schedule_classes(8).into_iter().filter(|c| (c.t << c.logb) <= 64 && c.layers >= 1).collect();
    let count = if tier == Tier::Quick { 330 } else { 3300 };
    for k in 0..count {
        let c = classes[(k * 7) % classes.len()];
        let fld = FIELDS[k % 4];
        let of = of_for(fld).unwrap();
        let hasher = hashers_for(fld)[(k / 4) % 3];
        let t = 1usize << c.logt;
        let size = t << c.logb;
        let alphas: Vec<O> = (0..c.layers + 1).map(|_| of.rand(rng)).collect();
        let coeffs = structured_poly(&of, "full", t, c.n, alphas[0], rng);
        let positions = structured_positions(QUERY_KINDS[k % QUERY_KINDS.len()], size, c.n, c.layers, rng);
        let mut s = honest_scn(&of, fld, hasher, c.n, c.r, c.logb, c.logt, &coeffs, &alphas, &positions);
        // all ordered pairs of alterations, in rotation
        let a = names[k % names.len()];
        let b = names[(k / names.len() + 1 + k) % names.len()];
        mutate(&of, &mut s, a, c.n, c.layers, t, rng);
        mutate(&of, &mut s, b, c.n, c.layers, t, rng);
        emit(s.line(&of, &format!("c-{}+{}", a, b)));
    }
    // overshooting schedules: at the last layer the bound is below the folding factor (and not divisible by it)
    for (n, logt, r, logb) in [(4usize, 3u32, 0usize, 1u32), (8, 5, 1, 2), (16, 3, 3, 1), (16, 5, 0, 1), (8, 2, 0, 2), (4, 1, 0, 2)] {
        for fld in FIELDS {
            let of = of_for(fld).unwrap();
            let t = 1usize << logt;
            let size = t << logb;
            let layers = ref_num_layers(1 << logb, n, r, size);
            // every layer's domain must still hold a full row
            let mut d = size;
            let mut ok = true;
            for _ in 0..layers {
                if d < n {
                    ok = false;
                }
                d /= n;
            }
            if !ok || layers == 0 {
                continue;
            }
            let alphas: Vec<O> = (0..layers + 1).map(|_| of.rand(rng)).collect();
            let coeffs: Vec<O> = (0..t).map(|_| of.rand(rng)).collect();
            let positions = structured_positions("rand", size, n, layers, rng);
            let base = honest_scn(&of, fld, "b3", n, r, logb, logt, &coeffs, &alphas, &positions);
            emit(base.line(&of, "overshoot"));
            for m in ["ncommit-", "ncommit+", "tampereval", "cremdiff"] {
                let mut s = base.clone();
                mutate(&of, &mut s, m, n, layers, t, rng);
                emit(s.line(&of, &format!("overshoot+{}", m)));
            }
        }
    }
}

// ------------------------------------------------------------------------------------ adv (default channels)
/// prover channel with the default coin that (a) can replace the first commitment by a given digest and
/// (b) can hand the prover a wrong α at one layer
struct AdvChannel<E: FieldElement, H: ElementHasher<BaseField = E::BaseField>> {
    coin: DefaultRandomCoin<H>,
    commitments: Vec<H::Digest>,
    first: Option<H::Digest>,
    wrong_at: Option<usize>,
    draws: usize,
    _e: std::marker::PhantomData<E>,
}

impl<E: FieldElement, H: ElementHasher<BaseField = E::BaseField>> AdvChannel<E, H> {
    fn new(first: Option<H::Digest>, wrong_at: Option<usize>) -> Self {
        AdvChannel {
            coin: DefaultRandomCoin::<H>::new(&[]),
            commitments: vec![],
            first,
            wrong_at,
            draws: 0,
            _e: std::marker::PhantomData,
        }
    }
    fn draw_positions(&mut self, nq: usize, n: usize) -> Vec<usize> {
        self.coin.draw_integers(nq, n, 0).expect("draw positions")
    }
}

impl<E: FieldElement, H: ElementHasher<BaseField = E::BaseField>> ProverChannel<E> for AdvChannel<E, H> {
    type Hasher = H;
    fn commit_fri_layer(&mut self, layer_root: H::Digest) {
        let c = if self.commitments.is_empty() { self.first.unwrap_or(layer_root) } else { layer_root };
        self.commitments.push(c);
        self.coin.reseed(c);
    }
    fn draw_fri_alpha(&mut self) -> E {
        let a: E = self.coin.draw().expect("alpha");
        let k = self.draws;
        self.draws += 1;
        if self.wrong_at == Some(k) {
            a + E::ONE
        } else {
            a
        }
    }
}

struct Adv<'a> {
    n: usize,
    r: usize,
    logb: u32,
    logt: u32,
    nq: usize,
    fkind: &'a str,
    fparam: usize,
    strategy: &'a str,
    sparam: usize,
    seed: u64,
}

fn rand_e<B: Fld, E: El<B>>(of: &OF, rng: &mut Rng) -> E {
    E::from_o(of.rand(rng))
}

fn eval_full<B: Fld, E: El<B>>(coeffs: &[E], n: usize) -> Vec<E> {
    // coefficients (at most n) evaluated over the coset of size n
    let mut p = coeffs.to_vec();
    p.resize(n, E::ZERO);
    let twiddles = fft::get_twiddles::<B>(n);
    fft::evaluate_poly_with_offset(&p, &twiddles, B::GENERATOR, 1)
}

impl<'a> Job for Adv<'a> {
    fn run<B: Fld, E: El<B>, H: ElementHasher<BaseField = B> + 'static>(&self, of: OF) -> Outcome {
        let folding = self.n;
        let t = 1usize << self.logt;
        let blowup = 1usize << self.logb;
        let n = t * blowup;
        let options = FriOptions::new(blowup, folding, self.r);
        let mut rng = Rng::new(self.seed);
        let num_layers = ref_num_layers(blowup, folding, self.r, n);

        // ---- the function
        let low: Vec<E> = (0..t).map(|_| rand_e::<B, E>(&of, &mut rng)).collect();
        let low_evals = eval_full::<B, E>(&low, n);
        let mut corrupted: Vec<usize> = vec![];
        let (evals, far): (Vec<E>, bool) = match self.fkind {
            "rand" => ((0..n).map(|_| rand_e::<B, E>(&of, &mut rng)).collect(), true),
            "deg" => {
                let d = self.fparam.min(n - 1).max(t);
                let mut c: Vec<E> = (0..d + 1).map(|_| rand_e::<B, E>(&of, &mut rng)).collect();
                if c[d] == E::ZERO {
                    c[d] = E::ONE;
                }
                (eval_full::<B, E>(&c, n), true)
            },
            "corrupt" => {
                let mut e = low_evals.clone();
                let k = self.fparam.max(1).min(n);
                while corrupted.len() < k {
                    let p = rng.below(n as u64) as usize;
                    if !corrupted.contains(&p) {
                        corrupted.push(p);
                        e[p] = e[p] + E::from_o(O(1 + rng.u128() % (of.m - 1), 0));
                    }
                }
                // far: more than half of the rate gap is corrupted (beyond unique decoding)
                (e, 2 * k * blowup > n)
            },
            _ => (low_evals.clone(), false),
        };
        let max_degree = t - 1;

        // ---- the prover strategy
        let wrong_at = if self.strategy == "wrongalpha" && num_layers > 0 { Some(self.sparam % num_layers) } else { None };
        let mut first: Option<H::Digest> = None;
        let mut layer0_bytes: Option<(Vec<u8>, Vec<u8>)> = None;
        let mut prover = FriProver::<B, E, AdvChannel<E, H>, H>::new(options.clone());
        let mut folded_fn = evals.clone();
        if self.strategy == "lowfold" && num_layers > 0 {
            // commit to the (corrupted) function at layer 0 but fold the low-degree polynomial close to it
            let mut ch0 = AdvChannel::<E, H>::new(None, None);
            prover.build_layers(&mut ch0, evals.clone());
            first = Some(ch0.commitments[0]);
            folded_fn = low_evals.clone();
            // layer 0 openings are taken from this run once the positions are known (below)
        }
        let mut prover_f = FriProver::<B, E, AdvChannel<E, H>, H>::new(options.clone());
        let mut channel = AdvChannel::<E, H>::new(first, wrong_at);
        prover_f.build_layers(&mut channel, folded_fn.clone());
        let positions = channel.draw_positions(self.nq, n);
        let proof = prover_f.build_proof(&positions);
        let commitments = channel.commitments.clone();
        let mut raw = split_proof(&proof.to_bytes()).expect("own proof splits");
        if self.strategy == "lowfold" && num_layers > 0 {
            let p0 = prover.build_proof(&positions);
            let raw0 = split_proof(&p0.to_bytes()).expect("own proof splits");
            raw.layers[0] = raw0.layers[0].clone();
        }

        // α's as the verifier will draw them
        let mut coin = DefaultRandomCoin::<H>::new(&[]);
        let mut alphas: Vec<E> = vec![];
        for c in &commitments {
            coin.reseed(*c);
            alphas.push(coin.draw().expect("alpha"));
        }

        // ---- the layers in the coefficient domain (reference) for the function the prover folded
        let mut coeffs = folded_fn.clone();
        {
            let inv_twiddles = fft::get_inv_twiddles::<B>(n);
            fft::interpolate_poly_with_offset(&mut coeffs, &inv_twiddles, B::GENERATOR);
        }
        let mut h: Vec<O> = to_os::<B, E>(&coeffs);
        let mut ps = positions.clone();
        let mut nd = n;
        for d in 0..num_layers {
            ps = ref_fold_positions(&ps, nd / folding);
            let a = if wrong_at == Some(d) { (alphas[d] + E::ONE).to_o() } else { alphas[d].to_o() };
            h = of.fold_layer_coeffs(&h, a, folding);
            nd /= folding;
        }
        let tl = nd / blowup;
        let doml = of.domain(nd);
        // honest folding is accepted exactly when the truncated remainder agrees with the last layer at the
        // folded positions, i.e. when the part of the last polynomial above the remainder vanishes there
        let upper_vanishes = ps.iter().all(|p| {
            let x = doml[*p];
            let up: Vec<O> = h.iter().cloned().skip(tl).collect();
            of.horner(&up, x) == of.zero()
        });

        // ---- post-processing of the proof by the adversary
        let mut na = false;
        let mut commitments_v = commitments.clone();
        match self.strategy {
            "adaptrem" => {
                let mut dps = ps.clone();
                dps.sort();
                dps.dedup();
                if dps.len() <= tl && tl > 0 {
                    let xs: Vec<O> = dps.iter().map(|p| doml[*p]).collect();
                    let ys: Vec<O> = xs.iter().map(|x| of.horner(&h, *x)).collect();
                    let mut nr = of.interpolate(&xs, &ys);
                    nr.resize(tl, of.zero());
                    raw.remainder = elements_to_bytes(&to_els::<B, E>(&nr));
                } else {
                    na = true;
                }
            },
            "tamper" => {
                if num_layers > 0 {
                    let d = self.sparam % num_layers;
                    let v = &mut raw.layers[d].0;
                    let (mut q, _) = (to_os::<B, E>(&read_els::<E>(v)), 0);
                    let i = (self.seed as usize) % q.len();
                    q[i] = of.add(q[i], of.one());
                    *v = elements_to_bytes(&to_els::<B, E>(&q));
                } else {
                    na = true;
                }
            },
            "tamperrem" => {
                let mut q = to_os::<B, E>(&read_els::<E>(&raw.remainder));
                let i = (self.seed as usize) % q.len();
                q[i] = of.add(q[i], of.one());
                raw.remainder = elements_to_bytes(&to_els::<B, E>(&q));
            },
            "omit" => {
                if num_layers > 0 {
                    raw.layers.remove(self.sparam % num_layers);
                } else {
                    na = true;
                }
            },
            "omitc" => {
                if num_layers > 0 {
                    raw.layers.remove(self.sparam % num_layers);
                    commitments_v.remove(self.sparam % num_layers);
                } else {
                    na = true;
                }
            },
            "swap" | "swapc" => {
                if num_layers > 1 {
                    let d = self.sparam % (num_layers - 1);
                    raw.layers.swap(d, d + 1);
                    if self.strategy == "swapc" {
                        commitments_v.swap(d, d + 1);
                    }
                } else {
                    na = true;
                }
            },
            _ => {},
        }
        if na {
            return Outcome::ok("na");
        }
        let mut qevals: Vec<E> = positions.iter().map(|p| evals[*p]).collect();
        if self.strategy == "tampereval" {
            let i = (self.seed as usize) % qevals.len();
            qevals[i] = qevals[i] + E::ONE;
        }
        let verdict = match FriProof::read_from_bytes(&join_proof(&raw)) {
            Ok(p) => {
                let mut coin = DefaultRandomCoin::<H>::new(&[]);
                verify_with::<B, E, H, _>(p, commitments_v, &mut coin, &options, max_degree, n, &positions, &qevals)
            },
            Err(_) => "err:Deserialization".into(),
        };
        let mut o = Outcome::ok(verdict.clone());
        let accepted = verdict == "ok";
        let site = |s: &str| format!("fri.adv.{}.{}", self.strategy, s);

        // ---- oracle
        match self.strategy {
            "honest" => {
                if accepted != upper_vanishes {
                    o = o.fail(
                        site("verdict"),
                        format!("honest folding: verdict {} but the coefficient-domain prediction is {}", verdict, if upper_vanishes { "accept" } else { "reject" }),
                    );
                }
                if far && accepted {
                    o = o.fail(site("accepted-far"), "a function far from the degree bound was accepted");
                }
            },
            "adaptrem" => {
                // the remainder sent is not the committed one unless the function was of low degree anyway
                let honest_rem: Vec<O> = h.iter().cloned().take(tl).collect();
                let sent = to_os::<B, E>(&read_els::<E>(&raw.remainder));
                if accepted && sent != honest_rem {
                    o = o.fail(
                        site("accepted"),
                        "accepted a remainder that was computed after the query positions were drawn and is not the committed one",
                    );
                }
            },
            "lowfold" => {
                let m = (n / folding).max(1);
                let hit = positions.iter().any(|p| corrupted.iter().any(|c| c % m == p % m));
                if accepted && hit && num_layers > 0 {
                    o = o.fail(site("accepted"), "a queried row contains a corrupted point but the folding check passed");
                }
                // a heavily corrupted function is still accepted when no queried row meets the corruption: that is
                // the soundness error of FRI (a probability over the query positions), not a failure of a check
            },
            "wrongalpha" => {
                if accepted && num_layers > 0 {
                    o = o.fail(site("accepted"), "a layer folded with a challenge other than the verifier's was accepted");
                }
            },
            _ => {
                // tamper, tamperrem, tampereval, omit, omitc, swap, swapc
                if accepted {
                    o = o.fail(site("accepted"), "a tampered proof was accepted");
                }
            },
        }
        o
    }
}

fn read_els<E: FieldElement>(bytes: &[u8]) -> Vec<E> {
    let mut r = winter_utils::SliceReader::new(bytes);
    let k = bytes.len() / E::ELEMENT_BYTES;
    use winter_utils::ByteReader;
    r.read_many(k).expect("elements")
}

fn gen_adv(rng: &mut Rng, tier: Tier, count: usize, emit: &mut dyn FnMut(String)) {
    let maxlogn: u32 = if tier == Tier::Quick { 10 } else { 12 };
    let strategies = [
        "honest", "honest", "adaptrem", "adaptrem", "adaptrem", "tamper", "tamperrem", "tampereval", "wrongalpha", "omit", "omitc",
        "swap", "swapc", "lowfold",
    ];
    let mut k = 0;
    while k < count {
        let fld = FIELDS[k % 4];
        let hs = hashers_for(fld);
        let hasher = hs[(k / 4) % hs.len().min(3)];
        let n = *rng.pick(&[2usize, 4, 8, 16]);
        let r = *rng.pick(&[0usize, 1, 3, 7, 15, 31, 63, 127, 255]);
        let logb = rng.range(1, 4) as u32;
        let logt = rng.range(2, (maxlogn - logb) as u64) as u32;
        let t = 1usize << logt;
        let size = t << logb;
        if size < 8 || remainder_len(t, 1 << logb, n, r) == 0 {
            continue;
        }
        let strategy = strategies[k % strategies.len()];
        let layers = ref_num_layers(1 << logb, n, r, size);
        let need = match strategy {
            "tamper" | "wrongalpha" | "omit" | "omitc" | "lowfold" => 1,
            "swap" | "swapc" => 2,
            _ => 0,
        };
        if layers < need {
            continue;
        }
        let tl = remainder_len(t, 1 << logb, n, r);
        // the adaptive adversary needs no more folded query points than remainder coefficients
        if strategy == "adaptrem" && tl < 2 {
            continue;
        }
        k += 1;
        let nq = match strategy {
            "adaptrem" => rng.range(1, (tl as u64).min(12)) as usize,
            _ => rng.range(1, 24.min(size as u64 - 1)) as usize,
        };
        let (fkind, fparam) = match strategy {
            "honest" | "adaptrem" => match rng.below(6) {
                0 => ("rand", 0),
                1 => ("deg", t),
                2 => ("deg", size - 1),
                3 => ("deg", rng.range(t as u64, size as u64 - 1) as usize),
                4 => ("corrupt", rng.range(1, size as u64 / 2) as usize),
                _ => ("corrupt", size / 2 + 1),
            },
            "lowfold" => ("corrupt", rng.range(1, (size as u64 / 4).max(1)) as usize),
            _ => ("low", 0),
        };
        let (fkind, fparam) = if strategy == "honest" && k % 7 == 0 { ("low", 0) } else { (fkind, fparam) };
        let sparam = rng.below(layers.max(1) as u64) as usize;
        emit(format!(
            "adv {} {} {} {} {} {} {} {} {} {} {} {}",
            fld,
            hasher,
            n,
            r,
            logb,
            logt,
            nq,
            fkind,
            fparam,
            strategy,
            sparam,
            rng.u64() >> 1
        ));
    }
}

/// end-to-end adversaries on every schedule class (default channels, Merkle trees, coin)
fn gen_sched_adv(rng: &mut Rng, tier: Tier, emit: &mut dyn FnMut(String)) {
    let classes = schedule_classes(if tier == Tier::Quick { 10 } else { 12 });
    let mut k = 0usize;
    for c in &classes {
        let t = 1usize << c.logt;
        let size = t << c.logb;
        if size < 8 {
            continue;
        }
        k += 1;
        let fld = FIELDS[k % 4];
        let hs = hashers_for(fld);
        let hasher = hs[(k / 4) % hs.len().min(3)];
        let (strategy, fkind, fparam) = match k % 8 {
            0 => ("honest", "deg", t),
            1 => ("adaptrem", "deg", t),
            2 => ("tamperrem", "low", 0),
            3 => ("tampereval", "low", 0),
            4 => ("honest", "low", 0),
            5 => ("adaptrem", "rand", 0),
            6 => ("honest", "deg", size - 1),
            _ => ("honest", "corrupt", size / 2 + 1),
        };
        if strategy == "adaptrem" && c.t < 2 {
            continue;
        }
        let nq = if strategy == "adaptrem" { rng.range(1, (c.t as u64).min(8)) } else { rng.range(1, 12.min(size as u64 - 1)) };
        emit(format!(
            "adv {} {} {} {} {} {} {} {} {} {} 0 {}",
            fld, hasher, c.n, c.r, c.logb, c.logt, nq, fkind, fparam, strategy, rng.u64() >> 1
        ));
    }
}

// ------------------------------------------------------------------------------------ prt (partition count, verify_batch errors)
fn drp_n<B: Fld, E: El<B>, const N: usize>(evals: &[E], alpha: E) -> Vec<E> {
    let t = transpose_slice::<E, N>(evals);
    apply_drp::<B, E, N>(&t, B::GENERATOR, alpha)
}

fn drp_any<B: Fld, E: El<B>>(evals: &[E], alpha: E, n: usize) -> Vec<E> {
    match n {
        2 => drp_n::<B, E, 2>(evals, alpha),
        4 => drp_n::<B, E, 4>(evals, alpha),
        8 => drp_n::<B, E, 8>(evals, alpha),
        _ => drp_n::<B, E, 16>(evals, alpha),
    }
}

/// Reference of the Merkle leaf the verifier's layout assigns to folded position `p` of a layer with `target`
/// rows when the proof claims 2^pexp partitions: partition `p mod P` holds `target / P` consecutive leaves and
/// `p` is its element number `p div P` (wide arithmetic: P is untrusted and can be 2^63).
fn ref_layout_index(p: usize, target: usize, pexp: u32) -> u128 {
    if pexp == 0 {
        return p as u128;
    }
    let parts = 1u128 << pexp;
    let per_part = target as u128 / parts;
    (p as u128 % parts) * per_part + p as u128 / parts
}

struct Prt<'a> {
    n: usize,
    r: usize,
    logb: u32,
    logt: u32,
    nq: usize,
    fkind: &'a str,
    strategy: &'a str,
    pexp: u32,
    cshift: u32,
    seed: u64,
}

fn rows_to_bytes<E: FieldElement>(rows: &[Vec<E>]) -> Vec<u8> {
    let mut b = vec![];
    for r in rows {
        for x in r {
            x.write_into(&mut b);
        }
    }
    b
}

impl<'a> Job for Prt<'a> {
    fn run<B: Fld, E: El<B>, H: ElementHasher<BaseField = B> + 'static>(&self, of: OF) -> Outcome {
        let folding = self.n;
        let t = 1usize << self.logt;
        let blowup = 1usize << self.logb;
        let n = t * blowup;
        if self.nq >= n || (n >> self.cshift) < 2 {
            return Outcome::ok("bad-op");
        }
        let options = FriOptions::new(blowup, folding, self.r);
        let mut rng = Rng::new(self.seed);
        let num_layers = ref_num_layers(blowup, folding, self.r, n);
        let max_degree = t - 1;
        let mut last_dom = n;
        for _ in 0..num_layers {
            last_dom /= folding;
        }
        let tl = last_dom / blowup;
        if tl == 0 {
            return Outcome::ok("bad-op");
        }

        // ---- the function
        let (f, far): (Vec<E>, bool) = match self.fkind {
            "rand" => ((0..n).map(|_| rand_e::<B, E>(&of, &mut rng)).collect(), true),
            "deg" => {
                // degree exactly bound + 1
                let mut c: Vec<E> = (0..t + 1).map(|_| rand_e::<B, E>(&of, &mut rng)).collect();
                c[t] = E::ONE;
                (eval_full::<B, E>(&c, n), true)
            },
            _ => {
                let c: Vec<E> = (0..t).map(|_| rand_e::<B, E>(&of, &mut rng)).collect();
                (eval_full::<B, E>(&c, n), false)
            },
        };

        // ---- commit phase: the real prover, or junk layer roots and a committed remainder of admissible size
        let junk = matches!(self.strategy, "forgej" | "manyj" | "noposj");
        let forging = matches!(self.strategy, "forge" | "forgej" | "manyj" | "noposj");
        let mut prover = FriProver::<B, E, AdvChannel<E, H>, H>::new(options.clone());
        let mut remainder: Vec<E> = vec![];
        let commitments: Vec<H::Digest> = if junk {
            let mut cs: Vec<H::Digest> = (0..num_layers)
                .map(|i| H::hash_elements(&[E::from(0xBAD0u32 + i as u32), rand_e::<B, E>(&of, &mut rng)]))
                .collect();
            remainder = (0..tl).map(|_| rand_e::<B, E>(&of, &mut rng)).collect();
            cs.push(H::hash_elements(&remainder));
            cs
        } else {
            let mut ch = AdvChannel::<E, H>::new(None, None);
            prover.build_layers(&mut ch, f.clone());
            ch.commitments.clone()
        };

        // ---- the verifier's challenges and query positions (Fiat-Shamir)
        let mut coin = DefaultRandomCoin::<H>::new(&[]);
        let mut alphas: Vec<E> = vec![];
        for c in &commitments {
            coin.reseed(*c);
            alphas.push(coin.draw().expect("alpha"));
        }
        let positions: Vec<usize> = if self.nq == 0 { vec![] } else { coin.draw_integers(self.nq, n, 0).expect("positions") };

        // ---- the layers of the function under these challenges, the folded positions, the rows to open
        let mut evs: Vec<Vec<E>> = vec![f.clone()];
        for d in 0..num_layers {
            let next = drp_any::<B, E>(&evs[d], alphas[d], folding);
            evs.push(next);
        }
        let mut fps: Vec<Vec<usize>> = vec![];
        {
            let mut prev = positions.clone();
            let mut dom = n;
            for _ in 0..num_layers {
                let m = dom / folding;
                let fp = ref_fold_positions(&prev, m);
                fps.push(fp.clone());
                prev = fp;
                dom = m;
            }
        }
        let row_at = |d: usize, j: usize| -> Vec<E> {
            let m = evs[d].len() / folding;
            (0..folding).map(|k| evs[d][j + k * m]).collect()
        };
        let mut rows: Vec<Vec<Vec<E>>> = (0..num_layers).map(|d| fps[d].iter().map(|&j| row_at(d, j)).collect()).collect();
        let committed_rows = rows.clone();
        let mut o_self: Option<String> = None;

        let mut raw: RawProof = if junk {
            RawProof {
                layers: rows.iter().map(|r| (rows_to_bytes(r), vec![0u8])).collect(),
                remainder: elements_to_bytes(&remainder),
                parts: 0,
            }
        } else {
            let proof = prover.build_proof(&positions);
            let raw = split_proof(&proof.to_bytes()).expect("own proof splits");
            remainder = read_els::<E>(&raw.remainder);
            for d in 0..num_layers {
                if raw.layers[d].0 != rows_to_bytes(&rows[d]) {
                    o_self = Some(format!("layer {}: the prover's opened rows differ from the harness's folding of the function", d));
                }
            }
            raw
        };

        // ---- value forging
        let mut na = false;
        if forging && num_layers > 0 {
            // one entry per last-layer row that the previous layer cannot cross-check is solved so that the row folds
            // onto the committed remainder
            let last = num_layers - 1;
            let pp = if last == 0 { positions.clone() } else { fps[last - 1].clone() };
            let dsize = evs[last].len();
            let m = dsize / folding;
            let g1 = B::get_root_of_unity(dsize.ilog2());
            let g2 = if m > 1 { B::get_root_of_unity(m.ilog2()) } else { B::ONE };
            let w = B::get_root_of_unity(folding.ilog2());
            let offset = B::GENERATOR;
            for (ri, &k) in fps[last].iter().enumerate() {
                let Some(free) = (0..folding).find(|&i| !pp.contains(&(k + i * m))) else {
                    // every entry of the row is cross-checked; with hundreds of queries (more than 255 folded
                    // positions) such rows are left as they are, otherwise the strategy does not apply
                    if self.nq > 255 {
                        continue;
                    }
                    na = true;
                    break;
                };
                let xs: Vec<E> =
                    (0..folding).map(|i| E::from(g1.exp((k as u64).into()) * offset * w.exp((i as u64).into()))).collect();
                let target = polynom::eval(&remainder, E::from(offset * g2.exp((k as u64).into())));
                let mut row = rows[last][ri].clone();
                row[free] = E::ZERO;
                let mut unit = vec![E::ZERO; folding];
                unit[free] = E::ONE;
                let p0 = polynom::eval(&polynom::interpolate(&xs, &row, false), alphas[last]);
                let p1 = polynom::eval(&polynom::interpolate(&xs, &unit, false), alphas[last]);
                if p1 == E::ZERO {
                    na = true;
                    break;
                }
                row[free] = (target - p0) / p1;
                rows[last][ri] = row;
            }
            raw.layers[last].0 = rows_to_bytes(&rows[last]);
        }
        if self.strategy == "subst" && num_layers > 0 {
            // the opening of one layer is replaced by a valid opening of the same tree at other positions
            let mut prover2 = FriProver::<B, E, AdvChannel<E, H>, H>::new(options.clone());
            let mut ch2 = AdvChannel::<E, H>::new(None, None);
            prover2.build_layers(&mut ch2, f.clone());
            let shifted: Vec<usize> = positions.iter().map(|p| (p + 1) % n).collect();
            let raw2 = split_proof(&prover2.build_proof(&shifted).to_bytes()).expect("own proof splits");
            let d = (self.seed as usize) % num_layers;
            raw.layers[d] = raw2.layers[d].clone();
            let mut shifted_fp = shifted.clone();
            let mut dom = n;
            for _ in 0..=d {
                dom /= folding;
                shifted_fp = ref_fold_positions(&shifted_fp, dom);
            }
            rows[d] = shifted_fp.iter().map(|&j| row_at(d, j)).collect();
        }
        if self.strategy == "manyj" {
            for d in 0..num_layers {
                rows[d].truncate(255);
                raw.layers[d].0 = rows_to_bytes(&rows[d]);
            }
        }
        if self.strategy == "noposj" {
            // no position is queried; a layer must still carry one row to parse
            for d in 0..num_layers {
                rows[d] = vec![row_at(d, 0)];
                raw.layers[d].0 = rows_to_bytes(&rows[d]);
            }
        }
        if na {
            return Outcome::ok("na");
        }
        // are the values sent the committed values at the folded positions?
        let sent_committed = !junk && rows == committed_rows;

        // ---- the verifier: default channel (its provided read_layer_queries), real Merkle verification
        raw.parts = self.pexp as u8;
        let qevals: Vec<E> = positions.iter().map(|p| f[*p]).collect();
        let verdict = match FriProof::read_from_bytes(&join_proof(&raw)) {
            Ok(p) => match winter_fri::DefaultVerifierChannel::<E, H>::new(p, commitments.clone(), n >> self.cshift, folding) {
                Ok(mut ch) => {
                    let mut coin = DefaultRandomCoin::<H>::new(&[]);
                    match FriVerifier::new(&mut ch, &mut coin, options.clone(), max_degree) {
                        Ok(v) => verdict_str(&v.verify(&mut ch, &qevals, &positions)),
                        Err(e) => verr_str(&e),
                    }
                },
                Err(_) => "err:Deserialization".into(),
            },
            Err(_) => "err:Deserialization".into(),
        };
        let accepted = verdict == "ok";
        let mut o = Outcome::ok(verdict.clone());
        let site = |s: &str| format!("fri.prt.{}.{}", self.strategy, s);
        if let Some(d) = o_self {
            o = o.fail(site("selfcheck"), d);
        }

        // ---- oracle
        // does the claimed layout send every folded position to the leaf it was committed at?
        let mut layout_id = true;
        {
            let mut dom = n;
            for d in 0..num_layers {
                let target = dom / folding;
                if fps[d].iter().any(|&p| ref_layout_index(p, target, self.pexp) != p as u128) {
                    layout_id = false;
                }
                dom = target;
            }
        }
        if far && accepted && (num_layers > 0 || !positions.is_empty()) {
            o = o.fail(
                site("accepted-far"),
                format!("a function far from the degree bound was accepted (num_partitions = 2^{})", self.pexp),
            );
        }
        if !sent_committed && accepted && num_layers > 0 {
            o = o.fail(
                site("accepted-uncommitted"),
                format!(
                    "accepted although layer values sent are not the values committed to at the queried positions (num_partitions = 2^{}, channel domain {})",
                    self.pexp,
                    n >> self.cshift
                ),
            );
        }
        if sent_committed && !far && self.cshift == 0 && accepted != layout_id {
            o = o.fail(
                site("layout-verdict"),
                format!(
                    "honest data, num_partitions = 2^{}: verdict {} but the claimed layout {} every queried position to the leaf it was committed at",
                    self.pexp,
                    verdict,
                    if layout_id { "maps" } else { "does not map" }
                ),
            );
        }
        o
    }
}

/// every base configuration × every partition count class × honest / forged / substituted values, plus the other
/// error kinds of verify_batch (out-of-range index and wrong depth through the channel's domain, more than 255
/// indexes, no index)
fn gen_prt(rng: &mut Rng, tier: Tier, emit: &mut dyn FnMut(String)) {
    let bases = if tier == Tier::Quick { 16 } else { 96 };
    let maxlogn: u32 = if tier == Tier::Quick { 9 } else { 11 };
    let mut k = 0usize;
    while k < bases {
        let fld = FIELDS[k % 4];
        let hs = hashers_for(fld);
        let hasher = hs[(k / 4) % hs.len()];
        let n = [2usize, 4, 8, 16][(k / 4) % 4];
        let r = *rng.pick(&[0usize, 1, 3, 7]);
        let logb = rng.range(1, 3) as u32;
        let logt = rng.range(2, (maxlogn - logb) as u64) as u32;
        let t = 1usize << logt;
        let size = t << logb;
        let layers = ref_num_layers(1 << logb, n, r, size);
        if size < 16 || layers == 0 || remainder_len(t, 1 << logb, n, r) == 0 {
            continue;
        }
        k += 1;
        // at least two distinct folded positions in a layer need a few queries
        let nq = rng.range(3, 12.min(size as u64 - 1)) as usize;
        let seed = rng.u64() >> 1;
        let mut pexps: Vec<u32> = vec![0, 1, 2, 16, 40, 63];
        let mut dom = size;
        for _ in 0..layers {
            dom /= n;
            let l = dom.trailing_zeros();
            pexps.extend_from_slice(&[l.saturating_sub(1), l, l + 1]);
        }
        pexps.sort();
        pexps.dedup();
        for &pexp in &pexps {
            for (strategy, fkind) in [
                ("honest", "low"),
                ("honest", "rand"),
                ("honest", "deg"),
                ("forge", "rand"),
                ("forge", "deg"),
                ("forge", "low"),
                ("forgej", "rand"),
                ("forgej", "low"),
                ("subst", "low"),
            ] {
                emit(format!(
                    "prt {} {} {} {} {} {} {} {} {} {} 0 {}",
                    fld, hasher, n, r, logb, logt, nq, fkind, strategy, pexp, seed
                ));
            }
        }
        // wrong Merkle depth / out-of-range indexes: the channel is built for a smaller domain
        for cshift in [1u32, 2] {
            for &pexp in &[0u32, 1, 40] {
                for (strategy, fkind) in [("forge", "rand"), ("forgej", "rand"), ("forge", "low"), ("subst", "low")] {
                    emit(format!(
                        "prt {} {} {} {} {} {} {} {} {} {} {} {}",
                        fld, hasher, n, r, logb, logt, nq, fkind, strategy, pexp, cshift, seed
                    ));
                }
            }
        }
        // no position at all
        for &pexp in &[0u32, 40] {
            emit(format!("prt {} {} {} {} {} {} 0 rand noposj {} 0 {}", fld, hasher, n, r, logb, logt, pexp, seed));
        }
    }
    // more than 255 folded positions in a layer (the honest prover cannot open that many): all rows, and 255 rows
    for (i, fld) in FIELDS.iter().enumerate() {
        for (n, logb, logt, nq) in [(2usize, 1u32, 9u32, 700usize), (4, 2, 9, 900), (2, 3, 7, 600)] {
            for &pexp in &[0u32, 40] {
                for strategy in ["forgej", "manyj"] {
                    emit(format!(
                        "prt {} b3 {} 7 {} {} {} rand {} {} 0 {}",
                        fld,
                        n,
                        logb,
                        logt,
                        nq,
                        strategy,
                        pexp,
                        rng.u64() >> 1
                    ));
                }
            }
        }
    }
}

impl Prop for P {
    fn id(&self) -> &'static str {
        "C05"
    }
    fn gen(&self, rng: &mut Rng, tier: Tier, n: usize, emit: &mut dyn FnMut(String)) {
        let n = default_n(tier, 1400, 14_000, n);
        let mut groups: Vec<Vec<String>> = vec![vec![], vec![], vec![], vec![], vec![], vec![]];
        gen_combo_vfy(&mut rng.fork(), tier, &mut |l| groups[4].push(l));
        gen_sched_adv(&mut rng.fork(), tier, &mut |l| groups[3].push(l));
        gen_sched_vfy(&mut rng.fork(), tier, &mut |l| groups[2].push(l));
        gen_vfy(rng, tier, n, &mut |l| groups[0].push(l));
        gen_adv(rng, tier, n, &mut |l| groups[1].push(l));
        gen_prt(&mut rng.fork(), tier, &mut |l| groups[5].push(l));
        emit_interleaved(groups, emit);
    }
    fn exec(&self, line: &str) -> Outcome {
        let t: Vec<&str> = line.split(' ').collect();
        let pu = |s: &str| s.parse::<usize>().ok();
        match t.as_slice() {
            ["vfy", _tag, fld, hasher, rest @ ..] if rest.len() == 12 => dispatch(fld, hasher, &Vfy { t: rest }),
            ["adv", fld, hasher, n, r, logb, logt, nq, fkind, fparam, strategy, sparam, seed] => {
                match (pu(n), pu(r), pu(logb), pu(logt), pu(nq), pu(fparam), pu(sparam), seed.parse::<u64>().ok()) {
                    (Some(n), Some(r), Some(logb), Some(logt), Some(nq), Some(fparam), Some(sparam), Some(seed)) => dispatch(
                        fld,
                        hasher,
                        &Adv { n, r, logb: logb as u32, logt: logt as u32, nq, fkind, fparam, strategy, sparam, seed },
                    ),
                    _ => Outcome::ok("bad-op"),
                }
            },
            ["prt", fld, hasher, n, r, logb, logt, nq, fkind, strategy, pexp, cshift, seed] => {
                match (pu(n), pu(r), pu(logb), pu(logt), pu(nq), pu(pexp), pu(cshift), seed.parse::<u64>().ok()) {
                    (Some(n), Some(r), Some(logb), Some(logt), Some(nq), Some(pexp), Some(cshift), Some(seed))
                        if pexp < 256 && cshift < 8 && logb + logt <= 16 && [2, 4, 8, 16].contains(&n) =>
                    {
                        dispatch(
                            fld,
                            hasher,
                            &Prt {
                                n,
                                r,
                                logb: logb as u32,
                                logt: logt as u32,
                                nq,
                                fkind,
                                strategy,
                                pexp: pexp as u32,
                                cshift: cshift as u32,
                                seed,
                            },
                        )
                    },
                    _ => Outcome::ok("bad-op"),
                }
            },
            _ => Outcome::ok("bad-op"),
        }
    }
    fn timeout_ms(&self) -> u64 {
        60_000
    }
    fn class(&self, line: &str, out: &str) -> String {
        let t: Vec<&str> = line.split(' ').collect();
        let o = out.split(':').take(2).collect::<Vec<_>>().join(":");
        match t[0] {
            "vfy" => format!("vfy.{}:{}", t[1], o),
            "adv" => format!("adv.{}.{}:{}", t[10], t[8], o),
            "prt" if t.len() > 9 => format!("prt.{}.{}:{}", t[9], t[8], o),
            x => format!("{}:{}", x, o),
        }
    }
    fn panic_site(&self, line: &str) -> Option<String> {
        // a panic is not an acceptance; panics on untrusted proof data are the subject of C06.  Panics of the
        // harness's own adversary code must not go unnoticed, though: they are reported for the adv lines whose
        // proofs are structurally intact.
        let t: Vec<&str> = line.split(' ').collect();
        match t[0] {
            "adv" => match t[10] {
                "omit" | "omitc" | "swap" | "swapc" => None,
                s => Some(format!("fri.adv.{}.panic", s)),
            },
            _ => None,
        }
    }
    fn rule(&self) -> &'static str {
        "FriVerifier::new/verify on channel data built from honest provers' data for low-degree, over-degree (bound+1 .. domain-1) \
         and random functions and then altered by 24 strategies (remainder recomputed after the queries with/without its \
         commitment, tampered row value / claimed evaluation / remainder, failed Merkle flag, wrong challenge, omitted / swapped / \
         extra layers, one commitment fewer or more, other degree bounds, over-long remainder, fewer/more rows, length mismatch, \
         out-of-range position, partitions) over folding 2/4/8/16 × remainder degree 0..31 × blowup 2..8 × 4 fields; plus \
         end-to-end adversaries with the default channels, Merkle trees and coin over 4 fields × hashers × folding × remainder degree \
         0..255 × blowup 2..16; plus, with the default channel's own read_layer_queries, every base configuration × num_partitions \
         2^0, 2^1, 2^2, half / equal / twice every folded domain size, 2^16, 2^40, 2^63 × (honest data of low-degree, random and \
         bound+1 functions; last-layer values forged to fold onto the committed remainder under real and under junk layer \
         commitments; substituted openings), channels built for a smaller domain (wrong Merkle depth, out-of-range indexes), more \
         than 255 folded positions and no positions; a case is non-trivial when its op line is distinct"
    }
}

fn main() {
    wf_harness::core::main_for(&P);
}
