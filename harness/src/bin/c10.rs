//! C10: Merkle openings verify for committed leaves and only for them.
//! Op lines mirror lean/Winter/Drv/C10.lean (the model handles the `toy` hasher; lines for the six
//! real hashers are judged by the oracle only).
//!
//!   new    <h> <n> <seed>
//!   single <h> <depth> <seed> <idx> <mutation…>
//!   batch  <h> <depth> <seed> <idxs|-> <mutation…>
//!   paths  <h> <depth> <seed> <idxs|-> <mutation…>
//!   ser    <h> <depth> <seed> <idxs|-> <none|cut k|extra>
//!   raw    <h> <n> <seed> <ok|short|long>     MerkleTree::from_raw_parts(build_merkle_nodes(leaves) [one node less / more], leaves)
//!
//! leaves are derived from the seed (`HX::leaf`), the opening is produced by the real prover, the
//! mutation is applied to the opening (claimed leaves / nodes / positions / depth / shape), and the
//! real verifier judges it.  Oracle (independent of the Lean model): roots and paths equal a naive
//! recursive recomputation from the leaves; the unmodified opening is accepted, decompresses into
//! the naive paths and re-compresses to itself; every effective mutation is rejected with an
//! error — never accepted, never a panic.
#![allow(dead_code, unused_variables, unused_imports, unused_mut)]
use std::any::Any;
use std::cell::RefCell;
use std::collections::{BTreeSet, HashMap};
use std::rc::Rc;

use wf_harness::core::*;
use winter_crypto::{
    hashers::{Blake3_192, Blake3_256, Rp62_248, Rp64_256, RpJive64_256, Sha3_256},
    BatchMerkleProof, Digest, Hasher, MerkleTree, MerkleTreeError,
};
use winter_math::fields::{f128, f64};
use winter_utils::{
    ByteReader, ByteWriter, Deserializable, DeserializationError, Serializable, SliceReader,
};

pub struct P;

// ------------------------------------------------------------------------------------ toy hasher
/// 64-bit mixing function, re-implemented identically in lean/Winter/Drv/C10.lean
pub fn mix(a: u64, b: u64) -> u64 {
    let mut x = a
        .wrapping_mul(0x9E3779B97F4A7C15)
        .wrapping_add(b.rotate_left(31).wrapping_mul(0xBF58476D1CE4E5B9))
        .wrapping_add(0x94D049BB133111EB);
    x ^= x >> 29;
    x = x.wrapping_mul(0xD6E8FEB86659FD93);
    x ^= x >> 32;
    x
}

#[derive(Debug, Default, Copy, Clone, Eq, PartialEq)]
pub struct TD(pub u64);

impl Digest for TD {
    fn as_bytes(&self) -> [u8; 32] {
        let mut r = [0u8; 32];
        r[..8].copy_from_slice(&self.0.to_le_bytes());
        r
    }
}
impl Serializable for TD {
    fn write_into<W: ByteWriter>(&self, target: &mut W) {
        target.write_bytes(&self.0.to_le_bytes());
    }
}
impl Deserializable for TD {
    fn read_from<R: ByteReader>(source: &mut R) -> Result<Self, DeserializationError> {
        Ok(TD(source.read_u64()?))
    }
}

pub struct Toy;
impl Hasher for Toy {
    type Digest = TD;
    const COLLISION_RESISTANCE: u32 = 32;
    fn hash(bytes: &[u8]) -> TD {
        let mut h = 0x1234u64;
        for b in bytes {
            h = mix(h, *b as u64);
        }
        TD(h)
    }
    fn merge(values: &[TD; 2]) -> TD {
        TD(mix(values[0].0, values[1].0))
    }
    fn merge_with_int(seed: TD, value: u64) -> TD {
        TD(mix(seed.0, value))
    }
}

// ------------------------------------------------------------------------------------ hashers
pub trait HX: Hasher + 'static {
    const NAME: &'static str;
    fn leaf(seed: u64, i: u64) -> Self::Digest;
    /// a digest different from `d`
    fn tweak(d: &Self::Digest) -> Self::Digest;
    /// a digest unrelated to any tree
    fn extra() -> Self::Digest;
    fn num(d: &Self::Digest) -> u64 {
        let b = d.as_bytes();
        u64::from_le_bytes(b[..8].try_into().unwrap())
    }
    fn width() -> usize;
}

impl HX for Toy {
    const NAME: &'static str = "toy";
    fn leaf(seed: u64, i: u64) -> TD {
        TD(mix(seed.wrapping_add(1), i))
    }
    fn tweak(d: &TD) -> TD {
        TD(d.0.wrapping_add(1))
    }
    fn extra() -> TD {
        TD(0x5a5a5a5a5a5a5a5a)
    }
    fn width() -> usize {
        8
    }
}

macro_rules! real_hasher {
    ($t:ty, $name:expr, $w:expr) => {
        impl HX for $t {
            const NAME: &'static str = $name;
            fn leaf(seed: u64, i: u64) -> Self::Digest {
                let mut b = seed.to_le_bytes().to_vec();
                b.extend_from_slice(&i.to_le_bytes());
                <$t as Hasher>::hash(&b)
            }
            fn tweak(d: &Self::Digest) -> Self::Digest {
                <$t as Hasher>::merge_with_int(*d, 1)
            }
            fn extra() -> Self::Digest {
                <$t as Hasher>::hash(b"extra")
            }
            fn width() -> usize {
                $w
            }
        }
    };
}
real_hasher!(Blake3_256<f128::BaseElement>, "blake3_256", 32);
real_hasher!(Blake3_192<f128::BaseElement>, "blake3_192", 24);
real_hasher!(Sha3_256<f128::BaseElement>, "sha3_256", 32);
real_hasher!(Rp64_256, "rp64_256", 32);
real_hasher!(RpJive64_256, "rpjive64_256", 32);
real_hasher!(Rp62_248, "rp62_248", 31);

const HASHERS: [&str; 7] = ["toy", "blake3_256", "blake3_192", "sha3_256", "rp64_256", "rpjive64_256", "rp62_248"];

// ------------------------------------------------------------------------------------ helpers
fn kind(e: &MerkleTreeError) -> &'static str {
    match e {
        MerkleTreeError::TooFewLeaves(..) => "few-leaves",
        MerkleTreeError::NumberOfLeavesNotPowerOfTwo(..) => "not-pow2",
        MerkleTreeError::LeafIndexOutOfBounds(..) => "oob",
        MerkleTreeError::DuplicateLeafIndex => "dup",
        MerkleTreeError::TooFewLeafIndexes => "no-idx",
        MerkleTreeError::TooManyLeafIndexes(..) => "many-idx",
        MerkleTreeError::InvalidProof => "invalid",
    }
}

fn cks<H: HX>(h: u64, d: &H::Digest) -> u64 {
    h.wrapping_mul(1099511628211).wrapping_add(H::num(d))
}
const CKS0: u64 = 14695981039346656037;

fn parse_idxs(s: &str) -> Option<Vec<usize>> {
    if s == "-" {
        return Some(vec![]);
    }
    s.split(',').map(|t| t.parse::<usize>().ok()).collect()
}

fn fmt_idxs(v: &[usize]) -> String {
    if v.is_empty() {
        "-".into()
    } else {
        v.iter().map(|x| x.to_string()).collect::<Vec<_>>().join(",")
    }
}

/// seed token of an op line: `<seed>` (distinct leaves) or `<seed>:<pattern>`
#[derive(Clone, PartialEq, Eq, Hash, Debug)]
pub struct Sd {
    seed: u64,
    pat: String,
}

impl Sd {
    fn plain(seed: u64) -> Sd {
        Sd { seed, pat: String::new() }
    }
    fn parse(s: &str) -> Option<Sd> {
        let mut it = s.splitn(2, ':');
        let seed = it.next()?.parse::<u64>().ok()?;
        let pat = it.next().unwrap_or("").to_string();
        Some(Sd { seed, pat })
    }
    fn patterned(&self) -> bool {
        !self.pat.is_empty() && self.pat != "d"
    }
}

/// leaf pattern: the label of position `i` (equal labels = equal leaf digests); None = bad pattern
fn label(pat: &str, i: usize, n: usize) -> Option<u64> {
    let t: Vec<&str> = pat.split('.').collect();
    let p = |s: &str| s.parse::<usize>().ok();
    Some(match t.as_slice() {
        [""] | ["d"] | ["node"] => i as u64,
        ["eq"] => 0,
        ["alt"] => (i % 2) as u64,
        ["alt2"] => ((i / 2) % 2) as u64,
        ["half"] => (i % (n / 2).max(1)) as u64,
        ["one", k] => {
            let k = p(k)?;
            if k >= n {
                return None;
            }
            (i == k) as u64
        },
        ["run", s0, l] => {
            let (s0, l) = (p(s0)?, p(l)?);
            if l < 2 || s0 + l > n {
                return None;
            }
            if i >= s0 && i < s0 + l {
                s0 as u64
            } else {
                i as u64
            }
        },
        _ => return None,
    })
}

/// the leaves of an op line; pattern `node` makes some leaves equal to internal node digests
fn leaves_of<H: HX>(n: usize, sd: &Sd) -> Option<Vec<H::Digest>> {
    let mut v: Vec<H::Digest> = Vec::with_capacity(n);
    for i in 0..n {
        v.push(H::leaf(sd.seed, label(&sd.pat, i, n)?));
    }
    if sd.pat == "node" {
        if n >= 4 {
            v[2] = H::merge(&[v[0], v[1]]);
            v[3] = v[2];
        }
        if n >= 8 {
            v[5] = H::merge(&[v[2], v[3]]);
        }
        if n == 2 {
            v[1] = H::merge(&[v[0], v[0]]);
        }
    }
    Some(v)
}

/// the leaf patterns generated for trees of `n` leaves (all runs for small trees, a selection otherwise)
fn patterns(n: usize) -> Vec<String> {
    let mut v: Vec<String> = vec!["eq".into(), "alt".into(), "alt2".into(), "half".into(), "node".into()];
    if n <= 16 {
        for k in 0..n {
            v.push(format!("one.{}", k));
        }
        for s0 in 0..n {
            for l in 2..=(n - s0) {
                v.push(format!("run.{}.{}", s0, l));
            }
        }
    } else {
        for k in [0, 1, n / 2 - 1, n / 2, n - 2, n - 1] {
            v.push(format!("one.{}", k));
        }
        for s0 in [0usize, 1, 2, 3, 5, n / 4 - 1, n / 4, n / 2 - 1, n / 2, n / 2 + 1, n - 7, n - 4, n - 3] {
            for l in [2usize, 3, 4, 5, 8, n / 2, n - s0] {
                if l >= 2 && s0 + l <= n {
                    v.push(format!("run.{}.{}", s0, l));
                }
            }
        }
    }
    v.sort();
    v.dedup();
    v
}

/// naive recursive root of a power-of-two slice of leaves
fn naive_root<H: HX>(leaves: &[H::Digest]) -> H::Digest {
    if leaves.len() == 1 {
        return leaves[0];
    }
    let h = leaves.len() / 2;
    H::merge(&[naive_root::<H>(&leaves[..h]), naive_root::<H>(&leaves[h..])])
}

/// naive table of all levels (level 0 = leaves), computed by plain pairwise hashing
fn naive_levels<H: HX>(leaves: &[H::Digest]) -> Vec<Vec<H::Digest>> {
    let mut levels = vec![leaves.to_vec()];
    while levels.last().unwrap().len() > 1 {
        let prev = levels.last().unwrap();
        let next: Vec<H::Digest> = prev.chunks(2).map(|c| H::merge(&[c[0], c[1]])).collect();
        levels.push(next);
    }
    levels
}

/// naive path: the leaf, then the roots of the sibling subtrees bottom-up
fn naive_path<H: HX>(levels: &[Vec<H::Digest>], i: usize) -> Vec<H::Digest> {
    let mut p = vec![levels[0][i]];
    for l in 0..levels.len() - 1 {
        p.push(levels[l][(i >> l) ^ 1]);
    }
    p
}

thread_local! {
    static TREES: RefCell<HashMap<(&'static str, u32, Sd), Rc<dyn Any>>> = RefCell::new(HashMap::new());
}

struct Built<H: HX> {
    leaves: Vec<H::Digest>,
    tree: MerkleTree<H>,
    naive_root: H::Digest,
    levels: Vec<Vec<H::Digest>>,
    patterned: bool,
}

fn built<H: HX>(depth: u32, sd: &Sd) -> Option<Rc<Built<H>>> {
    let hit = TREES.with(|t| t.borrow().get(&(H::NAME, depth, sd.clone())).cloned());
    if let Some(rc) = hit {
        if let Ok(b) = rc.downcast::<Built<H>>() {
            return Some(b);
        }
    }
    let leaves = leaves_of::<H>(1usize << depth, sd)?;
    let tree = MerkleTree::<H>::new(leaves.clone()).expect("tree");
    let levels = naive_levels::<H>(&leaves);
    // the recursive definition for small trees, the level table (cross-checked on small trees) otherwise
    let naive_root = if depth <= 6 { naive_root::<H>(&leaves) } else { levels.last().unwrap()[0] };
    let b = Rc::new(Built { leaves, tree, naive_root, levels, patterned: sd.patterned() });
    TREES.with(|t| {
        let mut t = t.borrow_mut();
        if t.len() > 64 {
            t.clear();
        }
        t.insert((H::NAME, depth, sd.clone()), b.clone() as Rc<dyn Any>)
    });
    Some(b)
}

/// with repeated leaf values a changed position or shape can be another valid opening: only changed
/// digests are judged there
fn judged(patterned: bool, mk: &str) -> bool {
    !patterned || mk == "none" || mk == "leaf" || mk == "node"
}

fn res_str<H: HX>(r: &Result<Result<H::Digest, MerkleTreeError>, String>) -> String {
    match r {
        Ok(Ok(d)) => H::num(d).to_string(),
        Ok(Err(e)) => format!("err:{}", kind(e)),
        Err(_) => "panic".into(),
    }
}

fn unit_str(r: &Result<Result<(), MerkleTreeError>, String>) -> String {
    match r {
        Ok(Ok(())) => "ok".into(),
        Ok(Err(e)) => format!("err:{}", kind(e)),
        Err(_) => "panic".into(),
    }
}

// ------------------------------------------------------------------------------------ openings
struct Opening<H: HX> {
    idxs: Vec<usize>,
    leaves: Vec<H::Digest>,
    nodes: Vec<Vec<H::Digest>>,
    depth: u8,
}

impl<H: HX> Opening<H> {
    fn proof(&self) -> BatchMerkleProof<H> {
        BatchMerkleProof { leaves: self.leaves.clone(), nodes: self.nodes.clone(), depth: self.depth }
    }
    fn checksum(leaves: &[H::Digest], nodes: &[Vec<H::Digest>]) -> u64 {
        let mut h = CKS0;
        for d in leaves {
            h = cks::<H>(h, d);
        }
        for r in nodes {
            for d in r {
                h = cks::<H>(h, d);
            }
        }
        h
    }
}

/// applies a mutation; false = not applicable / no-op (the op line is answered with `bad-op`)
fn apply<H: HX>(o: &mut Opening<H>, m: &[&str]) -> bool {
    let p = |s: &str| s.parse::<usize>().ok();
    match m {
        ["none"] => true,
        ["leaf", k] => match p(k) {
            Some(k) if k < o.leaves.len() => {
                o.leaves[k] = H::tweak(&o.leaves[k]);
                true
            },
            _ => false,
        },
        ["node", r, c] => match (p(r), p(c)) {
            (Some(r), Some(c)) if r < o.nodes.len() && c < o.nodes[r].len() => {
                o.nodes[r][c] = H::tweak(&o.nodes[r][c]);
                true
            },
            _ => false,
        },
        ["idx", k, v] => match (p(k), p(v)) {
            (Some(k), Some(v)) if k < o.idxs.len() && o.idxs[k] != v => {
                o.idxs[k] = v;
                true
            },
            _ => false,
        },
        ["depth", d] => match p(d) {
            Some(d) if d < 256 && d as u8 != o.depth => {
                o.depth = d as u8;
                true
            },
            _ => false,
        },
        ["dropnode", r] => match p(r) {
            Some(r) if r < o.nodes.len() && !o.nodes[r].is_empty() => {
                o.nodes[r].pop();
                true
            },
            _ => false,
        },
        ["addnode", r] => match p(r) {
            Some(r) if r < o.nodes.len() => {
                o.nodes[r].push(H::extra());
                true
            },
            _ => false,
        },
        ["addnode", r, c] => match (p(r), p(c)) {
            (Some(r), Some(c)) if r < o.nodes.len() && c >= 1 && c <= 70000 => {
                let x = H::extra();
                for _ in 0..c {
                    o.nodes[r].push(x);
                }
                true
            },
            _ => false,
        },
        ["dropnode", r, c] => match (p(r), p(c)) {
            (Some(r), Some(c)) if r < o.nodes.len() && c >= 1 && c <= o.nodes[r].len() => {
                let l = o.nodes[r].len();
                o.nodes[r].truncate(l - c);
                true
            },
            _ => false,
        },
        ["addleaf", c] => match p(c) {
            Some(c) if c >= 1 && c <= 70000 => {
                let x = H::extra();
                for _ in 0..c {
                    o.leaves.push(x);
                }
                true
            },
            _ => false,
        },
        ["addidxn", c] => match p(c) {
            Some(c) if c >= 1 && c <= 70000 => {
                // surplus positions: unused in-range positions first, then out-of-range ones
                let n = 1usize << (o.depth as usize).min(20);
                let set: BTreeSet<usize> = o.idxs.iter().cloned().collect();
                let mut cand = 0usize;
                for _ in 0..c {
                    while cand < n && set.contains(&cand) {
                        cand += 1;
                    }
                    o.idxs.push(cand);
                    cand += 1;
                }
                true
            },
            _ => false,
        },
        ["dropidxn", c] => match p(c) {
            Some(c) if c >= 1 && c <= o.idxs.len() => {
                let l = o.idxs.len();
                o.idxs.truncate(l - c);
                true
            },
            _ => false,
        },
        ["droprow", r] => match p(r) {
            Some(r) if r < o.nodes.len() => {
                o.nodes.remove(r);
                true
            },
            _ => false,
        },
        ["addrow", e] => match p(e) {
            Some(0) => {
                o.nodes.push(vec![]);
                true
            },
            Some(1) => {
                o.nodes.push(vec![H::extra()]);
                true
            },
            _ => false,
        },
        ["dropleaf", k] => match p(k) {
            Some(k) if k < o.leaves.len() => {
                o.leaves.remove(k);
                true
            },
            _ => false,
        },
        ["addleaf"] => {
            o.leaves.push(H::extra());
            true
        },
        ["dropidx", k] => match p(k) {
            Some(k) if k < o.idxs.len() => {
                o.idxs.remove(k);
                true
            },
            _ => false,
        },
        ["addidx", v] => match p(v) {
            Some(v) => {
                o.idxs.push(v);
                true
            },
            _ => false,
        },
        ["swapidx", a, b] => match (p(a), p(b)) {
            (Some(a), Some(b)) if a < o.idxs.len() && b < o.idxs.len() && o.idxs[a] != o.idxs[b] => {
                o.idxs.swap(a, b);
                true
            },
            _ => false,
        },
        ["swapleaf", a, b] => match (p(a), p(b)) {
            (Some(a), Some(b)) if a < o.leaves.len() && b < o.leaves.len() && o.leaves[a] != o.leaves[b] => {
                o.leaves.swap(a, b);
                true
            },
            _ => false,
        },
        _ => false,
    }
}

/// every mutation of a batch opening with the given shape (gen side)
/// values around the widths of counters, length prefixes and casts
const WIDTHS: [usize; 12] =
    [255, 256, 257, 65535, 65536, 65537, (1 << 32) - 1, 1 << 32, (1 << 32) + 1, (1 << 63) - 1, 1 << 63, (1 << 63) + 1];
const COUNTS: [usize; 10] = [2, 254, 255, 256, 257, 511, 512, 513, 65535, 65536];

fn all_muts(idxs: &[usize], lens: &[usize], depth: usize, n: usize) -> Vec<String> {
    let mut v: Vec<String> = vec![];
    let k = idxs.len();
    for i in 0..k {
        v.push(format!("leaf {}", i));
    }
    for (r, l) in lens.iter().enumerate() {
        for c in 0..*l {
            v.push(format!("node {} {}", r, c));
        }
    }
    let set: BTreeSet<usize> = idxs.iter().cloned().collect();
    for i in 0..k {
        let mut cands: Vec<usize> = vec![idxs[i] ^ 1, (idxs[i] + 2) % n, n, n + idxs[i], (1usize << 63) + idxs[i], usize::MAX];
        cands.extend_from_slice(&WIDTHS);
        if k > 1 {
            cands.push(idxs[(i + 1) % k]);
        }
        let mut seen = BTreeSet::new();
        for c in cands {
            if c != idxs[i] && seen.insert(c) {
                v.push(format!("idx {} {}", i, c));
            }
        }
    }
    for d in [depth.wrapping_sub(1), depth + 1, 0, 62, 63, 64, 65, 255] {
        if d != depth && d < 256 {
            v.push(format!("depth {}", d));
        }
    }
    for (r, l) in lens.iter().enumerate() {
        if *l > 0 {
            v.push(format!("dropnode {}", r));
        }
        v.push(format!("addnode {}", r));
        v.push(format!("droprow {}", r));
        // surplus / missing counts across the widths of counters and length prefixes
        for c in [2usize, 255, 256, 257, 512, 255usize.saturating_sub(*l), 256 - *l.min(&255)] {
            if c >= 1 {
                v.push(format!("addnode {} {}", r, c));
            }
        }
        if r == k % lens.len() {
            for c in [254usize, 511, 513, 65535, 65536] {
                v.push(format!("addnode {} {}", r, c));
            }
        }
        for c in 2..=*l {
            v.push(format!("dropnode {} {}", r, c));
        }
    }
    for c in COUNTS {
        v.push(format!("addleaf {}", c));
    }
    for c in [2usize, 254, 255, 256, 257, 65536] {
        v.push(format!("addidxn {}", c));
    }
    for c in 2..=k {
        v.push(format!("dropidxn {}", c));
    }
    v.push("addrow 0".into());
    v.push("addrow 1".into());
    for i in 0..k {
        v.push(format!("dropleaf {}", i));
    }
    v.push("addleaf".into());
    for i in 0..k {
        v.push(format!("dropidx {}", i));
    }
    if let Some(f) = (0..n).find(|x| !set.contains(x)) {
        v.push(format!("addidx {}", f));
    }
    v.push(format!("addidx {}", n));
    v.push(format!("addidx {}", idxs[0]));
    for i in 0..k.saturating_sub(1) {
        v.push(format!("swapidx {} {}", i, i + 1));
        v.push(format!("swapleaf {} {}", i, i + 1));
    }
    v.dedup();
    v
}

fn all_single_muts(idx: usize, depth: usize, exhaustive_idx: bool) -> Vec<String> {
    let n = 1usize << depth;
    let len = depth + 1;
    let mut v = vec![];
    for k in 0..len {
        v.push(format!("node {}", k));
    }
    let mut cands: Vec<usize> = if exhaustive_idx { (0..n).collect() } else { vec![idx ^ 1, idx ^ (n >> 1), (idx + 1) % n, 0, n - 1] };
    cands.extend_from_slice(&[n, n + idx, 2 * n + idx, (1usize << 63) + idx, usize::MAX, usize::MAX - n + 1 + idx]);
    cands.extend_from_slice(&WIDTHS);
    let mut seen = BTreeSet::new();
    for c in cands {
        if c != idx && seen.insert(c) {
            v.push(format!("idx {}", c));
        }
    }
    for m in 0..len {
        v.push(format!("trunc {}", m));
    }
    for m in [len + 1, len + 2, 64, 65, 66, 80] {
        if m > len {
            v.push(format!("ext {}", m));
        }
    }
    v
}

// ------------------------------------------------------------------------------------ exec
fn exec_new<H: HX>(t: &[&str]) -> Outcome {
    let (n, seed) = match (t.first().and_then(|s| s.parse::<usize>().ok()), t.get(1).and_then(|s| Sd::parse(s))) {
        (Some(n), Some(s)) if n <= 1 << 13 => (n, s),
        _ => return Outcome::ok("bad-op"),
    };
    let leaves = match leaves_of::<H>(n, &seed) {
        Some(l) => l,
        None => return Outcome::ok("bad-op"),
    };
    match guarded(|| MerkleTree::<H>::new(leaves.clone())) {
        Err(info) => Outcome::ok("panic").fail(format!("{}.new.panic", H::NAME), info),
        Ok(Err(e)) => {
            let mut o = Outcome::ok(format!("err:{}", kind(&e)));
            let exp = if n < 2 {
                "few-leaves"
            } else if !n.is_power_of_two() {
                "not-pow2"
            } else {
                "ok"
            };
            if kind(&e) != exp {
                o = o.fail(format!("{}.new.error-kind", H::NAME), format!("got {} expected {}", kind(&e), exp));
            }
            o
        },
        Ok(Ok(tree)) => {
            let mut o = Outcome::ok(format!("ok root={} depth={}", H::num(tree.root()), tree.depth()));
            if n < 2 || !n.is_power_of_two() {
                o = o.fail(format!("{}.new.accepted", H::NAME), format!("a tree over {} leaves was built", n));
            } else {
                if *tree.root() != naive_root::<H>(&leaves) {
                    o = o.fail(format!("{}.new.root", H::NAME), "root differs from the naive recomputation");
                }
                if tree.leaves() != &leaves[..] || (1usize << tree.depth()) != n {
                    o = o.fail(format!("{}.new.shape", H::NAME), "leaves()/depth() wrong");
                }
                // the other public constructor, from the nodes the public builder computes
                let nodes = winter_crypto::build_merkle_nodes::<H>(&leaves);
                match guarded(|| MerkleTree::<H>::from_raw_parts(nodes, leaves.clone())) {
                    Ok(Ok(t2)) => {
                        let same = (0..n).all(|i| matches!((t2.prove(i), tree.prove(i)), (Ok(a), Ok(b)) if a == b));
                        if t2.root() != tree.root() || !same {
                            o = o.fail(format!("{}.from_raw_parts.differs", H::NAME), "tree from raw parts differs from MerkleTree::new");
                        }
                    },
                    _ => o = o.fail(format!("{}.from_raw_parts.error", H::NAME), "from_raw_parts failed on the nodes of build_merkle_nodes"),
                }
            }
            o
        },
    }
}

/// the second public constructor on every leaf count (the two refusals must win over the documented panic on a node
/// vector of another length), and every accessor / opening of the tree it returns against the naive recomputation
fn exec_raw<H: HX>(t: &[&str]) -> Outcome {
    let (n, seed) = match (t.first().and_then(|s| s.parse::<usize>().ok()), t.get(1).and_then(|s| Sd::parse(s))) {
        (Some(n), Some(s)) if n <= 1 << 13 => (n, s),
        _ => return Outcome::ok("bad-op"),
    };
    let mode = match t.get(2) {
        Some(m) if ["ok", "short", "long"].contains(m) => *m,
        _ => return Outcome::ok("bad-op"),
    };
    let leaves = match leaves_of::<H>(n, &seed) {
        Some(l) => l,
        None => return Outcome::ok("bad-op"),
    };
    let hn = H::NAME;
    let valid = n >= 2 && n.is_power_of_two();
    let mut nodes = if valid { winter_crypto::build_merkle_nodes::<H>(&leaves) } else { vec![H::extra(); n] };
    match mode {
        "short" => {
            nodes.pop();
        },
        "long" => nodes.push(H::extra()),
        _ => {},
    }
    let same_len = nodes.len() == n;
    match guarded(|| MerkleTree::<H>::from_raw_parts(nodes.clone(), leaves.clone())) {
        Err(info) => {
            let mut o = Outcome::ok("panic");
            // documented: panics if nodes doesn't have the same length as leaves (after the two refusals)
            if !valid || same_len {
                o = o.fail(format!("{}.from_raw_parts.panic", hn), info);
            }
            o
        },
        Ok(Err(e)) => {
            let mut o = Outcome::ok(format!("err:{}", kind(&e)));
            let exp = if n < 2 {
                "few-leaves"
            } else if !n.is_power_of_two() {
                "not-pow2"
            } else {
                "ok"
            };
            if kind(&e) != exp {
                o = o.fail(format!("{}.from_raw_parts.error-kind", hn), format!("got {} expected {}", kind(&e), exp));
            }
            o
        },
        Ok(Ok(tree)) => {
            let mut o = Outcome::ok(format!("ok root={} depth={}", H::num(tree.root()), tree.depth()));
            if !valid || !same_len {
                return o.fail(format!("{}.from_raw_parts.accepted", hn), format!("{} leaves with {} nodes were accepted", n, nodes.len()));
            }
            let levels = naive_levels::<H>(&leaves);
            let root = *tree.root();
            if root != naive_root::<H>(&leaves) || tree.leaves() != &leaves[..] || (1usize << tree.depth()) != n {
                o = o.fail(format!("{}.from_raw_parts.differs", hn), "root() / leaves() / depth() of the tree from raw parts");
            }
            let step = (n / 64).max(1);
            for i in (0..n).step_by(step) {
                match guarded(|| tree.prove(i)) {
                    Ok(Ok(p)) if p == naive_path::<H>(&levels, i) && matches!(guarded(|| MerkleTree::<H>::verify(root, i, &p)), Ok(Ok(()))) => {},
                    _ => {
                        o = o.fail(format!("{}.from_raw_parts.prove", hn), format!("prove({}) on the tree from raw parts", i));
                        break;
                    },
                }
            }
            let idxs: Vec<usize> = (0..n).step_by(step.max(n / 8).max(1)).chain([n - 1]).collect::<BTreeSet<usize>>().into_iter().collect();
            match guarded(|| tree.prove_batch(&idxs)) {
                Ok(Ok(p)) if matches!(guarded(|| MerkleTree::<H>::verify_batch(&root, &idxs, &p)), Ok(Ok(()))) => {},
                _ => o = o.fail(format!("{}.from_raw_parts.prove_batch", hn), "prove_batch / verify_batch on the tree from raw parts"),
            }
            o
        },
    }
}

fn head(t: &[&str]) -> Option<(u32, Sd)> {
    let d = t.first()?.parse::<u32>().ok()?;
    let s = Sd::parse(t.get(1)?)?;
    if d == 0 || d > 13 {
        return None;
    }
    Some((d, s))
}

fn exec_single<H: HX>(t: &[&str]) -> Outcome {
    let (depth, seed) = match head(t) {
        Some(x) => x,
        None => return Outcome::ok("bad-op"),
    };
    let idx = match t.get(2).and_then(|s| s.parse::<usize>().ok()) {
        Some(i) => i,
        None => return Outcome::ok("bad-op"),
    };
    let m = &t[3.min(t.len())..];
    let b = match built::<H>(depth, &seed) {
        Some(b) => b,
        None => return Outcome::ok("bad-op"),
    };
    let n = b.leaves.len();
    let hn = H::NAME;
    let mut o = Outcome::default();
    if b.naive_root != *b.tree.root() {
        o = o.fail(format!("{}.new.root", hn), "root differs from the naive recomputation");
    }
    let path = match guarded(|| b.tree.prove(idx)) {
        Err(info) => {
            o.out = "prove=panic".into();
            return o.fail(format!("{}.prove.panic", hn), info);
        },
        Ok(Err(e)) => {
            o.out = format!("prove=err:{}", kind(&e));
            if idx < n || kind(&e) != "oob" {
                o = o.fail(format!("{}.prove.error", hn), format!("prove({}) on {} leaves: {}", idx, n, kind(&e)));
            }
            return o;
        },
        Ok(Ok(p)) => p,
    };
    if idx >= n {
        o.out = "prove=ok".into();
        return o.fail(format!("{}.prove.accepted-oob", hn), format!("prove({}) on {} leaves succeeded", idx, n));
    }
    if path != naive_path::<H>(&b.levels, idx) {
        o = o.fail(format!("{}.prove.path", hn), "path differs from the naive recomputation");
    }
    let mut h = CKS0;
    for d in &path {
        h = cks::<H>(h, d);
    }
    let mut vi = idx;
    let mut vp = path.clone();
    let p = |s: &str| s.parse::<usize>().ok();
    let applied = match m {
        ["none"] => true,
        ["node", k] => match p(k) {
            Some(k) if k < vp.len() => {
                vp[k] = H::tweak(&vp[k]);
                true
            },
            _ => false,
        },
        ["idx", v] => match p(v) {
            Some(v) if v != idx => {
                vi = v;
                true
            },
            _ => false,
        },
        ["trunc", k] => match p(k) {
            Some(k) if k < vp.len() => {
                vp.truncate(k);
                true
            },
            _ => false,
        },
        ["ext", k] => match p(k) {
            Some(k) if k > vp.len() && k <= 300 => {
                while vp.len() < k {
                    vp.push(H::extra());
                }
                true
            },
            _ => false,
        },
        _ => false,
    };
    if !applied {
        o.out = "bad-op".into();
        return o;
    }
    let root = *b.tree.root();
    let r = guarded(|| MerkleTree::<H>::verify(root, vi, &vp));
    o.out = format!("prove=ok len={} h={} verify={}", path.len(), h, unit_str(&r));
    let mk = m[0];
    match (&r, mk) {
        (Err(info), _) => o = o.fail(format!("{}.verify.{}.panic", hn, mk), format!("verify panicked: {}", info)),
        (Ok(Ok(())), "none") => {},
        (Ok(Ok(())), _) if judged(b.patterned, mk) => {
            o = o.fail(format!("{}.verify.{}.accepted", hn, mk), "a modified single opening was accepted")
        },
        (Ok(Ok(())), _) => {},
        (Ok(Err(e)), "none") => o = o.fail(format!("{}.verify.rejected-valid", hn), format!("valid path rejected: {}", kind(e))),
        (Ok(Err(_)), _) => {},
    }
    o
}

fn prove_batch_checked<H: HX>(b: &Built<H>, idxs: &[usize], o: &mut Outcome) -> Option<Opening<H>> {
    let hn = H::NAME;
    let n = b.leaves.len();
    if b.naive_root != *b.tree.root() || b.levels.last().unwrap()[0] != b.naive_root {
        o.fails.push((format!("{}.new.root", hn), "root differs from the naive recomputation".into()));
    }
    let set: BTreeSet<usize> = idxs.iter().cloned().collect();
    let valid = !idxs.is_empty() && idxs.len() <= 255 && set.len() == idxs.len() && idxs.iter().all(|i| *i < n);
    match guarded(|| b.tree.prove_batch(idxs)) {
        Err(info) => {
            o.out = "prove=panic".into();
            o.fails.push((format!("{}.prove_batch.panic", hn), info));
            None
        },
        Ok(Err(e)) => {
            o.out = format!("prove=err:{}", kind(&e));
            let k = kind(&e);
            let plausible = match k {
                "no-idx" => idxs.is_empty(),
                "many-idx" => idxs.len() > 255,
                "oob" => idxs.iter().any(|i| *i >= n),
                "dup" => set.len() != idxs.len(),
                _ => false,
            };
            if valid || !plausible {
                o.fails.push((format!("{}.prove_batch.error", hn), format!("prove_batch({:?}) on {} leaves: {}", idxs, n, k)));
            }
            None
        },
        Ok(Ok(p)) => {
            if !valid {
                o.out = "prove=ok".into();
                o.fails.push((format!("{}.prove_batch.accepted-invalid", hn), format!("prove_batch({:?}) on {} leaves succeeded", idxs, n)));
                return None;
            }
            // claimed leaves are the committed ones, in the order of the position list
            if p.leaves.len() != idxs.len() || p.leaves.iter().zip(idxs).any(|(l, i)| *l != b.leaves[*i]) {
                o.fails.push((format!("{}.prove_batch.leaves", hn), "leaves of the opening are not the committed ones".into()));
            }
            if p.depth as u32 != b.tree.depth() as u32 {
                o.fails.push((format!("{}.prove_batch.depth", hn), "wrong depth".into()));
            }
            Some(Opening { idxs: idxs.to_vec(), leaves: p.leaves, nodes: p.nodes, depth: p.depth })
        },
    }
}

fn shape_str<H: HX>(o: &Opening<H>) -> String {
    let lens = o.nodes.iter().map(|r| r.len().to_string()).collect::<Vec<_>>().join(".");
    format!("lens={} h={}", lens, Opening::<H>::checksum(&o.leaves, &o.nodes))
}

fn exec_batch<H: HX>(t: &[&str]) -> Outcome {
    let (depth, seed) = match head(t) {
        Some(x) => x,
        None => return Outcome::ok("bad-op"),
    };
    let idxs = match t.get(2).and_then(|s| parse_idxs(s)) {
        Some(i) => i,
        None => return Outcome::ok("bad-op"),
    };
    let m = &t[3.min(t.len())..];
    let b = match built::<H>(depth, &seed) {
        Some(b) => b,
        None => return Outcome::ok("bad-op"),
    };
    let hn = H::NAME;
    let mut o = Outcome::default();
    let mut op = match prove_batch_checked::<H>(&b, &idxs, &mut o) {
        Some(op) => op,
        None => return o,
    };
    let shape = shape_str(&op);
    if !apply::<H>(&mut op, m) {
        o.out = "bad-op".into();
        return o;
    }
    let root = *b.tree.root();
    let proof = op.proof();
    let vi = op.idxs.clone();
    let r1 = guarded(|| proof.get_root(&vi));
    let r2 = guarded(|| MerkleTree::<H>::verify_batch(&root, &vi, &proof));
    o.out = format!("prove=ok {} root={} verify={}", shape, res_str::<H>(&r1), unit_str(&r2));
    let mk = m[0];
    match (&r2, mk) {
        (Err(info), _) => o = o.fail(format!("{}.verify_batch.{}.panic", hn, mk), format!("verify_batch panicked: {}", info)),
        (Ok(Ok(())), "none") => {},
        (Ok(Ok(())), _) if judged(b.patterned, mk) => {
            o = o.fail(format!("{}.verify_batch.{}.accepted", hn, mk), "a modified batch opening was accepted (no error)")
        },
        (Ok(Ok(())), _) => {},
        (Ok(Err(e)), "none") => o = o.fail(format!("{}.verify_batch.rejected-valid", hn), format!("valid opening rejected: {}", kind(e))),
        (Ok(Err(_)), _) => {},
    }
    match (&r1, mk) {
        (Err(info), _) => o = o.fail(format!("{}.get_root.{}.panic", hn, mk), format!("get_root panicked: {}", info)),
        (Ok(Ok(d)), "none") if *d != b.naive_root => o = o.fail(format!("{}.get_root.root", hn), "get_root differs from the naive root"),
        _ => {},
    }
    o
}

fn exec_paths<H: HX>(t: &[&str]) -> Outcome {
    let (depth, seed) = match head(t) {
        Some(x) => x,
        None => return Outcome::ok("bad-op"),
    };
    let idxs = match t.get(2).and_then(|s| parse_idxs(s)) {
        Some(i) => i,
        None => return Outcome::ok("bad-op"),
    };
    let m = &t[3.min(t.len())..];
    let b = match built::<H>(depth, &seed) {
        Some(b) => b,
        None => return Outcome::ok("bad-op"),
    };
    let hn = H::NAME;
    let mut o = Outcome::default();
    let mut op = match prove_batch_checked::<H>(&b, &idxs, &mut o) {
        Some(op) => op,
        None => return o,
    };
    if !apply::<H>(&mut op, m) {
        o.out = "bad-op".into();
        return o;
    }
    let mk = m[0];
    let root = *b.tree.root();
    let proof = op.proof();
    let vi = op.idxs.clone();
    let r = guarded(|| op.proof().into_paths(&vi));
    let paths = match r {
        Err(info) => {
            o.out = "prove=ok into=panic from=skip".into();
            return o.fail(format!("{}.into_paths.{}.panic", hn, mk), format!("into_paths panicked: {}", info));
        },
        Ok(Err(e)) => {
            o.out = format!("prove=ok into=err:{} from=skip", kind(&e));
            if mk == "none" {
                o = o.fail(format!("{}.into_paths.rejected-valid", hn), format!("valid opening not decompressed: {}", kind(&e)));
            }
            return o;
        },
        Ok(Ok(p)) => p,
    };
    let mut h = CKS0;
    let mut total = 0usize;
    for p in &paths {
        for d in p {
            h = cks::<H>(h, d);
            total += 1;
        }
    }
    let into = format!("into=ok n={} t={} h={}", paths.len(), total, h);
    if mk == "none" {
        for (p, i) in paths.iter().zip(&vi) {
            if *p != naive_path::<H>(&b.levels, *i) {
                o = o.fail(format!("{}.into_paths.path", hn), format!("path of {} differs from the naive recomputation", i));
                break;
            }
            match guarded(|| MerkleTree::<H>::verify(root, *i, p)) {
                Ok(Ok(())) => {},
                _ => {
                    o = o.fail(format!("{}.into_paths.verify", hn), format!("decompressed path of {} does not verify", i));
                    break;
                },
            }
        }
        if paths.len() != vi.len() {
            o = o.fail(format!("{}.into_paths.count", hn), "wrong number of paths");
        }
    }
    // documented preconditions of from_paths
    let pre = !paths.is_empty() && paths.len() <= 255 && paths.len() == vi.len() && paths.iter().all(|p| p.len() == paths[0].len());
    let r = guarded(|| BatchMerkleProof::<H>::from_paths(&paths, &vi));
    match r {
        Err(info) => {
            o.out = format!("prove=ok {} from=panic", into);
            if pre && paths[0].len() >= 2 {
                o = o.fail(format!("{}.from_paths.{}.panic", hn, mk), format!("from_paths panicked: {}", info));
            }
        },
        Ok(p2) => {
            let same = p2.leaves == proof.leaves && p2.nodes == proof.nodes && p2.depth == proof.depth;
            let r2 = guarded(|| MerkleTree::<H>::verify_batch(&root, &vi, &p2));
            let lens = p2.nodes.iter().map(|r| r.len().to_string()).collect::<Vec<_>>().join(".");
            o.out = format!(
                "prove=ok {} from=ok same={} lens={} d={} h={} verify={}",
                into,
                if same { 1 } else { 0 },
                lens,
                p2.depth,
                Opening::<H>::checksum(&p2.leaves, &p2.nodes),
                unit_str(&r2)
            );
            if mk == "none" {
                if !same {
                    o = o.fail(format!("{}.from_paths.differs", hn), "from_paths(into_paths(opening)) is not the opening");
                }
                if !matches!(r2, Ok(Ok(()))) {
                    o = o.fail(format!("{}.from_paths.not-verifying", hn), "the re-compressed opening does not verify");
                }
            } else {
                match &r2 {
                    Err(info) => o = o.fail(format!("{}.verify_batch.{}.panic", hn, mk), format!("verify_batch panicked: {}", info)),
                    Ok(Ok(())) if judged(b.patterned, mk) => {
                        o = o.fail(
                            format!("{}.from_paths.{}.accepted", hn, mk),
                            "a modified opening was decompressed and re-compressed into an accepted opening",
                        )
                    },
                    _ => {},
                }
            }
        },
    }
    o
}

fn exec_ser<H: HX>(t: &[&str]) -> Outcome {
    let (depth, seed) = match head(t) {
        Some(x) => x,
        None => return Outcome::ok("bad-op"),
    };
    let idxs = match t.get(2).and_then(|s| parse_idxs(s)) {
        Some(i) => i,
        None => return Outcome::ok("bad-op"),
    };
    let m = &t[3.min(t.len())..];
    let b = match built::<H>(depth, &seed) {
        Some(b) => b,
        None => return Outcome::ok("bad-op"),
    };
    let hn = H::NAME;
    let mut o = Outcome::default();
    let op = match prove_batch_checked::<H>(&b, &idxs, &mut o) {
        Some(op) => op,
        None => return o,
    };
    let p = |s: &str| s.parse::<usize>().ok();
    // structural mutants: what is serialized (nodes) and what deserialize is given (leaves, depth)
    let mut nodes = op.nodes.clone();
    let mut dl = op.leaves.clone();
    let mut dd = op.depth;
    match m {
        ["none"] | ["cut", _] | ["extra"] | ["ff"] => {},
        ["depth0"] => dd = 0,
        ["noleaves"] => dl.clear(),
        ["leaves", n] => match p(n) {
            Some(n) if n <= 70000 => dl.resize(n, H::extra()),
            _ => return Outcome::ok("bad-op"),
        },
        ["rows", n] => match p(n) {
            Some(n) if n >= nodes.len() && n <= 70000 => nodes.resize(n, vec![]),
            _ => return Outcome::ok("bad-op"),
        },
        ["rowlen", r, n] => match (p(r), p(n)) {
            (Some(r), Some(n)) if r < nodes.len() && n >= nodes[r].len() && n <= 70000 => nodes[r].resize(n, H::extra()),
            _ => return Outcome::ok("bad-op"),
        },
        ["droprowc"] => {
            if nodes.pop().is_none() {
                return Outcome::ok("bad-op");
            }
        },
        ["dropnodec", r] => match p(r) {
            Some(r) if r < nodes.len() && !nodes[r].is_empty() => {
                nodes[r].pop();
            },
            _ => return Outcome::ok("bad-op"),
        },
        _ => return Outcome::ok("bad-op"),
    }
    let sp = BatchMerkleProof::<H> { leaves: op.leaves.clone(), nodes: nodes.clone(), depth: op.depth };
    let panic_documented = nodes.len() > 255 || nodes.iter().any(|r| r.len() > 255);
    let mut bytes = match guarded(|| sp.serialize_nodes()) {
        Ok(b) => b,
        Err(info) => {
            o.out = "ser=panic".into();
            if !panic_documented {
                o = o.fail(format!("{}.serialize_nodes.panic", hn), info);
            }
            return o;
        },
    };
    if panic_documented {
        o = o.fail(format!("{}.serialize_nodes.no-panic", hn), "more than 255 vectors / nodes were serialized with one-byte counts");
    }
    let full = bytes.len();
    let exp_len = 1 + nodes.iter().map(|r| 1 + r.len() * H::width()).sum::<usize>();
    if full != exp_len {
        o = o.fail(format!("{}.serialize_nodes.len", hn), format!("{} bytes, expected {}", full, exp_len));
    }
    let mk = m.first().copied().unwrap_or("");
    match m {
        ["cut", k] => match k.parse::<usize>() {
            Ok(k) if k < full => bytes.truncate(k),
            _ => return Outcome::ok("bad-op"),
        },
        ["extra"] => bytes.push(7),
        ["ff"] => {
            // the first 8 bytes of the first digest of the first vector
            if nodes.is_empty() || nodes[0].is_empty() {
                return Outcome::ok("bad-op");
            }
            for x in bytes[2..10].iter_mut() {
                *x = 0xff;
            }
        },
        _ => {},
    }
    let leaves = dl.clone();
    let r = guarded(|| {
        let mut rd = SliceReader::new(&bytes);
        let p = BatchMerkleProof::<H>::deserialize(&mut rd, leaves, dd);
        (p, rd.has_more_bytes())
    });
    let must_err = dd == 0 || dl.is_empty() || dl.len() > 255 || mk == "cut";
    match r {
        Err(info) => {
            o.out = format!("len={} de=panic", full);
            o = o.fail(format!("{}.deserialize.{}.panic", hn, mk), info);
        },
        Ok((Err(e), _)) => {
            o.out = format!("len={} de=err", full);
            // changed digest bytes may or may not be a valid digest of a Rescue hasher
            if !must_err && !(mk == "ff" && hn.starts_with("rp")) {
                o = o.fail(format!("{}.deserialize.rejected", hn), format!("{:?}", e));
            }
        },
        Ok((Ok(p2), more)) => {
            let same = p2.leaves == dl && p2.nodes == nodes && p2.depth == dd;
            o.out = format!("len={} de=ok same={} rest={}", full, if same { 1 } else { 0 }, if more { 1 } else { 0 });
            if must_err {
                o = o.fail(format!("{}.deserialize.{}.accepted", hn, mk), "deserialize accepted what it must reject");
            } else {
                match mk {
                    "extra" if !same || !more => o = o.fail(format!("{}.deserialize.extra", hn), "trailing byte not left unread"),
                    "ff" => {
                        if same || more {
                            o = o.fail(format!("{}.deserialize.ff", hn), "changed digest bytes not reflected")
                        }
                    },
                    "extra" => {},
                    _ if !same || more => o = o.fail(format!("{}.deserialize.roundtrip", hn), "deserialize(serialize_nodes(p)) != p"),
                    _ => {},
                }
            }
        },
    }
    o
}

/// `from_paths` on the paths `prove` produces (not on the output of `into_paths`), with malformed inputs
fn exec_from<H: HX>(t: &[&str]) -> Outcome {
    let (depth, seed) = match head(t) {
        Some(x) => x,
        None => return Outcome::ok("bad-op"),
    };
    let mut idxs = match t.get(2).and_then(|s| parse_idxs(s)) {
        Some(i) => i,
        None => return Outcome::ok("bad-op"),
    };
    let m = &t[3.min(t.len())..];
    let b = match built::<H>(depth, &seed) {
        Some(b) => b,
        None => return Outcome::ok("bad-op"),
    };
    let hn = H::NAME;
    let n = b.leaves.len();
    let mut o = Outcome::default();
    let mut paths: Vec<Vec<H::Digest>> = vec![];
    for i in &idxs {
        match guarded(|| b.tree.prove(*i)) {
            Ok(Ok(p)) => paths.push(p),
            _ => {
                o.out = "prove=err".into();
                return o;
            },
        }
    }
    let p = |s: &str| s.parse::<usize>().ok();
    match m {
        ["none"] => {},
        ["droppath"] => {
            if paths.pop().is_none() {
                return Outcome::ok("bad-op");
            }
        },
        ["addpath"] => match paths.last().cloned() {
            Some(x) => paths.push(x),
            None => return Outcome::ok("bad-op"),
        },
        ["dupidx"] => {
            if idxs.len() < 2 {
                return Outcome::ok("bad-op");
            }
            let l = idxs.len();
            idxs[l - 1] = idxs[0];
        },
        ["short", k] => match p(k) {
            Some(k) if k < paths.len() => paths[k].truncate(1),
            _ => return Outcome::ok("bad-op"),
        },
        ["long", k] => match p(k) {
            Some(k) if k < paths.len() => paths[k].push(H::extra()),
            _ => return Outcome::ok("bad-op"),
        },
        ["alllen", l] => match p(l) {
            Some(l) if l <= 600 => {
                for q in paths.iter_mut() {
                    q.resize(l, H::extra());
                }
            },
            _ => return Outcome::ok("bad-op"),
        },
        ["nopaths"] => {
            paths.clear();
            idxs.clear();
        },
        ["many", c] => match (p(c), paths.first().cloned()) {
            (Some(c), Some(x)) if c <= 600 => {
                paths = vec![x; c];
                idxs = (0..c).collect();
            },
            _ => return Outcome::ok("bad-op"),
        },
        _ => return Outcome::ok("bad-op"),
    }
    let set: BTreeSet<usize> = idxs.iter().cloned().collect();
    let panic_documented = paths.is_empty()
        || paths.len() > 255
        || paths.len() != idxs.len()
        || paths.iter().any(|q| q.len() != paths[0].len())
        || set.len() != idxs.len()
        || paths[0].len() < 2;
    let mk = m.first().copied().unwrap_or("");
    match guarded(|| BatchMerkleProof::<H>::from_paths(&paths, &idxs)) {
        Err(info) => {
            o.out = "from=panic".into();
            if !panic_documented {
                o = o.fail(format!("{}.from_paths.{}.panic", hn, mk), format!("from_paths panicked: {}", info));
            }
        },
        Ok(p2) => {
            let lens = p2.nodes.iter().map(|r| r.len().to_string()).collect::<Vec<_>>().join(".");
            o.out = format!("from=ok lens={} d={} n={} h={}", lens, p2.depth, p2.leaves.len(), Opening::<H>::checksum(&p2.leaves, &p2.nodes));
            if panic_documented {
                o = o.fail(format!("{}.from_paths.{}.no-panic", hn, mk), "a documented precondition of from_paths was not enforced");
            }
            if mk == "none" {
                let root = *b.tree.root();
                match guarded(|| b.tree.prove_batch(&idxs)) {
                    Ok(Ok(p1)) => {
                        if p1.leaves != p2.leaves || p1.nodes != p2.nodes || p1.depth != p2.depth {
                            o = o.fail(format!("{}.from_paths.differs", hn), "from_paths(prove paths) is not the opening prove_batch produces");
                        }
                    },
                    _ => o = o.fail(format!("{}.prove_batch.error", hn), "prove_batch failed on valid positions"),
                }
                if !matches!(guarded(|| MerkleTree::<H>::verify_batch(&root, &idxs, &p2)), Ok(Ok(()))) {
                    o = o.fail(format!("{}.from_paths.not-verifying", hn), "the opening compressed from the single paths does not verify");
                }
            }
        },
    }
    let _ = n;
    o
}

/// the tree itself: root and every node reachable through `prove` against the naive recomputation
fn exec_tree<H: HX>(t: &[&str]) -> Outcome {
    let (depth, seed) = match head(t) {
        Some(x) => x,
        None => return Outcome::ok("bad-op"),
    };
    let b = match built::<H>(depth, &seed) {
        Some(b) => b,
        None => return Outcome::ok("bad-op"),
    };
    let hn = H::NAME;
    let n = b.leaves.len();
    let mut o = Outcome::default();
    let root = *b.tree.root();
    if root != b.naive_root || b.levels.last().unwrap()[0] != b.naive_root {
        o = o.fail(format!("{}.new.root", hn), "root differs from the naive recursive hash of the leaves");
    }
    let step = if n <= 256 { 1 } else { n / 256 };
    let mut h = CKS0;
    let mut i = 0;
    while i < n {
        match guarded(|| b.tree.prove(i)) {
            Ok(Ok(path)) => {
                if path != naive_path::<H>(&b.levels, i) {
                    o = o.fail(format!("{}.new.nodes", hn), format!("a node on the path of position {} differs from the naive recursive hash", i));
                }
                for d in &path {
                    h = cks::<H>(h, d);
                }
                match guarded(|| MerkleTree::<H>::verify(root, i, &path)) {
                    Ok(Ok(())) => {},
                    _ => o = o.fail(format!("{}.verify.rejected-valid", hn), format!("the path of position {} does not verify against the tree's own root", i)),
                }
            },
            _ => o = o.fail(format!("{}.prove.error", hn), format!("prove({}) failed", i)),
        }
        i += step;
    }
    #[cfg(feature = "concurrent")]
    {
        if n > 1024 {
            let nodes = winter_crypto::concurrent::build_merkle_nodes::<H>(&b.leaves);
            let mut ok = nodes.len() == n;
            for l in 1..b.levels.len() {
                let row = &b.levels[l];
                let off = row.len();
                for (k, d) in row.iter().enumerate() {
                    if ok && nodes[off + k] != *d {
                        ok = false;
                    }
                }
            }
            if !ok {
                o = o.fail(format!("{}.new.concurrent-nodes", hn), "concurrent build_merkle_nodes differs from the naive levels");
            }
        }
    }
    o.out = format!("root={} h={}", H::num(&root), h);
    o
}

fn exec_h<H: HX>(op: &str, t: &[&str]) -> Outcome {
    match op {
        "new" => exec_new::<H>(t),
        "raw" => exec_raw::<H>(t),
        "single" => exec_single::<H>(t),
        "batch" => exec_batch::<H>(t),
        "paths" => exec_paths::<H>(t),
        "ser" => exec_ser::<H>(t),
        "tree" => exec_tree::<H>(t),
        "from" => exec_from::<H>(t),
        _ => Outcome::ok("bad-op"),
    }
}

// ------------------------------------------------------------------------------------ gen
fn lens_of(depth: u32, idxs: &[usize]) -> Option<Vec<usize>> {
    let b = built::<Toy>(depth, &Sd::plain(1)).unwrap();
    match guarded(|| b.tree.prove_batch(idxs)) {
        Ok(Ok(p)) => Some(p.nodes.iter().map(|r| r.len()).collect()),
        _ => None,
    }
}

fn permutations(v: &[usize]) -> Vec<Vec<usize>> {
    if v.len() <= 1 {
        return vec![v.to_vec()];
    }
    let mut out = vec![];
    for i in 0..v.len() {
        let mut rest = v.to_vec();
        let x = rest.remove(i);
        for mut p in permutations(&rest) {
            p.insert(0, x);
            out.push(p);
        }
    }
    out
}

fn shuffle(rng: &mut Rng, v: &mut Vec<usize>) {
    for i in (1..v.len()).rev() {
        let j = rng.below(i as u64 + 1) as usize;
        v.swap(i, j);
    }
}

fn subset_of(mask: u32, n: usize) -> Vec<usize> {
    (0..n).filter(|i| mask >> i & 1 == 1).collect()
}

impl P {
    fn gen_lines(&self, rng: &mut Rng, tier: Tier, n: usize, emit: &mut dyn FnMut(String)) {
        let thorough = tier == Tier::Thorough;
        let scale = default_n(tier, 1, 1, n).max(1);
        // tree construction, all hashers
        for h in HASHERS {
            for n in 0..=18usize {
                emit(format!("new {} {} {}", h, n, 1 + n as u64));
            }
            for n in [31usize, 32, 33, 64, 100, 128, 256, 1000, 1024, 2048, 4096] {
                if h == "toy" || h.starts_with("blake") || n <= 256 {
                    emit(format!("new {} {} {}", h, n, 3));
                }
            }
            // the other public constructor on the same leaf counts, with a node vector of the right and of a wrong length
            for n in 0..=18usize {
                for mode in ["ok", "short", "long"] {
                    emit(format!("raw {} {} {} {}", h, n, 1 + n as u64, mode));
                }
            }
            for n in [31usize, 32, 33, 64, 100, 128, 256, 1024] {
                if h == "toy" || h.starts_with("blake") || n <= 128 {
                    emit(format!("raw {} {} 3 ok", h, n));
                }
            }
        }
        // single paths: every position of every tree of 2..16 leaves, every mutation, all hashers
        for h in HASHERS {
            for depth in 1..=4usize {
                for idx in 0..(1usize << depth) {
                    emit(format!("single {} {} {} {} none", h, depth, 10 + depth, idx));
                    for m in all_single_muts(idx, depth, true) {
                        emit(format!("single {} {} {} {} {}", h, depth, 10 + depth, idx, m));
                    }
                }
                emit(format!("single {} {} {} {} none", h, depth, 10 + depth, 1usize << depth));
                emit(format!("single {} {} {} {} none", h, depth, 10 + depth, usize::MAX));
            }
        }
        // batch openings, exhaustive part
        for (hi, h) in HASHERS.iter().enumerate() {
            let toy = *h == "toy";
            for depth in 1..=4usize {
                let nl = 1usize << depth;
                let seed = 20 + depth as u64;
                // every mutation of every (sorted) opening?
                for mask in 1u32..(1u32 << nl) {
                    let full = if depth <= 3 { toy || hi == 1 || hi == 4 || thorough } else { thorough && toy && mask % 16 == 5 };
                    if !toy && depth == 4 && !thorough && mask % 32 != 7 {
                        continue;
                    }
                    let sorted = subset_of(mask, nl);
                    let k = sorted.len();
                    let mut orders: Vec<Vec<usize>> = vec![sorted.clone()];
                    if toy && ((k <= 3 && depth <= 3) || (thorough && k <= 4)) {
                        orders = permutations(&sorted);
                    } else if k > 1 && (depth <= 3 || (toy && (thorough || mask % 4 == 1))) {
                        let mut s = sorted.clone();
                        shuffle(rng, &mut s);
                        if s != sorted {
                            orders.push(s);
                        }
                    }
                    for (oi, idxs) in orders.iter().enumerate() {
                        let is = fmt_idxs(idxs);
                        emit(format!("batch {} {} {} {} none", h, depth, seed, is));
                        if depth <= 3 || thorough || (oi == 0 && toy && mask % 8 == 0) || (oi > 0 && mask % 16 == 1) {
                            emit(format!("paths {} {} {} {} none", h, depth, seed, is));
                        }
                        let lens = match lens_of(depth as u32, idxs) {
                            Some(l) => l,
                            None => continue,
                        };
                        let muts = all_muts(idxs, &lens, depth, nl);
                        if full && oi == 0 {
                            for m in &muts {
                                emit(format!("batch {} {} {} {} {}", h, depth, seed, is, m));
                            }
                            if depth <= 2 || (toy && depth == 3 && mask % 4 == 1) || (thorough && depth <= 3) {
                                for m in &muts {
                                    emit(format!("paths {} {} {} {} {}", h, depth, seed, is, m));
                                }
                            }
                        } else if oi == 0 || depth <= 3 {
                            let cnt = if toy { scale * if thorough { 6 } else { 1 } } else { 1 + thorough as usize };
                            for _ in 0..cnt {
                                emit(format!("batch {} {} {} {} {}", h, depth, seed, is, rng.pick(&muts)));
                            }
                            if rng.below(8) == 0 {
                                emit(format!("paths {} {} {} {} {}", h, depth, seed, is, rng.pick(&muts)));
                            }
                        }
                        if oi == 0 && (depth <= 3 || mask % 64 == 0) {
                            emit(format!("ser {} {} {} {} none", h, depth, seed, is));
                            if depth <= 2 {
                                emit(format!("ser {} {} {} {} extra", h, depth, seed, is));
                                let full = 1 + lens.iter().map(|l| 1 + l * 8).sum::<usize>();
                                for c in 0..full.min(12) {
                                    emit(format!("ser {} {} {} {} cut {}", h, depth, seed, is, c));
                                }
                            }
                            if depth <= 3 && (toy || hi == 1 || hi == 4 || thorough) && (mask % 8 == 1 || depth <= 2) {
                                for sm in ["ff", "depth0", "noleaves", "leaves 255", "leaves 256", "leaves 257", "rows 255", "rows 256", "rows 257",
                                    "rowlen 0 254", "rowlen 0 255", "rowlen 0 256", "droprowc", "dropnodec 0"]
                                {
                                    emit(format!("ser {} {} {} {} {}", h, depth, seed, is, sm));
                                }
                            }
                        }
                        // from_paths on the single paths, and its documented preconditions
                        if depth <= 3 || (toy && mask % 8 == 3) || thorough {
                            if oi == 0 || toy {
                                emit(format!("from {} {} {} {} none", h, depth, seed, is));
                            }
                            if oi == 0 && depth <= 3 && (toy || hi == 1 || hi == 4) && (mask % 4 == 1 || depth <= 2) {
                                for fm in ["droppath", "addpath", "dupidx", "short 0", "long 0", "alllen 0", "alllen 1", "alllen 2", "alllen 3",
                                    "alllen 256", "alllen 257", "alllen 258", "nopaths", "many 255", "many 256", "many 257"]
                                {
                                    emit(format!("from {} {} {} {} {}", h, depth, seed, is, fm));
                                }
                            }
                        }
                    }
                }
                // invalid position lists handed to the prover
                emit(format!("batch {} {} {} - none", h, depth, seed));
                emit(format!("batch {} {} {} 0,0 none", h, depth, seed));
                emit(format!("batch {} {} {} {} none", h, depth, seed, nl));
                emit(format!("batch {} {} {} 0,{} none", h, depth, seed, nl));
                emit(format!("batch {} {} {} 0,0,{} none", h, depth, seed, nl));
                emit(format!("batch {} {} {} {},0 none", h, depth, seed, usize::MAX));
                emit(format!("paths {} {} {} - none", h, depth, seed));
            }
        }
        // leaf patterns (repeated leaf values): the tree itself and its openings against the naive recomputation
        for (hi, h) in HASHERS.iter().enumerate() {
            let toy = *h == "toy";
            let strong = toy || hi == 1 || hi == 4;
            for depth in 1..=8usize {
                let nl = 1usize << depth;
                if depth > 6 && !strong {
                    continue;
                }
                let seed = 40 + depth as u64;
                emit(format!("tree {} {} {}", h, depth, seed));
                for pat in patterns(nl) {
                    let st = format!("{}:{}", seed, pat);
                    if label(&pat, 0, nl).is_none() {
                        continue;
                    }
                    emit(format!("tree {} {} {}", h, depth, st));
                    if depth <= 4 {
                        emit(format!("new {} {} {}", h, nl, st));
                    }
                    // openings
                    if depth <= 3 && (toy || (thorough && strong)) {
                        for mask in 1u32..(1u32 << nl) {
                            let is = fmt_idxs(&subset_of(mask, nl));
                            emit(format!("batch {} {} {} {} none", h, depth, st, is));
                            emit(format!("paths {} {} {} {} none", h, depth, st, is));
                        }
                    } else if depth <= 6 && (strong || depth <= 3) {
                        let cnt = if toy { 8 } else { 3 };
                        for _ in 0..cnt {
                            let k = rng.range(1, nl.min(12) as u64) as usize;
                            let mut set = BTreeSet::new();
                            while set.len() < k {
                                set.insert(rng.below(nl as u64) as usize);
                            }
                            let mut idxs: Vec<usize> = set.into_iter().collect();
                            if rng.chance(1, 3) {
                                shuffle(rng, &mut idxs);
                            }
                            let is = fmt_idxs(&idxs);
                            emit(format!("batch {} {} {} {} none", h, depth, st, is));
                            emit(format!("paths {} {} {} {} none", h, depth, st, is));
                            emit(format!("batch {} {} {} {} leaf {}", h, depth, st, is, rng.below(k as u64)));
                            if toy {
                                emit(format!("batch {} {} {} {} node 0 0", h, depth, st, is));
                            }
                        }
                    }
                    if depth <= 4 && strong {
                        for idx in 0..nl {
                            emit(format!("single {} {} {} {} none", h, depth, st, idx));
                        }
                        emit(format!("single {} {} {} {} node 0", h, depth, st, rng.below(nl as u64)));
                    }
                }
            }
            // large trees (the concurrent builder when the harness is built with that feature)
            if toy || hi == 1 {
                for depth in [11usize, 12] {
                    let nl = 1usize << depth;
                    emit(format!("tree {} {} 7", h, depth));
                    for pat in ["eq", "alt", "half", "node", "run.1.3", "run.1027.5", "run.2047.2049"] {
                        if label(pat, 0, nl).is_some() {
                            emit(format!("tree {} {} 7:{}", h, depth, pat));
                        }
                    }
                }
            }
        }
        // sampled deeper trees
        let per_depth = if thorough { 400 * scale } else { 40 * scale };
        for depth in 5..=12usize {
            let nl = 1usize << depth;
            for h in HASHERS {
                let toy = h == "toy";
                let rescue = h.starts_with("rp");
                let cnt = if toy {
                    per_depth
                } else if rescue {
                    (per_depth / (if depth > 8 { 20 } else { 5 })).max(2)
                } else {
                    per_depth / 4
                };
                let seed = 100 + depth as u64;
                for c in 0..cnt {
                    let k = match rng.below(10) {
                        0 => 1,
                        1 => 2,
                        2 => rng.range(200, 255) as usize,
                        _ => rng.range(1, 40) as usize,
                    }
                    .min(nl)
                    .min(255);
                    let mut set = BTreeSet::new();
                    let clustered = rng.chance(1, 2);
                    let base = rng.below(nl as u64) as usize;
                    while set.len() < k {
                        let v = if clustered { (base + rng.below((4 * k) as u64) as usize) % nl } else { rng.below(nl as u64) as usize };
                        set.insert(v);
                    }
                    let mut idxs: Vec<usize> = set.into_iter().collect();
                    if rng.chance(1, 2) {
                        shuffle(rng, &mut idxs);
                    }
                    let is = fmt_idxs(&idxs);
                    emit(format!("batch {} {} {} {} none", h, depth, seed, is));
                    emit(format!("paths {} {} {} {} none", h, depth, seed, is));
                    if c % 8 == 0 {
                        emit(format!("ser {} {} {} {} none", h, depth, seed, is));
                    }
                    let lens = match lens_of(depth as u32, &idxs) {
                        Some(l) => l,
                        None => continue,
                    };
                    let muts = all_muts(&idxs, &lens, depth, nl);
                    let nm = if toy { 6 } else { 2 };
                    for _ in 0..nm {
                        emit(format!("batch {} {} {} {} {}", h, depth, seed, is, rng.pick(&muts)));
                    }
                    emit(format!("paths {} {} {} {} {}", h, depth, seed, is, rng.pick(&muts)));
                    let idx = idxs[0];
                    emit(format!("single {} {} {} {} none", h, depth, seed, idx));
                    let sm = all_single_muts(idx, depth, false);
                    for _ in 0..3 {
                        emit(format!("single {} {} {} {} {}", h, depth, seed, idx, rng.pick(&sm)));
                    }
                }
                if toy || h == "blake3_256" {
                    // more than 255 positions
                    if nl >= 256 {
                        let idxs: Vec<usize> = (0..256).collect();
                        emit(format!("batch {} {} {} {} none", h, depth, seed, fmt_idxs(&idxs)));
                        let idxs: Vec<usize> = (0..255).map(|i| (i * 2) % nl + (i * 2) / nl).collect();
                        emit(format!("batch {} {} {} {} none", h, depth, seed, fmt_idxs(&idxs)));
                        emit(format!("batch {} {} {} {} addidx {}", h, depth, seed, fmt_idxs(&idxs), nl - 1));
                        emit(format!("paths {} {} {} {} addidx {}", h, depth, seed, fmt_idxs(&idxs), nl - 1));
                        let is255 = fmt_idxs(&idxs);
                        for m in ["addidxn 1", "addidxn 2", "addidxn 257", "addleaf 1", "addleaf 2", "addleaf 256", "dropidxn 254", "addnode 0 255",
                            "addnode 0 256", "addnode 254 256", "addnode 0 65536"]
                        {
                            emit(format!("batch {} {} {} {} {}", h, depth, seed, is255, m));
                        }
                        emit(format!("from {} {} {} {} none", h, depth, seed, is255));
                        emit(format!("ser {} {} {} {} none", h, depth, seed, is255));
                        emit(format!("ser {} {} {} {} rows 256", h, depth, seed, is255));
                        let idxs: Vec<usize> = (0..257).collect();
                        emit(format!("batch {} {} {} {} none", h, depth, seed, fmt_idxs(&idxs)));
                        emit(format!("from {} {} {} 0 many 257", h, depth, seed));
                        // positions around one-byte / two-byte widths inside the tree
                        for v in [254usize, 255, 256, 257, nl - 1] {
                            if v < nl {
                                emit(format!("batch {} {} {} {},{} none", h, depth, seed, v, v ^ 1));
                                emit(format!("batch {} {} {} 0,{} idx 1 {}", h, depth, seed, v, (v + 256) % nl));
                                emit(format!("single {} {} {} {} none", h, depth, seed, v));
                            }
                        }
                    }
                }
            }
        }
        // malformed op stream
        for l in ["", "batch", "batch toy", "batch toy 0 1 0 none", "batch toy 3 1 0,x none", "batch toy 3 1 0 leaf 9", "single toy 3 1 0 node 9",
            "batch toy 3 1 0,1 node 0 0", "paths toy 3 1 0 frob", "new toy x 1", "frob toy 1 1", "batch nohash 3 1 0 none", "single toy 14 1 0 none",
            "batch toy 3 1 0 idx 0 0", "tree toy 3 1:frob", "tree toy 3 1:run.7.2", "tree toy 3 x", "batch toy 3 1:one.9 0 none", "batch toy 3 1 0 depth 3", "ser toy 3 1 0 cut 999"]
        {
            emit(l.to_string());
        }
    }
}

impl Prop for P {
    fn id(&self) -> &'static str {
        "C10"
    }
    fn gen(&self, rng: &mut Rng, tier: Tier, n: usize, emit_out: &mut dyn FnMut(String)) {
        // lines are buffered and emitted with a stride so that every worker's contiguous chunk
        // gets the same mix of cheap and expensive cases
        let mut buf: Vec<String> = vec![];
        {
            let emit = &mut |l: String| buf.push(l);
            self.gen_lines(rng, tier, n, emit);
        }
        let stride = 61;
        for r in 0..stride {
            let mut i = r;
            while i < buf.len() {
                emit_out(std::mem::take(&mut buf[i]));
                i += stride;
            }
        }
    }

    fn exec(&self, line: &str) -> Outcome {
        let t: Vec<&str> = line.split(' ').filter(|s| !s.is_empty()).collect();
        if t.len() < 2 {
            return Outcome::ok("bad-op");
        }
        let (op, h, rest) = (t[0], t[1], &t[2..]);
        match h {
            "toy" => exec_h::<Toy>(op, rest),
            "blake3_256" => exec_h::<Blake3_256<f128::BaseElement>>(op, rest),
            "blake3_192" => exec_h::<Blake3_192<f128::BaseElement>>(op, rest),
            "sha3_256" => exec_h::<Sha3_256<f128::BaseElement>>(op, rest),
            "rp64_256" => exec_h::<Rp64_256>(op, rest),
            "rpjive64_256" => exec_h::<RpJive64_256>(op, rest),
            "rp62_248" => exec_h::<Rp62_248>(op, rest),
            _ => Outcome::ok("bad-op"),
        }
    }
    fn timeout_ms(&self) -> u64 {
        20_000
    }
    fn class(&self, line: &str, out: &str) -> String {
        let t: Vec<&str> = line.split(' ').collect();
        let op = t.first().copied().unwrap_or("");
        let m = if op == "single" { t.get(5) } else if op == "new" { None } else { t.get(5) };
        let verdict = if out == "bad-op" || out == "panic" || out == "hang" || out == "abort" {
            out.to_string()
        } else if let Some(p) = out.find("verify=") {
            out[p + 7..].split(' ').next().unwrap_or("").to_string()
        } else if out.starts_with("prove=err") || out.starts_with("err") {
            out.split(' ').next().unwrap_or("").to_string()
        } else if let Some(p) = out.find("into=") {
            out[p..].split(' ').next().unwrap_or("").to_string()
        } else {
            "ok".into()
        };
        format!("{}.{}:{}", op, m.copied().unwrap_or("-"), verdict)
    }
    fn panic_site(&self, line: &str) -> Option<String> {
        let t: Vec<&str> = line.split(' ').collect();
        Some(format!("{}.{}.uncaught-panic", t.get(1).unwrap_or(&""), t.first().unwrap_or(&"")))
    }
    fn rule(&self) -> &'static str {
        "every tree of 2..16 leaves x every non-empty position subset (all orders for small sets) with the unmodified opening and with \
         single-element (leaf, node, position, depth) and shape (missing/extra node, row, leaf, position; duplicated, out-of-range, aliased \
         positions; swapped order) mutations, every single path with every element/position/length mutation, sampled trees of depth 5..12 \
         with clustered and scattered position sets of 1..255 positions; leaf patterns for every tree size (all-equal, every run of equal \
         leaves at even and odd starts, alternating, interleaved pairs, one distinct leaf, equal halves, leaves equal to internal nodes): root, \
         every prove path and the batch openings of all subsets against the naive recursive hash; surplus / missing counts 1, 2, 254..257, 511..513, \
         65535, 65536 of nodes, leaves and positions, positions around 2^8/2^16/2^32/2^63, depths 62..65, 255/256/257 positions, rows and \
         row lengths in serialize_nodes/deserialize, from_paths on the single prove paths with every documented precondition violated; over a toy 64-bit hasher (compared with the \
         Lean model) and the six real hashers (oracle only); a case is non-trivial when it is a distinct op line that is not answered bad-op"
    }
    fn nontrivial(&self, _line: &str, out: &str) -> bool {
        out != "bad-op"
    }
}

fn main() {
    wf_harness::core::main_for(&P);
}
