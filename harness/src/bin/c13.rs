//! C13: the streaming byte reader (`ReadAdapter`) is equivalent to the in-memory reader (`SliceReader`).
//!
//! One op line = one whole history:
//!
//!     <hex of the stream> <chunking> <op;op;...>
//!
//! chunking: `c<k>` (every inner read returns k bytes) or `l:<s1>,<s2>,...` (sizes used cyclically; a size
//! of 0 is an `Ok(0)` read although data follows).  Reads are additionally capped by the buffer the
//! `BufReader` hands in (256 bytes) and by the end of the data; the rest of a capped chunk is returned by the
//! next read.
//!
//! ops: `u8` `pk` `s<n>` (read_slice) `a<n>` (read_array::<n>) `b` (read_bool) `u16` `u32` `u64` `u128` `us`
//! (read_usize) `v<n>` (read_vec) `t<n>` (read_string) `m<ty>:<n>` (read_many::<ty>, ty ∈ u8 u16 u32 u64 u128 us)
//! `e<n>` (check_eor) `h` (has_more_bytes) `d` (drain: read_u8 until the first error, at most len+8 times).
//!
//! output: the result of every op, separated by `;` (integers decimal, byte strings lower-case hex, `-` for
//! empty, `true`/`false`, `ok`, errors `eof` / `err` (InvalidValue) / `unk`; `panic` ends the history).
//!
//! Oracle (independent of the Lean model): `SliceReader` over the whole stream, which is what the property
//! names as the reference, cross-checked against a 40-line pure function on the byte slice.
#![allow(dead_code, unused_variables, unused_imports, unused_mut)]
use std::cell::Cell;
use std::rc::Rc;
use wf_harness::core::*;
use winter_utils::{ByteReader, ByteWriter, DeserializationError, ReadAdapter, SliceReader};

pub struct P;

// ------------------------------------------------------------------------------------ allocator
/// counts the bytes requested from the allocator: no reader may reserve memory for a count it has merely been told
/// (same judgement as c06.rs / c12.rs)
struct Counting;
static CUR: std::sync::atomic::AtomicUsize = std::sync::atomic::AtomicUsize::new(0);
static PEAK: std::sync::atomic::AtomicUsize = std::sync::atomic::AtomicUsize::new(0);
fn note_add(n: usize) {
    use std::sync::atomic::Ordering::Relaxed;
    let c = CUR.fetch_add(n, Relaxed) + n;
    PEAK.fetch_max(c, Relaxed);
}
unsafe impl std::alloc::GlobalAlloc for Counting {
    unsafe fn alloc(&self, l: std::alloc::Layout) -> *mut u8 {
        let p = std::alloc::System.alloc(l);
        if !p.is_null() {
            note_add(l.size());
        }
        p
    }
    unsafe fn alloc_zeroed(&self, l: std::alloc::Layout) -> *mut u8 {
        let p = std::alloc::System.alloc_zeroed(l);
        if !p.is_null() {
            note_add(l.size());
        }
        p
    }
    unsafe fn dealloc(&self, p: *mut u8, l: std::alloc::Layout) {
        std::alloc::System.dealloc(p, l);
        CUR.fetch_sub(l.size(), std::sync::atomic::Ordering::Relaxed);
    }
    unsafe fn realloc(&self, p: *mut u8, l: std::alloc::Layout, new: usize) -> *mut u8 {
        let q = std::alloc::System.realloc(p, l, new);
        if !q.is_null() {
            if new >= l.size() {
                note_add(new - l.size());
            } else {
                CUR.fetch_sub(l.size() - new, std::sync::atomic::Ordering::Relaxed);
            }
        }
        q
    }
}
#[global_allocator]
static GLOBAL: Counting = Counting;

/// run `f`, return its result and the peak growth of live heap bytes while it ran
fn measured<T>(f: impl FnOnce() -> T) -> (T, usize) {
    use std::sync::atomic::Ordering::Relaxed;
    let base = CUR.load(Relaxed);
    PEAK.store(base, Relaxed);
    let r = f();
    (r, PEAK.load(Relaxed).saturating_sub(base))
}
/// heap one reader call may request on a stream of this many bytes (the canonical output string of the call is
/// allocated inside the measurement: a few bytes per stream byte)
fn alloc_limit(stream_len: usize) -> usize {
    (64usize << 20).min(1000 * stream_len + (1 << 20))
}

// ------------------------------------------------------------------------------------ source
/// a `std::io::Read` that hands out the data in the prescribed chunks
struct ChunkSrc {
    data: Vec<u8>,
    off: usize,
    sizes: Vec<usize>,
    idx: usize,
    left: usize,
    /// the source has returned `Ok(0)` at least once
    zero_seen: Rc<Cell<bool>>,
    /// the source has returned `Ok(0)` although data was left (a source that breaks the `Read` contract)
    premature: Rc<Cell<bool>>,
}

impl std::io::Read for ChunkSrc {
    fn read(&mut self, buf: &mut [u8]) -> std::io::Result<usize> {
        if self.off >= self.data.len() {
            self.zero_seen.set(true);
            return Ok(0);
        }
        if self.left == 0 {
            let s = self.sizes[self.idx % self.sizes.len()];
            self.idx += 1;
            if s == 0 {
                self.zero_seen.set(true);
                self.premature.set(true);
                return Ok(0);
            }
            self.left = s;
        }
        let n = self.left.min(buf.len()).min(self.data.len() - self.off);
        buf[..n].copy_from_slice(&self.data[self.off..self.off + n]);
        self.off += n;
        self.left -= n;
        Ok(n)
    }
}

fn parse_chunks(spec: &str) -> Option<Vec<usize>> {
    let v: Vec<usize> = if let Some(k) = spec.strip_prefix('c') {
        vec![k.parse().ok()?]
    } else if let Some(l) = spec.strip_prefix("l:") {
        l.split(',').map(|x| x.parse().ok()).collect::<Option<Vec<usize>>>()?
    } else {
        return None;
    };
    if v.is_empty() || v.iter().all(|x| *x == 0) {
        return None;
    }
    Some(v)
}

/// number of bytes delivered before the first `Ok(0)` read (the whole stream when there is none)
fn prefix_before_zero(len: usize, sizes: &[usize]) -> usize {
    if !sizes.contains(&0) {
        return len;
    }
    let mut sum = 0usize;
    for s in sizes {
        if *s == 0 || sum >= len {
            break;
        }
        sum += s;
    }
    sum.min(len)
}

// ------------------------------------------------------------------------------------ ops
#[derive(Clone, Debug, PartialEq)]
enum Op {
    U8,
    Peek,
    Slice(usize),
    Array(usize),
    Bool,
    U16,
    U32,
    U64,
    U128,
    Usize,
    Vec(usize),
    Str(usize),
    Many(&'static str, usize),
    /// `ByteReader::read::<D>()`
    Read(&'static str),
    Eor(usize),
    More,
    Drain,
}

const ARRAY_SIZES: [usize; 26] =
    [0, 1, 2, 3, 4, 5, 6, 7, 8, 9, 15, 16, 17, 31, 32, 33, 64, 100, 255, 256, 257, 258, 300, 512, 513, 600];
const MANY_TYPES: [&str; 9] = ["u8", "u16", "u32", "u64", "u128", "us", "unit", "opt", "pair"];
/// `read_many::<()>` loops `n` times without consuming anything: keep `n` finite
const MAX_UNIT: usize = 100_000;

fn parse_op(s: &str) -> Option<Op> {
    let num = |t: &str| t.parse::<usize>().ok();
    Some(match s {
        "u8" => Op::U8,
        "pk" => Op::Peek,
        "b" => Op::Bool,
        "u16" => Op::U16,
        "u32" => Op::U32,
        "u64" => Op::U64,
        "u128" => Op::U128,
        "us" => Op::Usize,
        "h" => Op::More,
        "d" => Op::Drain,
        _ => {
            if let Some(r) = s.strip_prefix('m') {
                let (ty, n) = r.split_once(':')?;
                let ty = MANY_TYPES.iter().find(|t| **t == ty)?;
                let n = num(n)?;
                if *ty == "unit" && n > MAX_UNIT {
                    return None;
                }
                Op::Many(ty, n)
            } else if let Some(r) = s.strip_prefix('r') {
                Op::Read(MANY_TYPES.iter().find(|t| **t == r)?)
            } else if let Some(r) = s.strip_prefix('s') {
                Op::Slice(num(r)?)
            } else if let Some(r) = s.strip_prefix('a') {
                let n = num(r)?;
                if !ARRAY_SIZES.contains(&n) {
                    return None;
                }
                Op::Array(n)
            } else if let Some(r) = s.strip_prefix('v') {
                Op::Vec(num(r)?)
            } else if let Some(r) = s.strip_prefix('t') {
                Op::Str(num(r)?)
            } else if let Some(r) = s.strip_prefix('e') {
                Op::Eor(num(r)?)
            } else {
                return None;
            }
        },
    })
}

fn op_str(op: &Op) -> String {
    match op {
        Op::U8 => "u8".into(),
        Op::Peek => "pk".into(),
        Op::Slice(n) => format!("s{}", n),
        Op::Array(n) => format!("a{}", n),
        Op::Bool => "b".into(),
        Op::U16 => "u16".into(),
        Op::U32 => "u32".into(),
        Op::U64 => "u64".into(),
        Op::U128 => "u128".into(),
        Op::Usize => "us".into(),
        Op::Vec(n) => format!("v{}", n),
        Op::Str(n) => format!("t{}", n),
        Op::Many(t, n) => format!("m{}:{}", t, n),
        Op::Read(t) => format!("r{}", t),
        Op::Eor(n) => format!("e{}", n),
        Op::More => "h".into(),
        Op::Drain => "d".into(),
    }
}

fn op_name(op: &Op) -> &'static str {
    match op {
        Op::U8 => "read_u8",
        Op::Peek => "peek_u8",
        Op::Slice(_) => "read_slice",
        Op::Array(_) => "read_array",
        Op::Bool => "read_bool",
        Op::U16 => "read_u16",
        Op::U32 => "read_u32",
        Op::U64 => "read_u64",
        Op::U128 => "read_u128",
        Op::Usize => "read_usize",
        Op::Vec(_) => "read_vec",
        Op::Str(_) => "read_string",
        Op::Many(_, _) => "read_many",
        Op::Read(_) => "read",
        Op::Eor(_) => "check_eor",
        Op::More => "has_more_bytes",
        Op::Drain => "drain",
    }
}

fn err_str(e: &DeserializationError) -> String {
    match e {
        DeserializationError::UnexpectedEOF => "eof".into(),
        DeserializationError::InvalidValue(_) => "err".into(),
        _ => "unk".into(),
    }
}

fn res<T>(r: Result<T, DeserializationError>, f: impl FnOnce(T) -> String) -> String {
    match r {
        Ok(v) => f(v),
        Err(e) => err_str(&e),
    }
}

fn list<T: ToString>(v: Vec<T>) -> String {
    if v.is_empty() {
        "-".into()
    } else {
        v.iter().map(|x| x.to_string()).collect::<Vec<_>>().join(",")
    }
}

fn read_array_dyn<R: ByteReader>(r: &mut R, n: usize) -> String {
    macro_rules! arms {
        ($($k:literal),*) => {
            match n {
                $($k => res(r.read_array::<$k>(), |a| hex(&a)),)*
                _ => "bad-op".into(),
            }
        };
    }
    arms!(0, 1, 2, 3, 4, 5, 6, 7, 8, 9, 15, 16, 17, 31, 32, 33, 64, 100, 255, 256, 257, 258, 300, 512, 513, 600)
}

/// `None` -> 0, `Some(v)` -> v + 1
fn enc_opt(v: &Option<u8>) -> u64 {
    match v {
        None => 0,
        Some(b) => *b as u64 + 1,
    }
}

/// `(a, b)` -> a * 65536 + b
fn enc_pair(v: &(u8, u16)) -> u64 {
    v.0 as u64 * 65536 + v.1 as u64
}

/// the same canonicalisation for every `ByteReader`
fn apply<R: ByteReader>(r: &mut R, op: &Op, limit: usize) -> String {
    match op {
        Op::U8 => res(r.read_u8(), |v| v.to_string()),
        Op::Peek => res(r.peek_u8(), |v| v.to_string()),
        Op::Slice(n) => res(r.read_slice(*n), |v| hex(v)),
        Op::Array(n) => read_array_dyn(r, *n),
        Op::Bool => res(r.read_bool(), |v| v.to_string()),
        Op::U16 => res(r.read_u16(), |v| v.to_string()),
        Op::U32 => res(r.read_u32(), |v| v.to_string()),
        Op::U64 => res(r.read_u64(), |v| v.to_string()),
        Op::U128 => res(r.read_u128(), |v| v.to_string()),
        Op::Usize => res(r.read_usize(), |v| v.to_string()),
        Op::Vec(n) => res(r.read_vec(*n), |v| hex(&v)),
        Op::Str(n) => res(r.read_string(*n), |v| hex(v.as_bytes())),
        Op::Many(t, n) => match *t {
            "u8" => res(r.read_many::<u8>(*n), list),
            "u16" => res(r.read_many::<u16>(*n), list),
            "u32" => res(r.read_many::<u32>(*n), list),
            "u64" => res(r.read_many::<u64>(*n), list),
            "u128" => res(r.read_many::<u128>(*n), list),
            "us" => res(r.read_many::<usize>(*n), list),
            "unit" => res(r.read_many::<()>(*n), |v| list(v.iter().map(|_| 0u8).collect())),
            "opt" => res(r.read_many::<Option<u8>>(*n), |v| list(v.iter().map(enc_opt).collect())),
            _ => res(r.read_many::<(u8, u16)>(*n), |v| list(v.iter().map(enc_pair).collect())),
        },
        Op::Read(t) => match *t {
            "u8" => res(r.read::<u8>(), |v| v.to_string()),
            "u16" => res(r.read::<u16>(), |v| v.to_string()),
            "u32" => res(r.read::<u32>(), |v| v.to_string()),
            "u64" => res(r.read::<u64>(), |v| v.to_string()),
            "u128" => res(r.read::<u128>(), |v| v.to_string()),
            "us" => res(r.read::<usize>(), |v| v.to_string()),
            "unit" => res(r.read::<()>(), |_| "0".into()),
            "opt" => res(r.read::<Option<u8>>(), |v| enc_opt(&v).to_string()),
            _ => res(r.read::<(u8, u16)>(), |v| enc_pair(&v).to_string()),
        },
        Op::Eor(n) => res(r.check_eor(*n), |_| "ok".into()),
        Op::More => r.has_more_bytes().to_string(),
        Op::Drain => {
            let mut got = vec![];
            for _ in 0..limit {
                match r.read_u8() {
                    Ok(b) => got.push(b),
                    Err(_) => break,
                }
            }
            hex(&got)
        },
    }
}

// ------------------------------------------------------------------------------------ pure oracle
/// what the property means by "the in-memory reader on the same bytes", written directly on the slice
fn pure_step(data: &[u8], pos: &mut usize, op: &Op, limit: usize) -> String {
    let rem = data.len() - *pos;
    let take = |pos: &mut usize, n: usize| -> Option<Vec<u8>> {
        if data.len() - *pos < n {
            None
        } else {
            let v = data[*pos..*pos + n].to_vec();
            *pos += n;
            Some(v)
        }
    };
    let le = |v: &[u8]| -> u128 { v.iter().rev().fold(0u128, |a, b| (a << 8) | *b as u128) };
    let int = |pos: &mut usize, n: usize| -> String {
        match take(pos, n) {
            Some(v) => le(&v).to_string(),
            None => "eof".into(),
        }
    };
    let usize_ = |pos: &mut usize| -> String {
        if data.len() == *pos {
            return "eof".into();
        }
        let len = data[*pos].trailing_zeros() as usize + 1;
        if len == 9 {
            *pos += 1;
            match take(pos, 8) {
                Some(v) => le(&v).to_string(),
                None => "eof".into(),
            }
        } else {
            match take(pos, len) {
                Some(v) => (le(&v) >> len).to_string(),
                None => "eof".into(),
            }
        }
    };
    let elem = |pos: &mut usize, t: &str| -> String {
        match t {
            "u8" => int(pos, 1),
            "u16" => int(pos, 2),
            "u32" => int(pos, 4),
            "u64" => int(pos, 8),
            "u128" => int(pos, 16),
            "us" => usize_(pos),
            "unit" => "0".into(),
            "opt" => match take(pos, 1) {
                None => "eof".into(),
                Some(f) if f[0] == 0 => "0".into(),
                Some(f) if f[0] == 1 => match take(pos, 1) {
                    Some(v) => (v[0] as u64 + 1).to_string(),
                    None => "eof".into(),
                },
                Some(_) => "err".into(),
            },
            _ => match take(pos, 1) {
                None => "eof".into(),
                Some(a) => match take(pos, 2) {
                    Some(b) => (a[0] as u64 * 65536 + le(&b) as u64).to_string(),
                    None => "eof".into(),
                },
            },
        }
    };
    match op {
        Op::U8 => int(pos, 1),
        Op::Peek => {
            if rem == 0 {
                "eof".into()
            } else {
                data[*pos].to_string()
            }
        },
        Op::Slice(n) | Op::Array(n) | Op::Vec(n) => match take(pos, *n) {
            Some(v) => hex(&v),
            None => "eof".into(),
        },
        Op::Bool => match take(pos, 1) {
            Some(v) if v[0] == 0 => "false".into(),
            Some(v) if v[0] == 1 => "true".into(),
            Some(_) => "err".into(),
            None => "eof".into(),
        },
        Op::U16 => int(pos, 2),
        Op::U32 => int(pos, 4),
        Op::U64 => int(pos, 8),
        Op::U128 => int(pos, 16),
        Op::Usize => usize_(pos),
        Op::Str(n) => match take(pos, *n) {
            Some(v) => {
                if std::str::from_utf8(&v).is_ok() {
                    hex(&v)
                } else {
                    "err".into()
                }
            },
            None => "eof".into(),
        },
        Op::Many(t, n) => {
            let mut out = vec![];
            for _ in 0..*n {
                let r = elem(pos, t);
                if r == "eof" || r == "err" {
                    return r;
                }
                out.push(r);
            }
            list(out)
        },
        Op::Read(t) => elem(pos, t),
        Op::Eor(n) => {
            if rem >= *n {
                "ok".into()
            } else {
                "eof".into()
            }
        },
        Op::More => (rem > 0).to_string(),
        Op::Drain => {
            let n = rem.min(limit);
            let v = data[*pos..*pos + n].to_vec();
            *pos += n;
            hex(&v)
        },
    }
}

// ------------------------------------------------------------------------------------ exec
fn run_line(line: &str) -> Outcome {
    let t: Vec<&str> = line.split(' ').collect();
    if t.len() != 3 {
        return Outcome::ok("bad-op");
    }
    if t[0] != "-" && (t[0].len() % 2 != 0 || !t[0].bytes().all(|c| c.is_ascii_hexdigit())) {
        return Outcome::ok("bad-op");
    }
    let data = unhex(t[0]);
    let sizes = match parse_chunks(t[1]) {
        Some(s) => s,
        None => return Outcome::ok("bad-op"),
    };
    let ops: Option<Vec<Op>> = t[2].split(';').map(parse_op).collect();
    let ops = match ops {
        Some(o) => o,
        None => return Outcome::ok("bad-op"),
    };
    let limit = data.len() + 8;
    let zero_seen = Rc::new(Cell::new(false));
    let premature = Rc::new(Cell::new(false));
    let mut src = ChunkSrc {
        data: data.clone(),
        off: 0,
        sizes: sizes.clone(),
        idx: 0,
        left: 0,
        zero_seen: zero_seen.clone(),
        premature: premature.clone(),
    };
    let mut adapter = ReadAdapter::new(&mut src);
    // the reference: the in-memory reader over the bytes the source delivers before it first signals the end
    let visible = &data[..prefix_before_zero(data.len(), &sizes)];
    let mut slice = SliceReader::new(visible);
    // the other in-memory reader the crate offers (`impl ByteReader for std::io::Cursor`)
    let mut cursor = std::io::Cursor::new(visible.to_vec());
    let mut cursor_ok = true;
    let mut ppos = 0usize;

    let mut outs: Vec<String> = vec![];
    let mut o = Outcome::default();
    let mut judging = true;
    let mut slice_ok = true;
    for op in &ops {
        // a source that has answered Ok(0) although data follows has left the `Read` contract: from then
        // on the adapter is only compared with the model, not judged
        if premature.get() {
            judging = false;
        }
        let (got, growth) = measured(|| guarded(|| apply(&mut adapter, op, limit)));
        if growth > alloc_limit(data.len()) && judging {
            o = o.fail(
                format!("adapter.{}.alloc", op_name(op)),
                format!("op `{}` on a stream of {} bytes requested {} bytes of heap (limit {})", op_str(op), data.len(), growth, alloc_limit(data.len())),
            );
        }
        let got = match got {
            Ok(s) => s,
            Err(info) => {
                outs.push("panic".into());
                if judging {
                    o = o.fail(format!("adapter.{}.panic", op_name(op)), format!("op `{}` panicked: {}", op_str(op), info));
                }
                break;
            },
        };
        outs.push(got.clone());
        if !judging {
            continue;
        }
        let want = pure_step(visible, &mut ppos, op, limit);
        if slice_ok {
            let (r, growth) = measured(|| guarded(|| apply(&mut slice, op, limit)));
            if growth > alloc_limit(data.len()) {
                o = o.fail(format!("slice.{}.alloc", op_name(op)), format!("op `{}` on {} bytes requested {} bytes of heap", op_str(op), data.len(), growth));
            }
            match r {
                Ok(s) if s == want => {},
                Ok(s) => {
                    slice_ok = false;
                    o = o.fail(
                        format!("slice.{}.value", op_name(op)),
                        format!("SliceReader returned {} on `{}` where the bytes say {}", s, op_str(op), want),
                    );
                },
                Err(info) => {
                    slice_ok = false;
                    o = o.fail(format!("slice.{}.panic", op_name(op)), format!("SliceReader panicked on `{}`: {}", op_str(op), info));
                },
            }
        }
        if cursor_ok {
            let (r, growth) = measured(|| guarded(|| apply(&mut cursor, op, limit)));
            if growth > alloc_limit(data.len()) {
                o = o.fail(format!("cursor.{}.alloc", op_name(op)), format!("op `{}` on {} bytes requested {} bytes of heap", op_str(op), data.len(), growth));
            }
            match r {
                Ok(s) if s == want => {},
                Ok(s) => {
                    cursor_ok = false;
                    o = o.fail(
                        format!("cursor.{}.value", op_name(op)),
                        format!("Cursor returned {} on `{}` where the bytes say {}", s, op_str(op), want),
                    );
                },
                Err(info) => {
                    cursor_ok = false;
                    o = o.fail(format!("cursor.{}.panic", op_name(op)), format!("Cursor panicked on `{}`: {}", op_str(op), info));
                },
            }
        }
        if got == want {
            continue;
        }
        if let Op::Eor(n) = op {
            if got == "ok" {
                // optimistic answer: allowed only while the end of the stream has not been observed
                if zero_seen.get() {
                    o = o.fail(
                        "adapter.check_eor.optimistic-after-eof",
                        format!("check_eor({}) = ok with fewer bytes left although the source has already reported its end", n),
                    );
                    judging = false;
                }
                continue;
            }
        }
        let kind = if got == "eof" {
            "spurious-eof"
        } else if want == "eof" {
            "missed-eof"
        } else {
            "value"
        };
        o = o.fail(
            format!("adapter.{}.{}", op_name(op), kind),
            format!("op #{} `{}` returned {} but the in-memory reader returns {}", outs.len(), op_str(op), trunc(&got), trunc(&want)),
        );
        // the two readers have diverged; later differences are consequences
        judging = false;
    }
    o.out = outs.join(";");
    if o.out == "-" {
        // a lone "-" is the comparison's marker for "not modelled"
        o.out = "-;".into();
    }
    o
}

fn trunc(s: &str) -> String {
    if s.len() > 48 {
        format!("{}..({} chars)", &s[..48], s.len())
    } else {
        s.to_string()
    }
}

// ------------------------------------------------------------------------------------ generators
fn vint(v: u64) -> Vec<u8> {
    let mut w: Vec<u8> = vec![];
    w.write_usize(v as usize);
    w
}

/// a value of each vint64 length 1..9
fn usize_of_len(rng: &mut Rng, len: usize) -> u64 {
    match len {
        1 => rng.below(1 << 7),
        9 => (1u64 << 56) + rng.below(u64::MAX - (1u64 << 56)),
        k => {
            let lo = 1u64 << (7 * (k - 1));
            let hi = (1u64 << (7 * k)) - 1;
            rng.range(lo, hi)
        },
    }
}

fn utf8_string(rng: &mut Rng, approx: usize) -> Vec<u8> {
    let mut s = String::new();
    while s.len() < approx {
        let c = match rng.below(4) {
            0 => rng.range(0x20, 0x7e) as u32,
            1 => rng.range(0x80, 0x7ff) as u32,
            2 => rng.range(0x800, 0xd7ff) as u32,
            _ => rng.range(0x10000, 0x10ffff) as u32,
        };
        if let Some(ch) = char::from_u32(c) {
            s.push(ch);
        }
    }
    s.into_bytes()
}

fn pick_chunking(rng: &mut Rng, len: usize) -> String {
    match rng.below(16) {
        0 | 1 | 2 => "c1".into(),
        3 => "c2".into(),
        4 => "c3".into(),
        5 => "c7".into(),
        6 => "c255".into(),
        7 => "c256".into(),
        8 => "c257".into(),
        9 => format!("c{}", len.max(1) + rng.below(3) as usize),
        10 | 11 | 12 => {
            // random sizes, small ones more likely, some straddling the 256-byte buffer
            let k = rng.range(1, 12) as usize;
            let v: Vec<String> = (0..k)
                .map(|_| {
                    (match rng.below(10) {
                        0..=4 => rng.range(1, 9),
                        5 | 6 => rng.range(10, 80),
                        7 => rng.range(250, 262),
                        8 => rng.range(81, 600),
                        _ => 1,
                    })
                    .to_string()
                })
                .collect();
            format!("l:{}", v.join(","))
        },
        13 => format!("l:{},{}", rng.range(1, 300), 1),
        _ => {
            // 0-size reads: at the very end only (equivalent to the end of the stream) or in the middle
            let k = rng.range(1, 6) as usize;
            let mut v: Vec<u64> = (0..k).map(|_| if rng.chance(1, 3) { rng.range(200, 300) } else { rng.range(1, 40) }).collect();
            let at = rng.below(v.len() as u64 + 1) as usize;
            v.insert(at, 0);
            format!("l:{}", v.iter().map(|x| x.to_string()).collect::<Vec<_>>().join(","))
        },
    }
}

const LENS: [usize; 22] = [0, 1, 2, 3, 7, 8, 15, 16, 17, 100, 254, 255, 256, 257, 258, 300, 511, 512, 513, 600, 699, 700];

fn rand_n(rng: &mut Rng, rem: usize) -> usize {
    if rng.chance(1, 40) {
        // lengths no stream can satisfy, up to the largest usize
        return *rng.pick(&[usize::MAX, usize::MAX - 1, usize::MAX - rem, 1 << 63, (1 << 32) + 1, 100_000]);
    }
    match rng.below(10) {
        0 => 0,
        1 | 2 => rng.range(1, 4) as usize,
        3 | 4 => rng.range(1, 40) as usize,
        5 => rng.range(250, 262) as usize,
        6 => rem,
        7 => rem + 1,
        8 => rem.saturating_sub(rng.range(1, 3) as usize),
        _ => rng.range(0, 720) as usize,
    }
}

fn rand_op(rng: &mut Rng, rem: usize) -> Op {
    match rng.below(32) {
        0 | 1 | 2 => Op::U8,
        3 | 4 => Op::Peek,
        5 | 6 | 7 | 8 => Op::Slice(rand_n(rng, rem)),
        9 | 10 | 11 => {
            let want = rand_n(rng, rem).min(1000);
            // nearest supported array size
            let n = *ARRAY_SIZES.iter().min_by_key(|k| (**k as i64 - want as i64).abs()).unwrap();
            Op::Array(n)
        },
        12 => Op::Bool,
        13 | 14 => Op::U16,
        15 | 16 => Op::U32,
        17 | 18 => Op::U64,
        19 => Op::U128,
        20 | 21 => Op::Usize,
        22 | 23 => Op::Vec(rand_n(rng, rem)),
        24 => Op::Str(rand_n(rng, rem).min(60)),
        25 => Op::Many(*rng.pick(&MANY_TYPES), rng.range(0, 9) as usize),
        26 => {
            if rng.chance(1, 2) {
                Op::Read(*rng.pick(&MANY_TYPES))
            } else {
                let t = *rng.pick(&MANY_TYPES);
                let n = rand_n(rng, rem);
                Op::Many(t, if t == "unit" { n.min(700) } else { n })
            }
        },
        27 | 28 | 29 => {
            let n = match rng.below(7) {
                6 => rand_n(rng, rem),
                0 => rem,
                1 => rem + 1,
                2 => rem.saturating_sub(1),
                3 => rem + rng.range(2, 300) as usize,
                4 => rng.range(0, 8) as usize,
                _ => rng.range(0, rem as u64 + 1) as usize,
            };
            Op::Eor(n)
        },
        _ => Op::More,
    }
}

/// random ops over a given stream; the generator tracks the position with the pure oracle so that sizes
/// can be chosen around the number of bytes left
fn random_history(rng: &mut Rng, data: &[u8], nops: usize) -> Vec<Op> {
    let mut pos = 0usize;
    let mut ops = vec![];
    for _ in 0..nops {
        let op = rand_op(rng, data.len() - pos);
        pure_step(data, &mut pos, &op, data.len() + 8);
        ops.push(op);
    }
    ops
}

/// a stream written with `ByteWriter` from typed values, and the ops that read it back
fn typed_history(rng: &mut Rng, max_len: usize, nops: usize) -> (Vec<u8>, Vec<Op>) {
    let mut data: Vec<u8> = vec![];
    let mut ops = vec![];
    for _ in 0..nops {
        if data.len() >= max_len {
            break;
        }
        match rng.below(14) {
            0 => {
                data.write_u8(rng.u64() as u8);
                ops.push(if rng.chance(1, 3) { Op::Array(1) } else { Op::U8 });
            },
            1 => {
                data.write_bool(rng.chance(1, 2));
                ops.push(Op::Bool);
            },
            2 => {
                data.write_u16(rng.u64() as u16);
                ops.push(if rng.chance(1, 4) { Op::Array(2) } else { Op::U16 });
            },
            3 => {
                data.write_u32(rng.u64() as u32);
                ops.push(if rng.chance(1, 4) { Op::Array(4) } else { Op::U32 });
            },
            4 => {
                data.write_u64(rng.u64());
                ops.push(if rng.chance(1, 4) { Op::Array(8) } else { Op::U64 });
            },
            5 => {
                data.write_u128(rng.u128());
                ops.push(if rng.chance(1, 4) { Op::Array(16) } else { Op::U128 });
            },
            6 | 7 => {
                let len = rng.range(1, 9) as usize;
                data.write_usize(usize_of_len(rng, len) as usize);
                ops.push(Op::Usize);
            },
            8 => {
                // length-prefixed byte vector
                let n = *rng.pick(&[0usize, 1, 2, 5, 17, 40, 130, 255, 256, 257, 300]);
                data.write_usize(n);
                data.write_bytes(&rng.bytes(n));
                ops.push(Op::Usize);
                ops.push(if rng.chance(1, 2) { Op::Vec(n) } else { Op::Slice(n) });
            },
            9 => {
                let want = rng.range(0, 40) as usize;
                let s = utf8_string(rng, want);
                data.write_bytes(&s);
                ops.push(Op::Str(s.len()));
            },
            10 => {
                let ty = *rng.pick(&MANY_TYPES);
                let n = rng.range(0, 8) as usize;
                for _ in 0..n {
                    match ty {
                        "u8" => data.write_u8(rng.u64() as u8),
                        "u16" => data.write_u16(rng.u64() as u16),
                        "u32" => data.write_u32(rng.u64() as u32),
                        "u64" => data.write_u64(rng.u64()),
                        "u128" => data.write_u128(rng.u128()),
                        _ => {
                            let len = rng.range(1, 9) as usize;
                            data.write_usize(usize_of_len(rng, len) as usize)
                        },
                    }
                }
                ops.push(Op::Many(ty, n));
            },
            11 => {
                let n = *rng.pick(&[3usize, 5, 9, 17, 33, 64, 100, 255, 256, 257, 300]);
                data.write_bytes(&rng.bytes(n));
                ops.push(Op::Array(n));
            },
            12 => ops.push(if rng.chance(1, 2) { Op::Peek } else { Op::More }),
            _ => {
                let n = rng.range(0, 20) as usize;
                ops.push(Op::Eor(n));
            },
        }
    }
    (data, ops)
}

/// structured streams: constant bytes, runs, alternations, a single non-zero byte, ...
fn styled_data(rng: &mut Rng, len: usize) -> Vec<u8> {
    match rng.below(10) {
        0 => vec![0u8; len],                      // read_usize sees the 9-byte form everywhere, bools false
        1 => vec![0xffu8; len],
        2 => vec![1u8; len],                      // 1-byte vint 0, bool true, Some(1)
        3 => vec![0x80u8; len],                   // 8-byte vints
        4 => (0..len).map(|i| if i % 2 == 0 { 0 } else { 0xff }).collect(),
        5 => (0..len).map(|i| if i % 2 == 0 { 1 } else { 0 }).collect(),
        6 => {
            let mut v = vec![0u8; len];
            if len > 0 {
                let at = rng.below(len as u64) as usize;
                v[at] = rng.range(1, 255) as u8;
            }
            v
        },
        7 => {
            // runs of a repeated byte starting at even and odd offsets
            let mut v = vec![];
            while v.len() < len {
                let b = *rng.pick(&[0u8, 1, 2, 0x40, 0x80, 0xc3, 0xff]);
                let run = rng.range(1, 9) as usize;
                v.extend(std::iter::repeat(b).take(run));
            }
            v.truncate(len);
            v
        },
        8 => (0..len).map(|i| (i % 251) as u8).collect(),
        _ => {
            let p = rng.range(2, 5) as usize;
            let pat = rng.bytes(p);
            (0..len).map(|i| pat[i % p]).collect()
        },
    }
}

fn nearest_array(n: usize) -> usize {
    *ARRAY_SIZES.iter().min_by_key(|k| (**k as i64 - n.min(10_000) as i64).abs()).unwrap()
}

/// all the ways the ops can ask for exactly `n` bytes
fn reads_of(n: usize) -> Vec<Op> {
    let mut v = vec![Op::Slice(n), Op::Vec(n), Op::Many("u8", n)];
    if ARRAY_SIZES.contains(&n) {
        v.push(Op::Array(n));
    }
    match n {
        1 => v.extend([Op::U8, Op::Read("u8")]),
        2 => v.extend([Op::U16, Op::Read("u16")]),
        3 => v.push(Op::Read("pair")),
        4 => v.extend([Op::U32, Op::Many("u16", 2)]),
        8 => v.extend([Op::U64, Op::Many("u32", 2), Op::Read("u64")]),
        16 => v.extend([Op::U128, Op::Many("u64", 2)]),
        32 => v.push(Op::Many("u128", 2)),
        _ => {},
    }
    v
}

/// Histories aimed at the comparisons of `ReadAdapter`: every pair of quantities the code distinguishes
/// (unread bytes `n` in `buf`, bytes `m` in the BufReader buffer, requested count `N`, chunk size, the
/// 256-byte capacity, the compaction threshold `pos >= 16`, the position of the end of the stream) is put
/// exactly on, just below and just above each other.
fn targeted(rng: &mut Rng, emit: &mut dyn FnMut(String)) {
    // --- (n, m, N): `n >= N`, `m + n >= N`, `buf.len() < N`, `buffer().len() >= count`
    for &nn in &[2usize, 3, 4, 5, 8, 9, 16, 17, 32, 33] {
        let mut ns = vec![0usize, 1, 2, nn / 2, nn - 2, nn - 1, nn, nn + 1];
        ns.sort();
        ns.dedup();
        for &n in &ns {
            for dm in [-1i64, 0, 1, 2, 7] {
                let m = nn as i64 - n as i64 + dm;
                if m < 1 {
                    continue;
                }
                let m = m as usize;
                // first read leaves `n` unread bytes in `buf` (n = 0: nothing is buffered), the next inner
                // read returns `m` bytes, then single bytes / one big chunk follow
                for tail in [1usize, 300] {
                    let (pre, first): (Vec<Op>, usize) = if n == 0 { (vec![], 0) } else { (vec![Op::Slice(1)], n + 1) };
                    let chunking = if first == 0 { format!("l:{},{}", m, tail) } else { format!("l:{},{},{}", first, m, tail) };
                    // the stream ends exactly after the request, one byte earlier, or later
                    for extra in [-1i64, 0, 7] {
                        let len = (pre.len() + nn) as i64 + extra;
                        let data = rng.bytes(len as usize);
                        for r in reads_of(nn) {
                        let look: Vec<Op> = match rng.below(5) {
                            0 => vec![Op::Eor(nn)],
                            1 => vec![Op::Peek],
                            2 => vec![Op::More, Op::Eor(nn + 1)],
                            3 => vec![Op::Eor(nn - 1), Op::Eor(n), Op::Eor(n + m), Op::Eor(n + m + 1)],
                            _ => vec![],
                        };
                        let mut ops = pre.clone();
                        ops.extend(look);
                        ops.push(r);
                        ops.extend([Op::Eor(1), Op::More, Op::Peek, Op::Drain, Op::More]);
                        emit_line(emit, &data, &chunking, &ops);
                        }
                    }
                }
            }
        }
    }
    // --- chunk size k against N with nothing buffered: k = N-1, N, N+1, at stream offsets 0 and 1
    for &nn in &[2usize, 4, 8, 9, 16, 17, 255, 256, 257] {
        for k in [nn - 1, nn, nn + 1] {
            for off in [0usize, 1] {
                let data = rng.bytes(2 * nn + off + 3);
                for r in reads_of(nn) {
                    let mut ops = vec![];
                    if off == 1 {
                        ops.push(Op::U8);
                    }
                    ops.extend([r.clone(), Op::Eor(nn), r.clone(), Op::Drain]);
                    emit_line(emit, &data, &format!("c{}", k), &ops);
                }
            }
        }
    }
    // --- compaction threshold: `pos` = 15, 16, 17 (and more) consumed bytes at the front of `buf`, then a
    //     read_slice that does / does not fit the remaining capacity, with few / >= 256 unread bytes
    let prefixes: [(&[Op], usize); 6] = [
        (&[Op::Slice(1), Op::Array(9), Op::Array(5)], 15),
        (&[Op::Slice(1), Op::Array(15)], 16),
        (&[Op::Slice(2), Op::Array(15)], 17),
        (&[Op::Slice(16)], 16),
        (&[Op::Slice(17), Op::U8, Op::U8], 19),
        (&[Op::Slice(1), Op::Array(31), Op::Usize], 33),
    ];
    for chunk in ["c20", "c100", "c256", "l:300,1,256", "c1", "c7"] {
        for (pre, _) in prefixes.iter() {
            for n2 in [1usize, 2, 30, 100, 238, 239, 240, 255, 256, 257, 300, 600] {
                let data = if rng.chance(1, 3) { styled_data(rng, 900) } else { rng.bytes(900) };
                let mut ops: Vec<Op> = pre.to_vec();
                ops.push(Op::Slice(n2));
                let n3 = *rng.pick(&[1usize, 17, 100, 256, 257, 300]);
                ops.extend([Op::Peek, Op::Vec(n3), Op::U16, Op::Slice(n2), Op::Drain]);
                emit_line(emit, &data, chunk, &ops);
            }
        }
    }
    // --- state carried across a failed call: an over-long read buffers everything and sets guaranteed_eof
    for len in [0usize, 1, 2, 5, 17, 255, 256, 257, 300] {
        for ch in FIXED {
            let data = rng.bytes(len);
            let fails: Vec<Op> = vec![
                Op::Slice(len + 1),
                Op::Vec(len + 300),
                Op::Str(len + 1),
                Op::Array(*ARRAY_SIZES.iter().find(|k| **k > len).unwrap_or(&600)),
                Op::Many("u64", len / 8 + 1),
                Op::Many("us", len + 1),
                Op::U128,
                Op::Slice(usize::MAX),
            ];
            for f in fails {
                let k = if len == 0 { 0 } else { rng.below(len as u64) as usize };
                let follow: Vec<Op> = vec![
                    Op::More,
                    Op::Peek,
                    Op::Eor(0),
                    Op::Eor(1),
                    Op::Eor(len),
                    Op::Eor(len + 1),
                    Op::Slice(k),
                    Op::Eor(len - k),
                    Op::Eor(len - k + 1),
                    Op::More,
                    Op::U8,
                    Op::Peek,
                    Op::Slice(len.saturating_sub(k + 1)),
                    Op::More,
                    Op::Peek,
                    Op::Eor(1),
                    Op::U8,
                    Op::Slice(0),
                    Op::Array(0),
                    Op::Drain,
                    Op::More,
                ];
                let mut ops = vec![f];
                // a random sub-sequence, order kept
                for o in follow {
                    if rng.chance(2, 3) {
                        ops.push(o);
                    }
                }
                emit_line(emit, &data, ch, &ops);
            }
        }
    }
    // --- the exact end of the stream: everything read by one call, then every op at the end, twice
    for len in [1usize, 2, 4, 8, 16, 17, 255, 256, 257, 512] {
        for ch in ["c1", "c3", "c255", "c256", "c257", "c100000", "l:5,0", "l:256,0,7"] {
            let data = rng.bytes(len);
            for r in reads_of(len) {
                let tail = [
                    Op::More,
                    Op::Peek,
                    Op::Eor(0),
                    Op::Eor(1),
                    Op::U8,
                    Op::Slice(0),
                    Op::Slice(1),
                    Op::Array(0),
                    Op::Array(1),
                    Op::Usize,
                    Op::Bool,
                    Op::Many("unit", 3),
                    Op::Many("u8", 0),
                    Op::Read("opt"),
                ];
                let mut ops = vec![r];
                for _ in 0..2 {
                    for o in tail.iter() {
                        if rng.chance(1, 2) {
                            ops.push(o.clone());
                        }
                    }
                }
                ops.push(Op::Drain);
                emit_line(emit, &data, ch, &ops);
            }
        }
    }
    // --- the 256-byte BufReader: read sizes 254..258 at offsets 0..2 under chunks around 256
    for ch in ["c255", "c256", "c257", "c1", "c100000", "l:256,1", "l:1,256", "l:255,2"] {
        for off in [0usize, 1, 2] {
            for n in [254usize, 255, 256, 257, 258] {
                let dl = *rng.pick(&[off + n, off + n + 1, 2 * n + off, 700]);
                let data = rng.bytes(dl);
                let mut ops = vec![];
                for _ in 0..off {
                    ops.push(Op::U8);
                }
                let r = if ARRAY_SIZES.contains(&n) && rng.chance(1, 2) { Op::Array(n) } else { Op::Slice(n) };
                ops.extend([Op::Eor(n), r.clone(), Op::More, r, Op::Drain]);
                emit_line(emit, &data, ch, &ops);
            }
        }
    }
    // --- zero-width and composite element types, counts against the number of bytes left
    for len in [0usize, 1, 3, 6, 40] {
        for ch in ["c1", "c2", "c100000"] {
            for t in ["unit", "opt", "pair"] {
                for n in [0usize, 1, 2, len, len + 1, 300] {
                    let data = if t == "opt" { styled_data(rng, len).iter().map(|b| b % 3).collect() } else { rng.bytes(len) };
                    emit_line(emit, &data, ch, &[Op::Many(t, n), Op::More, Op::Read(t), Op::Many(t, 1), Op::Drain]);
                }
            }
        }
    }
}

/// streams beyond 2^16 bytes: lengths past the one- and two-byte prefixes, and `read_many` counts on, below
/// and above its pre-allocation cap of 2^16 bytes (65536 / size_of::<D>() elements)
fn big_streams(rng: &mut Rng, tier: Tier, emit: &mut dyn FnMut(String)) {
    let len = 66_000usize;
    let random = rng.bytes(len);
    let zeros = vec![0u8; len]; // `None`, false, 9-byte vints
    let ones = vec![1u8; len]; // 1-byte vints
    let caps: [(&str, usize, &Vec<u8>); 9] = [
        ("u8", 65536, &random),
        ("u16", 32768, &random),
        ("u32", 16384, &random),
        ("u64", 8192, &random),
        ("u128", 4096, &random),
        ("us", 8192, &ones),
        ("unit", 65536, &random),
        ("opt", 32768, &zeros),
        ("pair", 16384, &random),
    ];
    let chunkings: &[&str] = if tier == Tier::Quick { &["c256", "l:300,7"] } else { &["c256", "l:300,7", "c255", "c100000", "l:1,257"] };
    for (t, cap, data) in caps.iter() {
        for ch in chunkings {
            for n in [cap - 1, *cap, cap + 1, cap + 2, cap + 100] {
                emit_line(emit, data, ch, &[Op::U8, Op::Many(t, n), Op::More, Op::Eor(1), Op::U16]);
            }
        }
    }
    for ch in chunkings {
        for n in [65535usize, 65536, 65537, 65999] {
            emit_line(emit, &random, ch, &[Op::Slice(n), Op::Peek, Op::Eor(len - n), Op::Eor(len - n + 1), Op::Vec(len - n), Op::More]);
            emit_line(emit, &random, ch, &[Op::U8, Op::Vec(n), Op::U32, Op::Slice(len), Op::More, Op::U8]);
        }
    }
}

/// `read_many` (and the other count-taking calls) with counts no stream can satisfy, 2^16 + 1 .. usize::MAX, issued while
/// the adapter has not yet seen the end of the stream (first call, or after one buffered byte) and after it has, on
/// streams whose tail after the call is 0, 1, 255, 256, 257 or 1000 bytes, for every element type and every kind of
/// chunking: the three readers must give the same error and none may reserve memory for the count (`*.alloc`; the
/// workers run under an address-space cap, so a full reservation aborts the worker)
fn huge_counts(rng: &mut Rng, emit: &mut dyn FnMut(String)) {
    let counts: [usize; 17] = [
        (1 << 16) + 1,
        1 << 20,
        1 << 24,
        1 << 28,
        (1 << 31) - 1,
        1 << 31,
        (1 << 32) - 1,
        1 << 32,
        (1 << 32) + 1,
        1 << 62,
        (1 << 63) - 1,
        1 << 63,
        (1 << 63) + 1,
        usize::MAX / 16,
        usize::MAX / 8 + 1,
        usize::MAX - 1,
        usize::MAX,
    ];
    let tails = [0usize, 1, 255, 256, 257, 1000];
    let chunkings = ["c1", "c7", "c256", "c100000", "l:300,1", "l:255,2"];
    let mut k = 0usize;
    for t in MANY_TYPES.iter().filter(|t| **t != "unit") {
        for (ci, n) in counts.iter().enumerate() {
            for (ti, tl) in tails.iter().enumerate() {
                k += 1;
                // zeros parse as elements of every type (`None`, 9-byte vints); random bytes end `opt` / `us` early
                let data = if k % 3 == 0 { vec![0u8; *tl + 1] } else { rng.bytes(*tl + 1) };
                for (hi, ch) in chunkings.iter().enumerate() {
                    // every count under two of the chunkings, the largest ones under all
                    if ci < 13 && (k + hi) % 3 != 0 {
                        continue;
                    }
                    // first call of the history
                    emit_line(emit, &data[1..], ch, &[Op::Many(t, *n), Op::More, Op::Eor(1), Op::Drain]);
                    if (k + hi) % 2 == 0 {
                        // after a buffered byte, with a look-ahead that an optimistic reader answers `ok`
                        emit_line(emit, &data, ch, &[Op::U8, Op::Eor(*n), Op::Many(t, *n), Op::More, Op::Drain]);
                    } else {
                        // after the end of the stream has been observed by a failed read
                        emit_line(emit, &data, ch, &[Op::Slice(data.len() + 1), Op::Many(t, *n), Op::Many(t, *n), Op::Drain]);
                    }
                }
            }
        }
    }
    // the other count-taking calls on the same counts
    for n in counts.iter() {
        for tl in [0usize, 1, 256, 1000] {
            let data = rng.bytes(tl);
            for ch in ["c1", "c256", "c100000"] {
                emit_line(emit, &data, ch, &[Op::Eor(*n), Op::Vec(*n), Op::More, Op::Str(*n), Op::Slice(*n), Op::Drain]);
            }
        }
    }
}

fn emit_line(emit: &mut dyn FnMut(String), data: &[u8], chunking: &str, ops: &[Op]) {
    let o: Vec<String> = ops.iter().map(op_str).collect();
    emit(format!("{} {} {}", hex(data), chunking, o.join(";")));
}

const FIXED: [&str; 8] = ["c1", "c2", "c3", "c7", "c255", "c256", "c257", "c100000"];

impl Prop for P {
    fn id(&self) -> &'static str {
        "C13"
    }

    fn gen(&self, rng: &mut Rng, tier: Tier, n: usize, emit: &mut dyn FnMut(String)) {
        let n = default_n(tier, 20_000, 200_000, n);
        // --- boundary product: one operation (twice, then a drain) x chunking x stream length
        let singles: Vec<Op> = vec![
            Op::U8,
            Op::Peek,
            Op::Bool,
            Op::U16,
            Op::U32,
            Op::U64,
            Op::U128,
            Op::Usize,
            Op::Slice(0),
            Op::Slice(1),
            Op::Slice(4),
            Op::Slice(10),
            Op::Slice(255),
            Op::Slice(256),
            Op::Slice(257),
            Op::Array(0),
            Op::Array(2),
            Op::Array(9),
            Op::Array(256),
            Op::Array(257),
            Op::Vec(17),
            Op::Str(5),
            Op::Many("u16", 3),
            Op::Many("us", 2),
            Op::Eor(1),
            Op::More,
        ];
        for len in [0usize, 1, 3, 20, 256, 300, 600] {
            let data = rng.bytes(len);
            for ch in FIXED {
                for op in &singles {
                    emit_line(emit, &data, ch, &[op.clone(), op.clone(), Op::Eor(1), Op::Drain]);
                }
            }
        }
        // --- every vint64 length, all-1-byte chunks and others, alone and after a buffered read
        for len in 1..=9usize {
            for ch in ["c1", "c2", "c3", "c256"] {
                let v = usize_of_len(rng, len);
                let mut data = vint(v);
                data.extend(rng.bytes(3));
                emit_line(emit, &data, ch, &[Op::Usize, Op::Drain]);
                let mut d2 = vec![7u8, 8];
                d2.extend(vint(v));
                d2.extend(vint(v));
                emit_line(emit, &d2, ch, &[Op::Slice(2), Op::Usize, Op::Peek, Op::Usize, Op::More, Op::Drain]);
            }
        }
        targeted(rng, emit);
        big_streams(rng, tier, emit);
        huge_counts(rng, emit);
        // --- random histories
        for i in 0..n {
            let nops = rng.range(1, 40) as usize;
            let (data, mut ops) = match i % 4 {
                0 | 1 => {
                    let len = if rng.chance(1, 3) { *rng.pick(&LENS) } else { rng.range(0, 700) as usize };
                    let mut data = if rng.chance(1, 5) { styled_data(rng, len) } else { rng.bytes(len) };
                    // sprinkle bytes that make read_bool / read_usize / read_string interesting
                    for b in data.iter_mut() {
                        if rng.chance(1, 4) {
                            *b = *rng.pick(&[0u8, 1, 1, 2, 0x80, 0x40, 0x20, 0x10, 0x08, 0x04, 0x03, 0x41, 0x7f, 0xc3, 0xa9, 0xff]);
                        }
                    }
                    let ops = random_history(rng, &data, nops);
                    (data, ops)
                },
                2 => {
                    let (mut data, mut ops) = typed_history(rng, 700, nops);
                    if rng.chance(1, 2) {
                        // cut the stream short: the tail of the history runs into the end
                        let cut = rng.below(data.len() as u64 + 1) as usize;
                        data.truncate(cut);
                    }
                    (data, ops)
                },
                _ => {
                    // typed prefix, random tail (reads past the end, look-ahead around the end)
                    let (mut data, mut ops) = typed_history(rng, 500, nops / 2 + 1);
                    let extra = rng.range(0, 200) as usize;
                    data.extend(rng.bytes(extra));
                    let mut pos = 0;
                    for op in &ops {
                        pure_step(&data, &mut pos, op, data.len() + 8);
                    }
                    let tail = random_history(rng, &data[pos..], nops / 2 + 1);
                    ops.extend(tail);
                    (data, ops)
                },
            };
            if rng.chance(1, 6) {
                // a look-ahead before every call
                let mut with: Vec<Op> = vec![];
                let mut pos = 0;
                for op in ops.drain(..) {
                    let rem = data.len() - pos;
                    with.push(match rng.below(4) {
                        0 => Op::Peek,
                        1 => Op::More,
                        2 => Op::Eor(rem.min(rng.range(0, 20) as usize)),
                        _ => Op::Eor(rem + rng.below(2) as usize),
                    });
                    pure_step(&data, &mut pos, &op, data.len() + 8);
                    with.push(op);
                }
                ops = with;
            }
            if rng.chance(3, 4) {
                ops.push(Op::Drain);
                if rng.chance(1, 2) {
                    ops.push(if rng.chance(1, 2) { Op::More } else { Op::Eor(1) });
                }
            }
            // the same history under one or two chunkings
            let ch = pick_chunking(rng, data.len());
            emit_line(emit, &data, &ch, &ops);
            if rng.chance(1, 2) {
                let ch2 = pick_chunking(rng, data.len());
                if ch2 != ch {
                    emit_line(emit, &data, &ch2, &ops);
                }
            }
        }
        // --- malformed lines
        emit("zz c1 u8".into());
        emit("00 c0 u8".into());
        emit("00 l:0,0 u8".into());
        emit("00 c1 q".into());
    }

    fn exec(&self, line: &str) -> Outcome {
        run_line(line)
    }

    fn timeout_ms(&self) -> u64 {
        5000
    }

    /// address-space cap of a worker: a reader that reserves an untrusted count aborts the worker, not the machine
    fn mem_cap(&self) -> u64 {
        2 << 30
    }

    fn panic_site(&self, _line: &str) -> Option<String> {
        Some("adapter.history.panic".into())
    }

    fn nontrivial(&self, line: &str, out: &str) -> bool {
        // at least one byte in the stream and at least one op that returned a value
        !line.starts_with('-') && out != "bad-op" && out.split(';').any(|r| r != "eof" && r != "panic")
    }

    fn class(&self, line: &str, out: &str) -> String {
        let t: Vec<&str> = line.split(' ').collect();
        if t.len() != 3 || out == "bad-op" {
            return "malformed".into();
        }
        let len = if t[0] == "-" { 0 } else { t[0].len() / 2 };
        let lb = match len {
            0 => "0",
            1..=16 => "1-16",
            17..=255 => "17-255",
            256..=257 => "256-257",
            258..=512 => "258-512",
            _ => "513+",
        };
        let ch = if t[1].starts_with('c') {
            match t[1] {
                "c1" | "c2" | "c3" | "c7" | "c255" | "c256" | "c257" => t[1].to_string(),
                _ => "c-whole".to_string(),
            }
        } else if t[1].split(&[':', ','][..]).any(|x| x == "0") {
            "list-with-0".to_string()
        } else {
            "list".to_string()
        };
        let nops = t[2].split(';').count();
        let nb = match nops {
            0..=4 => "1-4",
            5..=15 => "5-15",
            _ => "16+",
        };
        let res = if out.contains("panic") {
            "panic"
        } else if out.split(';').any(|r| r == "eof") {
            if out.split(';').any(|r| r == "err") {
                "eof+err"
            } else {
                "eof"
            }
        } else if out.split(';').any(|r| r == "err") {
            "err"
        } else {
            "all-ok"
        };
        format!("chunks={} len={} ops={} result={}", ch, lb, nb, res)
    }

    fn rule(&self) -> &'static str {
        "one case = one whole history (stream, chunking of the source, op sequence of up to 41 ops); streams of 0..700 bytes \
         (random, ByteWriter-encoded typed values incl. every vint64 length, valid and invalid UTF-8, truncated), chunkings \
         all-1-byte, fixed 2/3/7/255/256/257, whole-stream, random size lists, lists with Ok(0) reads; every return value of \
         ReadAdapter is compared with SliceReader on the same bytes (and with a pure function on the slice); plus targeted grids putting unread-buffer length, BufReader-buffer length, \
         requested count, chunk size, 256, the compaction threshold and the end of the stream on / below / above each other, streams of 66000 bytes \
         with read_many counts around its 2^16-byte pre-allocation cap, zero-width and composite element types, histories continued after failed calls; a case is \
         non-trivial when the stream is non-empty and at least one op returns a value; distinct by hash of the op line"
    }
}

fn main() {
    wf_harness::core::main_for(&P);
}
