//! C17: the committed constraint composition polynomial equals its definition.
//!
//! Op lines (the computation descriptions are `AirDesc` lines of wf_harness::genair):
//!
//!   def <field> <ext> <lde blowup> <data> <AirDesc>
//!       PROVER SIDE, real code: `GenericAir::new` → `StarkDomain::new` → `DefaultTraceLde::new`
//!       (+ `set_aux_trace`) → composition coefficients through `Air::get_constraint_composition_coefficients`
//!       with a scripted coin → `DefaultConstraintEvaluator::new(..).evaluate(..)` → `CompositionPoly::new`
//!       → `evaluate_at(x)` for every point x.  VERIFIER SIDE at the same x: the frame
//!       `TracePolyTable::get_ood_frame(x)` pushed through the public pieces `evaluate_constraints` is
//!       made of (`TransitionConstraints::combine_evaluations`, `BoundaryConstraintGroup::evaluate_at`,
//!       periodic polynomials, Lagrange kernel constraints).
//!       <data> = `s<seed>.<npoints>` (everything derived from the seed) or the explicit form
//!       `xT<main trace>/A<aux trace>/R<aux rands>/L<lagrange rands>/C<coefficients>/P<points>`
//!       (columns separated by `|`, elements by `,`, extension components by `:`; canonical decimals).
//!       output: `k=<columns> <H_0(x),…,H_{k-1}(x);C(x);V(x)> …` one group per point, `C(x) = Σ x^{i·n} H_i(x)`,
//!       V(x) the verifier's expression; `dom` for a point of the trace domain (the definition is a
//!       quotient there); `invalid` when the trace does not satisfy the description; `bad-op`.
//!       The Lean driver computes the same line from the model (definition + prover pipeline + verifier
//!       expression) for explicit data (base fields and extensions, no Lagrange kernel column) and
//!       answers `-` otherwise.
//!   deft <field> <ext> <blowup> <data> <AirDesc>
//!       the same with the domain built by the second public constructor `StarkDomain::from_twiddles`
//!       (needs lde blowup = ce blowup); same output, same model line.
//!   ood <field> <q.b.g.x.f.r> <seed> <AirDesc>
//!       a real proof (`GenericProver` with a recording coin), the real `verify`; z and all coefficients
//!       are what the verifier's coin produced; the proof's OOD frame and OOD constraint evaluations
//!       are compared with the oracle.  output `ok k=<columns>` | `prove-err` | `verify-err:<kind>` …
//!
//! INDEPENDENT ORACLE (this file; modular arithmetic on u128 written here, extension fields as
//! polynomials modulo the documented irreducibles, no Winterfell arithmetic): the definition
//!   C(x) = Σ_j α_j·T_j(frame(x)) / Z_T(x) + Σ_i β_i·(t_{col_i}(x) − v_i(x)) / Z_i(x) [+ Lagrange kernel terms]
//! evaluated directly at x: trace column polynomials by the barycentric interpolation formula on the
//! trace values, constraint `Expr` trees on (t_j(x), t_j(x·g)), periodic values by interpolating one
//! cycle at x^{n/len}, divisors and assertion value polynomials from their definitions, coefficients
//! assigned in the library's documented order (transition: main then aux; boundary: main then aux, each
//! sorted by (stride, first step, column)).
#![allow(dead_code, unused_variables, unused_imports, unused_mut, clippy::too_many_arguments, clippy::type_complexity)]
use std::cell::RefCell;
use std::collections::VecDeque;
use std::marker::PhantomData;
use std::sync::Arc;

use wf_harness::core::*;
use wf_harness::fields::*;
use wf_harness::genair::*;
use winter_air::{
    proof::Proof, Air, AuxRandElements, ConstraintCompositionCoefficients, EvaluationFrame, FieldExtension,
    LagrangeKernelRandElements, ProofOptions,
};
use winter_crypto::{hashers::Blake3_256, DefaultRandomCoin, Digest, ElementHasher, Hasher, RandomCoin, RandomCoinError};
use winter_math::{
    fields::{f128, f62, f64, CubeExtension, QuadExtension},
    polynom, FieldElement, StarkField,
};
use winter_prover::{
    matrix::ColMatrix, CompositionPoly, ConstraintEvaluator, DefaultConstraintEvaluator, DefaultTraceLde, Prover,
    StarkDomain, TraceLde, TracePolyTable,
};
use winter_verifier::AcceptableOptions;

pub struct P;

// ================================================================================================
// ORACLE ARITHMETIC (independent of the library)
// ================================================================================================
/// (a * b) mod m for a, b < m <= 2^128: 256-bit schoolbook product, then bitwise reduction
fn mm(a: u128, b: u128, m: u128) -> u128 {
    if m <= 1u128 << 64 {
        return (a * b) % m;
    }
    let (a1, a0) = (a >> 64, a & 0xFFFF_FFFF_FFFF_FFFF);
    let (b1, b0) = (b >> 64, b & 0xFFFF_FFFF_FFFF_FFFF);
    let ll = a0 * b0;
    let lh = a0 * b1;
    let hl = a1 * b0;
    let hh = a1 * b1;
    // lo = ll + ((lh + hl) << 64), hi = hh + ((lh + hl) >> 64) + carries
    let (mid, c_mid) = lh.overflowing_add(hl);
    let (lo, c_lo) = ll.overflowing_add(mid << 64);
    let hi = hh + (mid >> 64) + ((c_mid as u128) << 64) + c_lo as u128;
    let mut r = hi % m;
    for i in (0..128).rev() {
        let carry = r >> 127;
        r = (r << 1) | ((lo >> i) & 1);
        if carry == 1 || r >= m {
            r = r.wrapping_sub(m);
        }
    }
    r
}

fn am(a: u128, b: u128, m: u128) -> u128 {
    let (s, o) = a.overflowing_add(b);
    if o || s >= m {
        s.wrapping_sub(m)
    } else {
        s
    }
}

fn sm(a: u128, b: u128, m: u128) -> u128 {
    if a >= b {
        a - b
    } else {
        m - (b - a)
    }
}

fn pm(a: u128, mut e: u128, m: u128) -> u128 {
    let mut b = a % m;
    let mut r = 1 % m;
    while e > 0 {
        if e & 1 == 1 {
            r = mm(r, b, m);
        }
        b = mm(b, b, m);
        e >>= 1;
    }
    r
}

/// element of the base field (k = 1) or of its degree-k extension: coefficients of 1, φ, φ²
#[derive(Clone, Copy, PartialEq, Eq, Debug)]
struct OE([u128; 3]);

/// F_p[φ] / (φ^k + irr[k-1] φ^{k-1} + … + irr[0])
#[derive(Clone, Copy, Debug)]
struct OF {
    p: u128,
    k: usize,
    irr: [u128; 3],
}

impl OF {
    /// the documented irreducibles (math/src/field/{f64,f62,f128}/mod.rs)
    fn new(field: FieldId, ext: u8) -> Option<OF> {
        let p = field.modulus();
        let irr = match (field, ext) {
            (_, 1) => [0, 0, 0],
            (FieldId::F64, 2) => [2, p - 1, 0],          // x^2 - x + 2
            (FieldId::F64, 3) => [p - 1, p - 1, 0],      // x^3 - x - 1
            (FieldId::F62, 2) => [p - 1, p - 1, 0],      // x^2 - x - 1
            (FieldId::F62, 3) => [2, 2, 0],              // x^3 + 2x + 2
            (FieldId::F128, 2) => [p - 1, p - 1, 0],     // x^2 - x - 1
            _ => return None,
        };
        Some(OF { p, k: ext as usize, irr })
    }
    fn zero(&self) -> OE {
        OE([0; 3])
    }
    fn one(&self) -> OE {
        OE([1, 0, 0])
    }
    fn base(&self, v: u128) -> OE {
        OE([v % self.p, 0, 0])
    }
    fn add(&self, a: OE, b: OE) -> OE {
        OE([am(a.0[0], b.0[0], self.p), am(a.0[1], b.0[1], self.p), am(a.0[2], b.0[2], self.p)])
    }
    fn sub(&self, a: OE, b: OE) -> OE {
        OE([sm(a.0[0], b.0[0], self.p), sm(a.0[1], b.0[1], self.p), sm(a.0[2], b.0[2], self.p)])
    }
    fn neg(&self, a: OE) -> OE {
        self.sub(self.zero(), a)
    }
    fn mul(&self, a: OE, b: OE) -> OE {
        let (p, k) = (self.p, self.k);
        if k == 1 {
            return OE([mm(a.0[0], b.0[0], p), 0, 0]);
        }
        let mut t = [0u128; 5];
        for i in 0..k {
            for j in 0..k {
                t[i + j] = am(t[i + j], mm(a.0[i], b.0[j], p), p);
            }
        }
        for d in (k..2 * k - 1).rev() {
            let c = t[d];
            t[d] = 0;
            for j in 0..k {
                t[d - k + j] = sm(t[d - k + j], mm(c, self.irr[j], p), p);
            }
        }
        OE([t[0], t[1], t[2]])
    }
    fn is_zero(&self, a: OE) -> bool {
        a.0 == [0; 3]
    }
    /// multiplicative inverse by solving the k×k linear system (a · b = 1); None for a = 0
    fn inv(&self, a: OE) -> Option<OE> {
        let (p, k) = (self.p, self.k);
        if self.is_zero(a) {
            return None;
        }
        if k == 1 {
            return Some(OE([pm(a.0[0], p - 2, p), 0, 0]));
        }
        // column j of M = coefficients of a · φ^j
        let mut m = [[0u128; 4]; 3];
        let mut col = a;
        let mut phi = self.zero();
        phi.0[1] = 1;
        for j in 0..k {
            for i in 0..k {
                m[i][j] = col.0[i];
            }
            col = self.mul(col, phi);
        }
        m[0][k] = 1;
        for c in 0..k {
            let piv = (c..k).find(|r| m[*r][c] != 0)?;
            m.swap(c, piv);
            let iv = pm(m[c][c], p - 2, p);
            for j in 0..=k {
                m[c][j] = mm(m[c][j], iv, p);
            }
            for r in 0..k {
                if r != c && m[r][c] != 0 {
                    let f = m[r][c];
                    for j in 0..=k {
                        m[r][j] = sm(m[r][j], mm(f, m[c][j], p), p);
                    }
                }
            }
        }
        Some(OE([m[0][k], if k > 1 { m[1][k] } else { 0 }, if k > 2 { m[2][k] } else { 0 }]))
    }
    fn div(&self, a: OE, b: OE) -> Option<OE> {
        Some(self.mul(a, self.inv(b)?))
    }
    fn pow(&self, a: OE, mut e: u128) -> OE {
        let mut b = a;
        let mut r = self.one();
        while e > 0 {
            if e & 1 == 1 {
                r = self.mul(r, b);
            }
            b = self.mul(b, b);
            e >>= 1;
        }
        r
    }
    fn fmt(&self, a: OE) -> String {
        (0..self.k).map(|i| a.0[i].to_string()).collect::<Vec<_>>().join(":")
    }
    fn parse(&self, s: &str) -> Option<OE> {
        let c: Vec<&str> = s.split(':').collect();
        if c.len() != self.k {
            return None;
        }
        let mut o = [0u128; 3];
        for (i, x) in c.iter().enumerate() {
            let v = x.parse::<u128>().ok()?;
            if v >= self.p {
                return None;
            }
            o[i] = v;
        }
        Some(OE(o))
    }
}

/// value at `y` of the polynomial of degree < m with P(h^i) = vals[i], h of exact order m = vals.len()
/// (barycentric formula: P(y) = (y^m - 1)/m · Σ_i vals[i]·h^i / (y - h^i)); None when y^m = 1
fn bary(f: &OF, vals: &[OE], h: u128, y: OE) -> Option<OE> {
    let m = vals.len();
    let ym = f.pow(y, m as u128);
    if ym == f.one() {
        return None;
    }
    // d_i = y - h^i, inverted with one inversion
    let mut hs = Vec::with_capacity(m);
    let mut d = Vec::with_capacity(m);
    let mut hp = 1u128;
    for _ in 0..m {
        hs.push(hp);
        d.push(f.sub(y, f.base(hp)));
        hp = mm(hp, h, f.p);
    }
    let mut pre = Vec::with_capacity(m);
    let mut acc = f.one();
    for di in &d {
        pre.push(acc);
        acc = f.mul(acc, *di);
    }
    let mut inv_acc = f.inv(acc)?;
    let mut sum = f.zero();
    for i in (0..m).rev() {
        let inv_i = f.mul(inv_acc, pre[i]);
        inv_acc = f.mul(inv_acc, d[i]);
        sum = f.add(sum, f.mul(f.mul(vals[i], f.base(hs[i])), inv_i));
    }
    let minv = f.base(pm(m as u128 % f.p, f.p - 2, f.p));
    Some(f.mul(f.mul(f.sub(ym, f.one()), minv), sum))
}

struct OEnv<'a> {
    cur: &'a [OE],
    nxt: &'a [OE],
    per: &'a [OE],
    acur: &'a [OE],
    anxt: &'a [OE],
    rand: &'a [OE],
    pubs: &'a [u128],
    seq: usize,
}

/// the oracle's own evaluator of constraint expressions
fn oeval(f: &OF, e: &Expr, env: &OEnv) -> OE {
    match e {
        Expr::Const(v) => f.base(*v),
        Expr::Cur(i) => env.cur[*i],
        Expr::Nxt(i) => env.nxt[*i],
        Expr::Per(i) => env.per[*i],
        Expr::AuxCur(i) => env.acur[*i],
        Expr::AuxNxt(i) => env.anxt[*i],
        Expr::Rand(i) => env.rand[*i],
        Expr::Pub(i) => f.base(env.pubs.get(*i).copied().unwrap_or(0)),
        Expr::PubSeq(i) => f.base(env.pubs.get(*i + env.seq).copied().unwrap_or(0)),
        Expr::Add(x, y) => f.add(oeval(f, x, env), oeval(f, y, env)),
        Expr::Sub(x, y) => f.sub(oeval(f, x, env), oeval(f, y, env)),
        Expr::Mul(x, y) => f.mul(oeval(f, x, env), oeval(f, y, env)),
        Expr::Div(x, y) => f.mul(oeval(f, x, env), f.inv(oeval(f, y, env)).unwrap_or(OE([0; 3]))),
        Expr::Pow(x, k) => f.pow(oeval(f, x, env), *k as u128),
        Expr::Neg(x) => f.neg(oeval(f, x, env)),
    }
}

// ================================================================================================
// DATA OF ONE INSTANCE
// ================================================================================================
#[derive(Clone, Debug, Default)]
struct Data {
    main: Vec<Vec<u128>>,
    aux: Vec<Vec<OE>>,
    rands: Vec<OE>,
    lagr: Vec<OE>,
    coeffs: Vec<OE>,
    points: Vec<OE>,
}

impl Data {
    fn to_token(&self, f: &OF) -> String {
        let el = |v: &[OE]| v.iter().map(|x| f.fmt(*x)).collect::<Vec<_>>().join(",");
        format!(
            "xT{}/A{}/R{}/L{}/C{}/P{}",
            self.main.iter().map(|c| c.iter().map(|v| v.to_string()).collect::<Vec<_>>().join(",")).collect::<Vec<_>>().join("|"),
            self.aux.iter().map(|c| el(c)).collect::<Vec<_>>().join("|"),
            el(&self.rands),
            el(&self.lagr),
            el(&self.coeffs),
            el(&self.points)
        )
    }
    fn parse(f: &OF, s: &str) -> Option<Data> {
        let s = s.strip_prefix('x')?;
        let secs: Vec<&str> = s.split('/').collect();
        if secs.len() != 6 {
            return None;
        }
        let tags = ['T', 'A', 'R', 'L', 'C', 'P'];
        let mut body = vec![];
        for (sec, t) in secs.iter().zip(tags) {
            body.push(sec.strip_prefix(t)?);
        }
        let els = |s: &str| -> Option<Vec<OE>> {
            if s.is_empty() {
                return Some(vec![]);
            }
            s.split(',').map(|x| f.parse(x)).collect()
        };
        let main: Option<Vec<Vec<u128>>> = body[0]
            .split('|')
            .map(|c| c.split(',').map(|v| v.parse::<u128>().ok().filter(|v| *v < f.p)).collect::<Option<Vec<u128>>>())
            .collect();
        let aux: Option<Vec<Vec<OE>>> = if body[1].is_empty() { Some(vec![]) } else { body[1].split('|').map(els).collect() };
        Some(Data { main: main?, aux: aux?, rands: els(body[2])?, lagr: els(body[3])?, coeffs: els(body[4])?, points: els(body[5])? })
    }
}

fn to_oe<E: FieldElement>(e: E) -> OE
where
    E::BaseField: Fld,
{
    let b = E::slice_as_base_elements(std::slice::from_ref(&e));
    let mut o = [0u128; 3];
    for (i, x) in b.iter().enumerate() {
        o[i] = x.canon();
    }
    OE(o)
}

fn from_oe<E: FieldElement>(o: OE) -> E
where
    E::BaseField: Fld,
{
    let b: Vec<E::BaseField> = (0..E::EXTENSION_DEGREE).map(|i| E::BaseField::from_word(o.0[i])).collect();
    E::slice_from_base_elements(&b)[0]
}

fn log2(n: usize) -> usize {
    n.trailing_zeros() as usize
}

/// number of composition coefficients the library draws: (transition, boundary, lagrange)
fn coeff_counts(desc: &AirDesc) -> (usize, usize, usize) {
    let (ac, aa, lag) = match &desc.aux {
        Some(x) => (x.constraints.len(), x.assertions.len(), if x.lagrange { log2(desc.trace_len) + 1 } else { 0 }),
        None => (0, 0, 0),
    };
    (desc.constraints.len() + ac, desc.assertions.len() + aa, lag)
}

fn rand_oe(f: &OF, rng: &mut Rng) -> OE {
    let mut o = [0u128; 3];
    for x in o.iter_mut().take(f.k) {
        *x = rng.u128() % f.p;
    }
    OE(o)
}

/// everything that is not in the description, derived from a seed
fn derive<B: GField, E: FieldElement<BaseField = B>>(desc: &AirDesc, field: FieldId, f: &OF, lde_blowup: usize, seed: u64, npts: usize) -> Data {
    let n = desc.trace_len;
    let main = gen_trace(desc, field, seed);
    let mut rng = Rng::new(seed ^ 0xC17C_17C1_7C17_C17C);
    let mut d = Data { main, ..Default::default() };
    if let Some(x) = &desc.aux {
        d.rands = (0..x.num_rands).map(|_| rand_oe(f, &mut rng)).collect();
        if x.lagrange {
            d.lagr = (0..log2(n)).map(|_| rand_oe(f, &mut rng)).collect();
        }
        let cols: Vec<Vec<B>> = d.main.iter().map(|c| c.iter().map(|v| B::from_word(*v)).collect()).collect();
        let refs: Vec<&[B]> = cols.iter().map(|c| c.as_slice()).collect();
        let rands: Vec<E> = d.rands.iter().map(|r| from_oe::<E>(*r)).collect();
        let lagr: Vec<E> = d.lagr.iter().map(|r| from_oe::<E>(*r)).collect();
        let aux = build_aux_columns::<B, E>(desc, x, &refs, &rands, &lagr);
        d.aux = aux.iter().map(|c| c.iter().map(|v| to_oe(*v)).collect()).collect();
    }
    let (nt, nb, nl) = coeff_counts(desc);
    d.coeffs = (0..nt + nb + nl)
        .map(|i| match rng.below(12) {
            0 => f.one(),
            3 => f.base(f.p - 1),
            1 => f.zero(),
            2 => f.base(rng.below(5) as u128),
            _ => rand_oe(f, &mut rng),
        })
        .collect();
    // points: random extension / base elements, points of the constraint evaluation coset and of the
    // LDE coset, small integers; never a point of the trace domain
    let ce = n * desc.min_blowup();
    let lde = n * lde_blowup.max(desc.min_blowup());
    let off = B::GENERATOR.canon();
    let wce = B::get_root_of_unity(ce.trailing_zeros()).canon();
    let wlde = B::get_root_of_unity(lde.trailing_zeros()).canon();
    let mut k = 0;
    while d.points.len() < npts {
        let x = match k % 6 {
            0 => rand_oe(f, &mut rng),
            1 => f.base(rng.u128() % f.p),
            2 => f.base(mm(off, pm(wce, rng.below(ce as u64) as u128, f.p), f.p)),
            3 => f.base(mm(off, pm(wlde, rng.below(lde as u64) as u128, f.p), f.p)),
            4 => f.base(*rng.pick(&[0u128, 2, 3, 5, f.p - 2])),
            _ => rand_oe(f, &mut rng),
        };
        k += 1;
        if f.pow(x, n as u128) != f.one() {
            d.points.push(x);
        }
    }
    d
}

// ================================================================================================
// THE DEFINITION, EVALUATED BY THE ORACLE
// ================================================================================================
struct Ctx {
    f: OF,
    desc: Arc<AirDesc>,
    n: usize,
    /// generator of the trace domain (exact order n, checked)
    g: u128,
    main: Vec<Vec<OE>>,
    aux: Vec<Vec<OE>>,
    pubs: Vec<u128>,
    rands: Vec<OE>,
    lagr: Vec<OE>,
    tco: Vec<OE>,
    bco: Vec<OE>,
    lco: Vec<OE>,
}

#[derive(Clone, Debug, PartialEq)]
struct Frame {
    cur: Vec<OE>,
    nxt: Vec<OE>,
    acur: Vec<OE>,
    anxt: Vec<OE>,
    /// c(x), c(gx), c(g^2 x), c(g^4 x), …, c(g^(2^(v-1)) x) of the Lagrange kernel column
    lag: Vec<OE>,
}

impl Ctx {
    fn new(f: OF, desc: &Arc<AirDesc>, g: u128, data: &Data) -> Result<Ctx, String> {
        let n = desc.trace_len;
        // the generator handed over by the library must have exact order n
        if pm(g, n as u128, f.p) != 1 || pm(g, (n / 2) as u128, f.p) != f.p - 1 {
            return Err("trace domain generator does not have order n".into());
        }
        let (nt, nb, nl) = coeff_counts(desc);
        if data.coeffs.len() != nt + nb + nl {
            return Err("coefficient count".into());
        }
        if data.main.len() != desc.width || data.main.iter().any(|c| c.len() != n) {
            return Err("trace shape".into());
        }
        if data.aux.len() != desc.aux_width() || data.aux.iter().any(|c| c.len() != n) {
            return Err("aux trace shape".into());
        }
        let (nr, lg) = match &desc.aux {
            Some(x) => (x.num_rands, if x.lagrange { log2(n) } else { 0 }),
            None => (0, 0),
        };
        if data.rands.len() != nr || data.lagr.len() != lg {
            return Err("random element count".into());
        }
        // public inputs = asserted cells, in assertion order (read off the trace)
        let mut pubs = vec![];
        for a in &desc.assertions {
            match a.kind {
                AssertKind::Sequence => {
                    for s in a.steps(n) {
                        pubs.push(data.main[a.column][s]);
                    }
                },
                _ => pubs.push(data.main[a.column][a.first]),
            }
        }
        Ok(Ctx {
            f,
            desc: desc.clone(),
            n,
            g,
            main: data.main.iter().map(|c| c.iter().map(|v| f.base(*v)).collect()).collect(),
            aux: data.aux.clone(),
            pubs,
            rands: data.rands.clone(),
            lagr: data.lagr.clone(),
            // the partition of the drawn coefficients: transition, then boundary, then Lagrange
            tco: data.coeffs[..nt].to_vec(),
            bco: data.coeffs[nt..nt + nb].to_vec(),
            lco: data.coeffs[nt + nb..].to_vec(),
        })
    }

    fn gpow(&self, e: usize) -> u128 {
        pm(self.g, (e % self.n) as u128, self.f.p)
    }

    /// the trace column polynomials at x and x·g (and the Lagrange kernel frame)
    fn frame(&self, x: OE) -> Option<Frame> {
        let f = &self.f;
        let xg = f.mul(x, f.base(self.g));
        let ev = |cols: &Vec<Vec<OE>>, y: OE| -> Option<Vec<OE>> { cols.iter().map(|c| bary(f, c, self.g, y)).collect() };
        let mut lag = vec![];
        if self.desc.has_lagrange() {
            let c = self.aux.last()?;
            lag.push(bary(f, c, self.g, x)?);
            for k in 0..log2(self.n) {
                lag.push(bary(f, c, self.g, f.mul(x, f.base(self.gpow(1 << k))))?);
            }
        }
        Some(Frame { cur: ev(&self.main, x)?, nxt: ev(&self.main, xg)?, acur: ev(&self.aux, x)?, anxt: ev(&self.aux, xg)?, lag })
    }

    /// the values of the periodic columns at x: the polynomial through one cycle, at x^(n/len)
    fn periodic(&self, x: OE) -> Option<Vec<OE>> {
        let f = &self.f;
        self.desc
            .periodic
            .iter()
            .map(|p| {
                let c = p.len();
                let vals: Vec<OE> = p.iter().map(|v| f.base(*v)).collect();
                bary(f, &vals, self.gpow(self.n / c), f.pow(x, (self.n / c) as u128))
            })
            .collect()
    }

    /// one boundary term β·(t − v(x)) / Z(x) for an assertion with the given asserted values
    fn boundary_term(&self, a: &AssertDesc, values: &[OE], beta: OE, t: OE, x: OE) -> Option<OE> {
        let f = &self.f;
        let n = self.n;
        let (k, v) = match a.kind {
            AssertKind::Single => (1, values[0]),
            AssertKind::Periodic => (n / a.stride, values[0]),
            AssertKind::Sequence => {
                let m = n / a.stride;
                if m == 1 {
                    (1, values[0])
                } else {
                    // the polynomial with P(g^(stride·j)) = values[j], evaluated at x·g^(-first)
                    let y = f.mul(x, f.base(self.gpow(n - a.first % n)));
                    (m, bary(f, values, self.gpow(a.stride), y)?)
                }
            },
        };
        let z = f.sub(f.pow(x, k as u128), f.base(self.gpow(k * a.first)));
        f.div(f.mul(beta, f.sub(t, v)), z)
    }

    /// C(x) from a frame
    fn def(&self, x: OE, fr: &Frame) -> Option<OE> {
        let f = &self.f;
        let n = self.n;
        let d = &self.desc;
        let per = self.periodic(x)?;
        // ---- transition constraints
        let env = OEnv { cur: &fr.cur, nxt: &fr.nxt, per: &per, acur: &fr.acur, anxt: &fr.anxt, rand: &self.rands, pubs: &[], seq: 0 };
        let mut num = f.zero();
        let mut j = 0;
        for c in &d.constraints {
            num = f.add(num, f.mul(self.tco[j], oeval(f, &c.expr, &env)));
            j += 1;
        }
        if let Some(xa) = &d.aux {
            for c in &xa.constraints {
                num = f.add(num, f.mul(self.tco[j], oeval(f, &c.expr, &env)));
                j += 1;
            }
        }
        // Z_T(x) = (x^n - 1) / Π_{k = n-e}^{n-1} (x - g^k)
        let mut ex = f.one();
        for k in n - d.exemptions..n {
            ex = f.mul(ex, f.sub(x, f.base(self.gpow(k))));
        }
        let mut result = f.div(f.mul(num, ex), f.sub(f.pow(x, n as u128), f.one()))?;
        // ---- boundary constraints: coefficients go to the assertions sorted by (stride, first, column),
        // main segment first; a one-value sequence is a single assertion (stride 0)
        let key = |a: &AssertDesc| -> (usize, usize, usize) {
            let stride = match a.kind {
                AssertKind::Single => 0,
                AssertKind::Sequence if a.stride == n => 0,
                _ => a.stride,
            };
            (stride, a.first, a.column)
        };
        let mut mains: Vec<(&AssertDesc, Vec<OE>)> = vec![];
        let mut pos = 0;
        for a in &d.assertions {
            let k = a.num_values(n);
            mains.push((a, self.pubs[pos..pos + k].iter().map(|v| f.base(*v)).collect()));
            pos += k;
        }
        mains.sort_by_key(|(a, _)| key(a));
        let mut bi = 0;
        for (a, vals) in &mains {
            result = f.add(result, self.boundary_term(a, vals, self.bco[bi], fr.cur[a.column], x)?);
            bi += 1;
        }
        if let Some(xa) = &d.aux {
            let mut auxs: Vec<(&AssertDesc, Vec<OE>)> = vec![];
            for a in &xa.assertions {
                let k = a.a.num_values(n);
                let vals: Vec<OE> = (0..k)
                    .map(|s| {
                        let env = OEnv { cur: &[], nxt: &[], per: &[], acur: &[], anxt: &[], rand: &self.rands, pubs: &self.pubs, seq: s };
                        oeval(f, &a.value, &env)
                    })
                    .collect();
                auxs.push((&a.a, vals));
            }
            auxs.sort_by_key(|(a, _)| key(a));
            for (a, vals) in &auxs {
                result = f.add(result, self.boundary_term(a, vals, self.bco[bi], fr.acur[a.column], x)?);
                bi += 1;
            }
            // ---- Lagrange kernel column (air/src/air/lagrange): for k = 1..v the constraint
            // r_{v-k}·c(x) − (1 − r_{v-k})·c(g^(2^(v-k))·x) over the divisor x^(2^(k-1)) − 1, and the
            // boundary constraint c(x) − Π(1 − r_i) over x − 1
            if xa.lagrange {
                let v = log2(n);
                let c = &fr.lag;
                let r = &self.lagr;
                for k in 1..=v {
                    let ev = f.sub(f.mul(r[v - k], c[0]), f.mul(f.sub(f.one(), r[v - k]), c[v - k + 1]));
                    let z = f.sub(f.pow(x, 1u128 << (k - 1)), f.one());
                    result = f.add(result, f.div(f.mul(self.lco[k - 1], ev), z)?);
                }
                let mut av = f.one();
                for ri in r {
                    av = f.mul(av, f.sub(f.one(), *ri));
                }
                result = f.add(result, f.div(f.mul(f.sub(c[0], av), self.lco[v]), f.sub(x, f.one()))?);
            }
        }
        Some(result)
    }

    /// Σ_i x^(i·n) · h_i
    fn recombine(&self, x: OE, h: &[OE]) -> OE {
        let f = &self.f;
        let xn = f.pow(x, self.n as u128);
        let mut acc = f.zero();
        let mut p = f.one();
        for hi in h {
            acc = f.add(acc, f.mul(p, *hi));
            p = f.mul(p, xn);
        }
        acc
    }
}

// ================================================================================================
// COINS
// ================================================================================================
thread_local! {
    static SCRIPT: RefCell<VecDeque<u128>> = const { RefCell::new(VecDeque::new()) };
    static DRAWS: RefCell<Vec<OE>> = const { RefCell::new(Vec::new()) };
}

/// a coin that hands out a scripted sequence of base-field elements (canonical integers)
struct ScriptCoin<B, H>(PhantomData<fn() -> (B, H)>);

impl<B: GField, H: ElementHasher<BaseField = B>> RandomCoin for ScriptCoin<B, H> {
    type BaseField = B;
    type Hasher = H;
    fn new(_seed: &[B]) -> Self {
        ScriptCoin(PhantomData)
    }
    fn reseed(&mut self, _data: H::Digest) {}
    fn check_leading_zeros(&self, _value: u64) -> u32 {
        0
    }
    fn draw<E: FieldElement<BaseField = B>>(&mut self) -> Result<E, RandomCoinError> {
        let mut b = vec![];
        for _ in 0..E::EXTENSION_DEGREE {
            let v = SCRIPT.with(|s| s.borrow_mut().pop_front()).ok_or(RandomCoinError::FailedToDrawFieldElement(0))?;
            b.push(B::from_word(v));
        }
        Ok(E::slice_from_base_elements(&b)[0])
    }
    fn draw_integers(&mut self, _n: usize, _d: usize, _nonce: u64) -> Result<Vec<usize>, RandomCoinError> {
        Err(RandomCoinError::FailedToDrawIntegers(0, 0, 0))
    }
}

/// the default coin, recording every element it hands out
struct RecCoin<H: ElementHasher>(DefaultRandomCoin<H>);

impl<B: GField, H: ElementHasher<BaseField = B> + Sync> RandomCoin for RecCoin<H> {
    type BaseField = B;
    type Hasher = H;
    fn new(seed: &[B]) -> Self {
        RecCoin(DefaultRandomCoin::new(seed))
    }
    fn reseed(&mut self, data: H::Digest) {
        self.0.reseed(data)
    }
    fn check_leading_zeros(&self, value: u64) -> u32 {
        self.0.check_leading_zeros(value)
    }
    fn draw<E: FieldElement<BaseField = B>>(&mut self) -> Result<E, RandomCoinError> {
        let e: E = self.0.draw()?;
        DRAWS.with(|d| d.borrow_mut().push(to_oe(e)));
        Ok(e)
    }
    fn draw_integers(&mut self, n: usize, d: usize, nonce: u64) -> Result<Vec<usize>, RandomCoinError> {
        self.0.draw_integers(n, d, nonce)
    }
}

// ================================================================================================
// def: PROVER SIDE + VERIFIER PIECES AGAINST THE ORACLE
// ================================================================================================
fn script_coeffs<B: GField, E: FieldElement<BaseField = B>>(
    air: &GenericAir<B>,
    f: &OF,
    coeffs: &[OE],
) -> Result<ConstraintCompositionCoefficients<E>, String> {
    SCRIPT.with(|s| {
        let mut s = s.borrow_mut();
        s.clear();
        for c in coeffs {
            for i in 0..f.k {
                s.push_back(c.0[i]);
            }
        }
    });
    let mut coin = ScriptCoin::<B, Blake3_256<B>>::new(&[]);
    let cc = air.get_constraint_composition_coefficients::<E, _>(&mut coin).map_err(|_| "coin exhausted".to_string())?;
    if SCRIPT.with(|s| !s.borrow().is_empty()) {
        return Err("coefficients left over".into());
    }
    Ok(cc)
}

/// the verifier's expression (verifier/src/evaluator.rs `evaluate_constraints`, which is private) from
/// the public functions it is made of, on the frame the prover would open at x
fn verifier_expr<B: GField, E: FieldElement<BaseField = B>>(
    air: &GenericAir<B>,
    cc: &ConstraintCompositionCoefficients<E>,
    polys: &TracePolyTable<E>,
    aux_rand: Option<&AuxRandElements<E>>,
    x: E,
) -> (E, Frame) {
    let ood = polys.get_ood_frame(x);
    let main_frame = ood.main_frame();
    let aux_frame = ood.aux_frame();
    let lag_frame = ood.lagrange_kernel_frame();
    let t_constraints = air.get_transition_constraints(&cc.transition);
    let periodic: Vec<E> = air
        .get_periodic_column_polys()
        .iter()
        .map(|poly| {
            let num_cycles = air.trace_length() / poly.len();
            polynom::eval(poly, x.exp_vartime((num_cycles as u32).into()))
        })
        .collect();
    let mut t1 = vec![E::ZERO; t_constraints.num_main_constraints()];
    air.evaluate_transition(&main_frame, &periodic, &mut t1);
    let mut t2 = vec![E::ZERO; t_constraints.num_aux_constraints()];
    if let Some(af) = &aux_frame {
        air.evaluate_aux_transition(&main_frame, af, &periodic, aux_rand.unwrap().rand_elements(), &mut t2);
    }
    let mut result = t_constraints.combine_evaluations::<E>(&t1, &t2, x);
    let b = air.get_boundary_constraints(aux_rand.map(|r| r.rand_elements()), &cc.boundary);
    for group in b.main_constraints().iter() {
        result += group.evaluate_at(main_frame.current(), x);
    }
    if let Some(af) = &aux_frame {
        for group in b.aux_constraints().iter() {
            result += group.evaluate_at(af.current(), x);
        }
    }
    if let Some(lf) = lag_frame {
        let lr = aux_rand.unwrap().lagrange().unwrap();
        let lc = air.get_lagrange_kernel_constraints(cc.lagrange.clone().unwrap(), lr).unwrap();
        result += lc.transition.evaluate_and_combine::<E>(lf, lr, x);
        result += lc.boundary.evaluate_at(x, lf);
    }
    // the frame as the oracle sees it (aux columns without the Lagrange column come first)
    let o = |v: &[E]| v.iter().map(|e| to_oe(*e)).collect::<Vec<OE>>();
    let mut acur = aux_frame.as_ref().map(|a| o(a.current())).unwrap_or_default();
    let mut anxt = aux_frame.as_ref().map(|a| o(a.next())).unwrap_or_default();
    let lag = lag_frame.map(|l| o(l.inner())).unwrap_or_default();
    if !lag.is_empty() {
        acur.push(lag[0]);
        anxt.push(lag[1]);
    }
    (result, Frame { cur: o(main_frame.current()), nxt: o(main_frame.next()), acur, anxt, lag })
}

fn run_def<B: GField, E: FieldElement<BaseField = B>>(desc: &Arc<AirDesc>, field: FieldId, f: &OF, lde_blowup: usize, data_tok: &str, twiddle_domain: bool) -> Outcome {
    let n = desc.trace_len;
    let data = if let Some(rest) = data_tok.strip_prefix('s') {
        let mut it = rest.split('.');
        let (seed, npts) = match (it.next().and_then(|x| x.parse::<u64>().ok()), it.next().and_then(|x| x.parse::<usize>().ok())) {
            (Some(s), Some(p)) if p <= 64 => (s, p),
            _ => return Outcome::ok("bad-op"),
        };
        derive::<B, E>(desc, field, f, lde_blowup, seed, npts)
    } else {
        match Data::parse(f, data_tok) {
            Some(d) => d,
            None => return Outcome::ok("bad-op"),
        }
    };
    let g = B::get_root_of_unity(n.trailing_zeros()).canon();
    let ctx = match Ctx::new(*f, desc, g, &data) {
        Ok(c) => c,
        Err(e) => return Outcome::ok("bad-op"),
    };
    let opts = OptSpec::new(1, lde_blowup, 0, f.k as u8, 2, 0);
    if !opts.accepted() || lde_blowup < desc.min_blowup() || (twiddle_domain && lde_blowup != desc.min_blowup()) {
        return Outcome::ok("bad-op");
    }
    // ---- the instance must be a valid execution (the property quantifies over those)
    let cols: Vec<Vec<B>> = data.main.iter().map(|c| c.iter().map(|v| B::from_word(*v)).collect()).collect();
    let refs: Vec<&[B]> = cols.iter().map(|c| c.as_slice()).collect();
    let pubs: Vec<B> = ctx.pubs.iter().map(|v| B::from_word(*v)).collect();
    let rands: Vec<E> = data.rands.iter().map(|r| from_oe::<E>(*r)).collect();
    let lagr: Vec<E> = data.lagr.iter().map(|r| from_oe::<E>(*r)).collect();
    let aux_cols: Vec<Vec<E>> = data.aux.iter().map(|c| c.iter().map(|v| from_oe::<E>(*v)).collect()).collect();
    if check_main(desc, &refs, &pubs).is_err() || check_aux::<B, E>(desc, &refs, &aux_cols, &rands, &lagr, &pubs).is_err() {
        return Outcome::ok("invalid");
    }
    let mut o = Outcome::default();
    // ---- prover side, real code
    let air = GenericAir::<B>::new(trace_info(desc), GenPub { desc: desc.clone(), values: pubs.clone() }, opts.to_options());
    // second public constructor of the domain (only meaningful when ce blowup = lde blowup)
    let domain = if twiddle_domain {
        StarkDomain::from_twiddles(winter_math::fft::get_twiddles::<B>(n), lde_blowup, B::GENERATOR)
    } else {
        StarkDomain::new(&air)
    };
    let main = ColMatrix::new(cols.clone());
    let (mut lde, mut polys) = DefaultTraceLde::<E, Blake3_256<B>>::new(air.trace_info(), &main, &domain);
    let aux_rand = if desc.aux.is_some() {
        let aux = ColMatrix::new(aux_cols.clone());
        let (aux_polys, _) = lde.set_aux_trace(&aux, &domain);
        polys.add_aux_segment(aux_polys, air.context().lagrange_kernel_aux_column_idx());
        Some(AuxRandElements::new_with_lagrange(
            rands.clone(),
            if desc.has_lagrange() { Some(LagrangeKernelRandElements::new(lagr.clone())) } else { None },
        ))
    } else {
        None
    };
    let cc = match script_coeffs::<B, E>(&air, f, &data.coeffs) {
        Ok(c) => c,
        Err(e) => return Outcome::ok("bad-op"),
    };
    // the library's partition of the drawn coefficients against the oracle's
    let lib_t: Vec<OE> = cc.transition.iter().map(|e| to_oe(*e)).collect();
    let lib_b: Vec<OE> = cc.boundary.iter().map(|e| to_oe(*e)).collect();
    let lib_l: Vec<OE> = cc.lagrange.as_ref().map(|l| l.transition.iter().chain(std::iter::once(&l.boundary)).map(|e| to_oe(*e)).collect()).unwrap_or_default();
    if lib_t != ctx.tco || lib_b != ctx.bco || lib_l != ctx.lco {
        o = o.fail("c17.coeff.partition", "get_constraint_composition_coefficients does not split the drawn elements into transition | boundary | lagrange in order");
    }
    let evaluator = DefaultConstraintEvaluator::<GenericAir<B>, E>::new(&air, aux_rand.clone(), cc.clone());
    let ctrace = evaluator.evaluate(&lde, &domain);
    let ncols = air.context().num_constraint_composition_columns();
    let cp = CompositionPoly::new(ctrace, &domain, ncols);
    let mut out = format!("k={}", ncols);
    for xo in &data.points {
        if f.pow(*xo, n as u128) == f.one() {
            out.push_str(" dom");
            continue;
        }
        let x: E = from_oe(*xo);
        let h: Vec<OE> = cp.evaluate_at(x).iter().map(|e| to_oe(*e)).collect();
        let c_impl = ctx.recombine(*xo, &h);
        let (v, fr_impl) = verifier_expr::<B, E>(&air, &cc, &polys, aux_rand.as_ref(), x);
        let v = to_oe(v);
        out.push_str(&format!(" {};{};{}", h.iter().map(|e| f.fmt(*e)).collect::<Vec<_>>().join(","), f.fmt(c_impl), f.fmt(v)));
        // ---- oracle
        let c_def = ctx.frame(*xo).and_then(|fr| ctx.def(*xo, &fr).map(|c| (fr, c)));
        let (fr, c_def) = match c_def {
            Some(v) => v,
            None => {
                // never expected off the trace domain (a divisor vanishing elsewhere would be a finding)
                o = o.fail("c17.oracle.undefined", format!("x={}: the definition divides by zero off the trace domain", f.fmt(*xo)));
                continue;
            },
        };
        if c_impl != c_def {
            o = o.fail("c17.prover.def", format!("x={}: committed polynomial gives {} but the definition is {}", f.fmt(*xo), f.fmt(c_impl), f.fmt(c_def)));
        }
        if fr_impl != fr {
            o = o.fail("c17.frame", format!("x={}: TracePolyTable::get_ood_frame differs from the trace polynomials", f.fmt(*xo)));
        }
        if v != c_def {
            o = o.fail("c17.verifier.expr", format!("x={}: verifier's expression gives {} but the definition is {}", f.fmt(*xo), f.fmt(v), f.fmt(c_def)));
        }
    }
    o.out = out;
    o
}

// ================================================================================================
// ood: A REAL PROOF, THE REAL VERIFIER
// ================================================================================================
fn run_ood<B: GField, E: FieldElement<BaseField = B>>(desc: &Arc<AirDesc>, field: FieldId, f: &OF, opts: &OptSpec, seed: u64) -> Outcome {
    let n = desc.trace_len;
    let trace = gen_trace(desc, field, seed);
    let pubs = pub_inputs(desc, field, &trace);
    if is_valid(desc, field, &trace, &pubs).is_err() {
        return Outcome::ok("invalid");
    }
    type H<B> = Blake3_256<B>;
    let prover = GenericProver::<B, H<B>, RecCoin<H<B>>>::new(desc.clone(), opts.to_options());
    DRAWS.with(|d| d.borrow_mut().clear());
    let proof = match prover.prove(GenTrace::<B>::new(desc, &trace)) {
        Ok(p) => p,
        Err(e) => return Outcome::ok(format!("prove-err:{}", prover_error_kind(&e))),
    };
    if let Some(Err(_)) = prover.aux_check.lock().unwrap().take() {
        return Outcome::ok("invalid");
    }
    let ncols = {
        let air = GenericAir::<B>::new(proof.trace_info().clone(), GenPub { desc: desc.clone(), values: vec![] }, proof.options().clone());
        air.context().num_constraint_composition_columns()
    };
    let ood = proof.ood_frame.clone();
    let values: Vec<B> = pubs.iter().map(|v| B::from_word(*v)).collect();
    DRAWS.with(|d| d.borrow_mut().clear());
    let acceptable = AcceptableOptions::OptionSet(vec![opts.to_options()]);
    let verdict = winter_verifier::verify::<GenericAir<B>, H<B>, RecCoin<H<B>>>(proof, GenPub { desc: desc.clone(), values }, &acceptable);
    let draws: Vec<OE> = DRAWS.with(|d| d.borrow().clone());
    // the verifier's draws, in order: [lagrange rands] aux rands | transition, boundary, lagrange coefficients | z
    let (nt, nb, nl) = coeff_counts(desc);
    let (nr, lg) = match &desc.aux {
        Some(x) => (x.num_rands, if x.lagrange { log2(n) } else { 0 }),
        None => (0, 0),
    };
    let need = lg + nr + nt + nb + nl + 1;
    let mut o = Outcome::default();
    if draws.len() < need {
        o.out = format!("verify-err:{}", verdict.as_ref().err().map(verifier_error_kind).unwrap_or_else(|| "short-draws".into()));
        return o;
    }
    let lagr = draws[..lg].to_vec();
    let rands = draws[lg..lg + nr].to_vec();
    let coeffs = draws[lg + nr..lg + nr + nt + nb + nl].to_vec();
    let z = draws[need - 1];
    // rebuild the auxiliary segment for this randomness (deterministic generation rules)
    let cols: Vec<Vec<B>> = trace.iter().map(|c| c.iter().map(|v| B::from_word(*v)).collect()).collect();
    let refs: Vec<&[B]> = cols.iter().map(|c| c.as_slice()).collect();
    let aux: Vec<Vec<OE>> = match &desc.aux {
        Some(x) => {
            let r: Vec<E> = rands.iter().map(|r| from_oe::<E>(*r)).collect();
            let l: Vec<E> = lagr.iter().map(|r| from_oe::<E>(*r)).collect();
            build_aux_columns::<B, E>(desc, x, &refs, &r, &l).iter().map(|c| c.iter().map(|v| to_oe(*v)).collect()).collect()
        },
        None => vec![],
    };
    let data = Data { main: trace.clone(), aux, rands, lagr, coeffs, points: vec![z] };
    let g = B::get_root_of_unity(n.trailing_zeros()).canon();
    let ctx = match Ctx::new(*f, desc, g, &data) {
        Ok(c) => c,
        Err(e) => return Outcome::ok(format!("bad-op:{}", e)),
    };
    // the proof's OOD frame and constraint evaluations
    let parsed = ood.parse::<E>(desc.width, desc.aux_width(), ncols);
    let (tf, evals) = match parsed {
        Ok(x) => x,
        Err(_) => {
            o.out = "ood-parse-err".into();
            return o.fail("c17.ood.parse", "the proof's OOD frame does not parse");
        },
    };
    let oe = |v: &[E]| v.iter().map(|e| to_oe(*e)).collect::<Vec<OE>>();
    let mf = tf.main_frame();
    let af = tf.aux_frame();
    let lag = tf.lagrange_kernel_frame().map(|l| oe(l.inner())).unwrap_or_default();
    let mut acur = af.as_ref().map(|a| oe(a.current())).unwrap_or_default();
    let mut anxt = af.as_ref().map(|a| oe(a.next())).unwrap_or_default();
    if !lag.is_empty() {
        acur.push(lag[0]);
        anxt.push(lag[1]);
    }
    let fr_proof = Frame { cur: oe(mf.current()), nxt: oe(mf.next()), acur, anxt, lag };
    let h = oe(&evals);
    let a = ctx.recombine(z, &h);
    let verdict_s = match &verdict {
        Ok(()) => "ok".to_string(),
        Err(e) => format!("verify-err:{}", verifier_error_kind(e)),
    };
    o.out = format!("{} k={}", verdict_s, ncols);
    if f.pow(z, n as u128) == f.one() {
        return o;
    }
    let fr = ctx.frame(z);
    let d_trace = fr.as_ref().and_then(|fr| ctx.def(z, fr));
    let d_frame = ctx.def(z, &fr_proof);
    if let Some(fr) = &fr {
        if *fr != fr_proof {
            o = o.fail("c17.ood.frame", format!("z={}: the OOD frame of the proof is not the trace polynomials at z, z·g", f.fmt(z)));
        }
    }
    if let Some(d) = d_trace {
        if d != a {
            o = o.fail("c17.prover.ood", format!("z={}: Σ z^(i·n) H_i(z) = {} but the definition is {}", f.fmt(z), f.fmt(a), f.fmt(d)));
        }
    }
    if let Some(d) = d_frame {
        let inconsistent = matches!(&verdict, Err(e) if verifier_error_kind(e) == "InconsistentOodConstraintEvaluations");
        if d == a && inconsistent {
            o = o.fail("c17.verifier.rejects", format!("z={}: the definition on the opened frame equals Σ z^(i·n) H_i(z) but evaluate_constraints disagrees", f.fmt(z)));
        }
        if d != a && !inconsistent {
            o = o.fail("c17.verifier.accepts", format!("z={}: the definition on the opened frame is {} ≠ Σ z^(i·n) H_i(z) = {} but the OOD check passed", f.fmt(z), f.fmt(d), f.fmt(a)));
        }
    }
    if verdict.is_err() {
        o = o.fail("c17.verify.err", format!("honest proof rejected: {}", verdict_s));
    }
    o
}

// ================================================================================================
// DISPATCH
// ================================================================================================
macro_rules! by_field_ext {
    ($field:expr, $ext:expr, $f:ident, ($($args:expr),*)) => {
        match ($field, $ext) {
            (FieldId::F62, 1) => $f::<f62::BaseElement, f62::BaseElement>($($args),*),
            (FieldId::F62, 2) => $f::<f62::BaseElement, QuadExtension<f62::BaseElement>>($($args),*),
            (FieldId::F62, 3) => $f::<f62::BaseElement, CubeExtension<f62::BaseElement>>($($args),*),
            (FieldId::F64, 1) => $f::<f64::BaseElement, f64::BaseElement>($($args),*),
            (FieldId::F64, 2) => $f::<f64::BaseElement, QuadExtension<f64::BaseElement>>($($args),*),
            (FieldId::F64, 3) => $f::<f64::BaseElement, CubeExtension<f64::BaseElement>>($($args),*),
            (FieldId::F128, 1) => $f::<f128::BaseElement, f128::BaseElement>($($args),*),
            (FieldId::F128, 2) => $f::<f128::BaseElement, QuadExtension<f128::BaseElement>>($($args),*),
            _ => Outcome::ok("bad-op"),
        }
    };
}

fn exec_def(t: &[&str], twiddle_domain: bool) -> Outcome {
    if t.len() != 5 {
        return Outcome::ok("bad-op");
    }
    let (field, ext, blowup) = match (FieldId::parse(t[0]), t[1].parse::<u8>(), t[2].parse::<usize>()) {
        (Some(f), Ok(e), Ok(b)) if b <= 128 => (f, e, b),
        _ => return Outcome::ok("bad-op"),
    };
    let desc = match AirDesc::parse(t[4]) {
        Ok(d) => Arc::new(d),
        Err(_) => return Outcome::ok("bad-op"),
    };
    if desc.trace_len > 1 << 12 || !field.supports_ext(ext) {
        return Outcome::ok("bad-op");
    }
    let f = match OF::new(field, ext) {
        Some(f) => f,
        None => return Outcome::ok("bad-op"),
    };
    by_field_ext!(field, ext, run_def, (&desc, field, &f, blowup, t[3], twiddle_domain))
}

fn exec_ood(t: &[&str]) -> Outcome {
    if t.len() != 4 {
        return Outcome::ok("bad-op");
    }
    let (field, opts, seed) = match (FieldId::parse(t[0]), OptSpec::parse(t[1]), t[2].parse::<u64>()) {
        (Some(f), Some(o), Ok(s)) => (f, o, s),
        _ => return Outcome::ok("bad-op"),
    };
    let desc = match AirDesc::parse(t[3]) {
        Ok(d) => Arc::new(d),
        Err(_) => return Outcome::ok("bad-op"),
    };
    if !opts.accepted() || opts.blowup < desc.min_blowup() || !field.supports_ext(opts.ext) || desc.trace_len > 1 << 12 {
        return Outcome::ok("bad-op");
    }
    let f = match OF::new(field, opts.ext) {
        Some(f) => f,
        None => return Outcome::ok("bad-op"),
    };
    by_field_ext!(field, opts.ext, run_ood, (&desc, field, &f, &opts, seed))
}

// ================================================================================================
// GENERATORS
// ================================================================================================
/// one column following x' = x^d + (periodic terms) + k, free columns, assertions as given
fn seq_desc(n: usize, deg: u32, periodic: Vec<Vec<u128>>, assertions: Vec<AssertDesc>, width: usize, e: usize) -> AirDesc {
    let mut rule = Expr::add(Expr::pow(Expr::Cur(0), deg), Expr::Const(5));
    for i in 0..periodic.len() {
        rule = if i % 2 == 0 { Expr::add(rule, Expr::Per(i)) } else { Expr::add(rule, Expr::mul(Expr::Per(i), Expr::Cur(0))) };
    }
    let c = Expr::sub(Expr::Nxt(0), rule.clone());
    let cycles: Vec<usize> = periodic.iter().map(|p| p.len()).collect();
    let mut cols = vec![ColGen::Step { init: None, expr: rule }];
    for _ in 1..width {
        cols.push(ColGen::Rand);
    }
    AirDesc {
        width,
        trace_len: n,
        exemptions: e,
        tail_junk: e > 1,
        periodic,
        cols,
        constraints: vec![Constraint { degree: c.degree(&cycles, n), expr: c }],
        assertions,
        aux: None,
    }
}

/// an auxiliary segment with running product / running sum columns and sequence assertions on a
/// pointwise image of main column `col` (so that aux assertions reach the polynomial representations)
fn with_aux(mut d: AirDesc, seq: Option<(usize, usize)>, lagrange: bool) -> AirDesc {
    let n = d.trace_len;
    let cycles = d.cycles();
    let mut cols = vec![];
    let mut cons = vec![];
    let mut asserts = vec![];
    // a0 = r0 * c_last + r1 (pointwise)
    let x = d.width - 1;
    let e = Expr::add(Expr::mul(Expr::Rand(0), Expr::Cur(x)), Expr::Rand(1));
    let c = Expr::sub(Expr::AuxCur(0), e.clone());
    cons.push(Constraint { degree: c.degree(&cycles, n), expr: c });
    cols.push(AuxGen::Fn(e));
    // a1' = a1 * (c0 + r0), a1_0 = 1
    let step = Expr::mul(Expr::AuxCur(1), Expr::add(Expr::Cur(0), Expr::Rand(0)));
    let c = Expr::sub(Expr::AuxNxt(1), step.clone());
    cons.push(Constraint { degree: c.degree(&cycles, n), expr: c });
    cols.push(AuxGen::Acc { init: Expr::Const(1), step });
    asserts.push(AuxAssertDesc { a: AssertDesc::single(1, 0), value: Expr::Const(1) });
    if let Some((first, stride)) = seq {
        // the main column x carries a sequence assertion with the same shape: its public values are
        // the asserted values of the image
        let pos = d.num_pub_inputs();
        d.assertions.push(AssertDesc::sequence(x, first, stride));
        asserts.push(AuxAssertDesc {
            a: AssertDesc::sequence(0, first, stride),
            value: Expr::add(Expr::mul(Expr::Rand(0), Expr::PubSeq(pos)), Expr::Rand(1)),
        });
    } else {
        let pos = d.num_pub_inputs();
        d.assertions.push(AssertDesc::single(x, 3));
        asserts.push(AuxAssertDesc { a: AssertDesc::single(0, 3), value: Expr::add(Expr::mul(Expr::Rand(0), Expr::Pub(pos)), Expr::Rand(1)) });
    }
    d.aux = Some(AuxDesc { width: 2 + lagrange as usize, num_rands: 2, lagrange, cols, constraints: cons, assertions: asserts });
    d
}

fn per(rng: &mut Rng, len: usize) -> Vec<u128> {
    (0..len).map(|_| rng.range(1, 1 << 40) as u128).collect()
}

/// `get_root_of_unity(log)` of a field as a canonical integer
fn root_of(field: FieldId, log: u32) -> u128 {
    match field {
        FieldId::F62 => f62::BaseElement::get_root_of_unity(log).canon(),
        FieldId::F64 => f64::BaseElement::get_root_of_unity(log).canon(),
        FieldId::F128 => f128::BaseElement::get_root_of_unity(log).canon(),
    }
}

const STRUCTURED_KINDS: usize = 9;

/// one cycle of STRUCTURED values (`len` a power of two >= 2): vectors whose interpolant over the cycle
/// subgroup is degenerate - zero leading coefficients, a constant, zero - or otherwise special.
/// Wherever the code interpolates a polynomial from values and later looks at its length or degree,
/// random values never produce these shapes.
fn structured_cycle(rng: &mut Rng, field: FieldId, len: usize, kind: usize) -> Vec<u128> {
    let p = field.modulus();
    let v = rng.range(1, 1 << 40) as u128;
    let w = rng.range(1, 1 << 40) as u128;
    match kind % STRUCTURED_KINDS {
        // constant, all zero
        0 => vec![v; len],
        1 => vec![0; len],
        // period 2 inside the cycle (a cycle of length 2 stays as it is)
        2 => (0..len).map(|i| if i % 2 == 0 { v } else { w }).collect(),
        // period 4 inside the cycle
        3 => {
            let q: Vec<u128> = (0..4).map(|_| rng.range(1, 1 << 40) as u128).collect();
            (0..len).map(|i| q[i % 4.min(len)]).collect()
        },
        // values of a polynomial of low degree d < len/2 on the cycle subgroup: the top coefficients
        // of the interpolant vanish
        4 | 5 => {
            let d = if len <= 2 { 0 } else if kind % STRUCTURED_KINDS == 4 { 1 } else { rng.range(1, (len / 2 - 1).max(1) as u64) as usize };
            let coef: Vec<u128> = (0..=d).map(|_| rng.range(1, 1 << 40) as u128).collect();
            let h = root_of(field, len.trailing_zeros());
            (0..len)
                .map(|i| {
                    let x = pm(h, i as u128, p);
                    coef.iter().rev().fold(0u128, |acc, c| am(mm(acc, x, p), *c % p, p))
                })
                .collect()
        },
        // a single non-zero entry
        6 => {
            let k = rng.below(len as u64) as usize;
            (0..len).map(|i| if i == k { v } else { 0 }).collect()
        },
        // alternating +v, -v
        7 => (0..len).map(|i| if i % 2 == 0 { v } else { p - v }).collect(),
        // degree exactly len - 2: only the leading coefficient vanishes (Σ v_j h^j = 0)
        _ => {
            if len <= 2 {
                return vec![v; len];
            }
            let coef: Vec<u128> = (0..len - 1).map(|_| rng.range(1, 1 << 40) as u128).collect();
            let h = root_of(field, len.trailing_zeros());
            (0..len)
                .map(|i| {
                    let x = pm(h, i as u128, p);
                    coef.iter().rev().fold(0u128, |acc, c| am(mm(acc, x, p), *c % p, p))
                })
                .collect()
        },
    }
}

/// several periodic columns of different cycle lengths, some of them structured
fn structured_periodic(rng: &mut Rng, field: FieldId, cycles: &[usize], kinds: &[usize]) -> Vec<Vec<u128>> {
    cycles.iter().zip(kinds.iter()).map(|(c, k)| if *k == usize::MAX { per(rng, *c) } else { structured_cycle(rng, field, *c, *k) }).collect()
}

/// a description whose asserted value sequences are degenerate: sequence assertions on a constant
/// column, on columns repeating with period 2 / 4 and on columns of low polynomial degree, so that the
/// value polynomials (SmallPoly below 63 coefficients, LargePoly from 64 values on) have zero leading
/// coefficients or are constant
fn degenerate_seq_desc(n: usize, stride: usize, first: usize, lowdeg: usize, periodic: Vec<Vec<u128>>) -> AirDesc {
    let mut d = seq_desc(
        n,
        2,
        periodic,
        vec![
            AssertDesc::single(0, 0),
            AssertDesc::sequence(1, first, stride),
            AssertDesc::sequence(2, first, stride),
            AssertDesc::sequence(3, (first + 1) % stride, stride),
            AssertDesc::sequence(4, first, stride),
        ],
        5,
        1,
    );
    d.cols[1] = ColGen::Const(None);
    d.cols[2] = ColGen::Cyc(2);
    d.cols[3] = ColGen::Cyc(4);
    d.cols[4] = ColGen::LowDeg(lowdeg);
    d
}

/// STRUCTURED material: periodic columns, assertion sequences and traces whose interpolants have zero
/// leading coefficients (or are constant / zero), for both the prover side and real proofs
fn structured_ops(rng: &mut Rng, tier: Tier, emit: &mut dyn FnMut(String)) {
    let thorough = tier == Tier::Thorough;
    let ood_line = |field: FieldId, ext: u8, b: usize, seed: u64, d: &AirDesc| -> String {
        format!("ood {} {} {} {}", field.name(), OptSpec::new(4, b, 0, ext, 4, 7).to_text(), seed, d.to_line())
    };
    // ---- periodic columns: every structured kind for every cycle length 2..16, alone and combined with
    // columns of other cycle lengths (random and structured)
    for field in FieldId::ALL {
        for &n in &[16usize, 32] {
            let mut combos: Vec<(Vec<usize>, Vec<usize>)> = vec![];
            for kind in 0..STRUCTURED_KINDS {
                for &c in &[2usize, 4, 8, 16] {
                    if kind >= 2 && c == 2 && kind != 7 {
                        continue;
                    }
                    combos.push((vec![c], vec![kind]));
                }
                // with a random column of another cycle length before and a structured one after
                combos.push((vec![8, 4, 16], vec![usize::MAX, kind, (kind + 3) % STRUCTURED_KINDS]));
                combos.push((vec![2, 16, 4, 8], vec![kind, usize::MAX, (kind + 5) % STRUCTURED_KINDS, kind]));
            }
            for (ci, (cycles, kinds)) in combos.iter().enumerate() {
                if n == 32 && !thorough && ci % 3 != 0 {
                    continue;
                }
                let periodic = structured_periodic(rng, field, cycles, kinds);
                let mut d = seq_desc(n, 2, periodic, vec![AssertDesc::single(0, 0), AssertDesc::sequence(1, 1, 4)], 3, 1);
                d.cols[1] = ColGen::Cyc(2);
                let ext = *rng.pick(&exts(field));
                let lb = *rng.pick(&blowups(&d, 512));
                emit(def_line(field, ext, lb, &format!("s{}.3", rng.below(1000)), &d));
                emit(ood_line(field, *rng.pick(&exts(field)), lb.max(4), rng.below(1000), &d));
                if n == 16 && ci % 2 == 0 {
                    if let Some(l) = explicit_line(field, if ci % 4 == 0 { 1 } else { ext }, 2, rng.below(1000), 2, &d) {
                        emit(l);
                    }
                }
                if ci % 5 == 0 {
                    // periodic values in auxiliary constraints as well
                    let d2 = with_aux(d.clone(), Some((1, 2)), ci % 10 == 0);
                    emit(ood_line(field, *rng.pick(&exts(field)), 4, rng.below(1000), &d2));
                    emit(def_line(field, ext, 4, &format!("s{}.2", rng.below(1000)), &d2));
                }
            }
        }
    }
    // ---- degenerate assertion value sequences: 4..128 values (SmallPoly / LargePoly), constant,
    // period 2, period 4, low degree; first step 0 and non-zero; main and auxiliary segment
    let mut shapes = vec![(16usize, 4usize, 0usize), (64, 2, 1), (128, 2, 0), (128, 2, 1), (256, 4, 3), (256, 2, 1)];
    if thorough {
        shapes.push((512, 4, 2));
        shapes.push((512, 2, 1));
    }
    for (si, (n, stride, first)) in shapes.into_iter().enumerate() {
        for (fi, field) in FieldId::ALL.into_iter().enumerate() {
            let lowdeg = *rng.pick(&[0usize, 1, 2, 3, 5]);
            let periodic = if (si + fi) % 2 == 0 { vec![] } else { vec![structured_cycle(rng, field, 8, si + fi)] };
            let d = degenerate_seq_desc(n, stride, first, lowdeg, periodic);
            let ext = *rng.pick(&exts(field));
            emit(def_line(field, ext, *rng.pick(&blowups(&d, 4096)), &format!("s{}.3", rng.below(1000)), &d));
            // the auxiliary image of the low-degree column carries an auxiliary sequence assertion
            let mut d2 = d.clone();
            d2.assertions.pop();
            let d2 = with_aux(d2, Some((first, stride)), false);
            emit(def_line(field, ext, *rng.pick(&blowups(&d2, 4096)), &format!("s{}.3", rng.below(1000)), &d2));
            if n <= 128 && (si + fi) % 2 == 0 {
                emit(ood_line(field, *rng.pick(&exts(field)), 4, rng.below(1000), &d));
                emit(ood_line(field, *rng.pick(&exts(field)), 4, rng.below(1000), &d2));
            }
            if (n == 16) || (n == 128 && fi == si % 3) {
                if let Some(l) = explicit_line(field, 1, 2, rng.below(1000), 2, &d) {
                    emit(l);
                }
            }
        }
    }
    // ---- degenerate traces: every column constant / of low degree / periodic, with structured periodic columns
    for field in FieldId::ALL {
        for kind in [0usize, 2, 4, 8] {
            let n = 16;
            let mut d = seq_desc(n, 1, vec![structured_cycle(rng, field, 4, kind)], vec![AssertDesc::single(0, 0), AssertDesc::periodic(1, 1, 2)], 3, 1);
            // column 0: x' = x + 5 + p0 (degree-1 rule); columns 1, 2: constant and low degree
            d.cols[1] = ColGen::Const(Some(kind as u128));
            d.cols[2] = ColGen::LowDeg(kind % 3);
            d.constraints.push(Constraint { degree: Degree::new(1), expr: Expr::sub(Expr::Nxt(1), Expr::Cur(1)) });
            emit(def_line(field, *rng.pick(&exts(field)), 4, &format!("s{}.3", rng.below(1000)), &d));
            emit(ood_line(field, *rng.pick(&exts(field)), 4, rng.below(1000), &d));
            if let Some(l) = explicit_line(field, 1, 2, rng.below(1000), 2, &d) {
                emit(l);
            }
        }
    }
}

/// `nm` main / `na` auxiliary transition constraints, `am` main / `aa` auxiliary assertions (aa <= 2·na),
/// optional Lagrange kernel column: main column j follows x' = x^2 + k_j, auxiliary column j is the
/// running product a' = a·(c_0 + r_0) started at 1
fn counts_desc(n: usize, nm: usize, na: usize, am: usize, aa: usize, lagrange: bool) -> AirDesc {
    let w = nm + 1;
    let mut cols = vec![];
    let mut constraints = vec![];
    for j in 0..nm {
        let rule = Expr::add(Expr::pow(Expr::Cur(j), 2), Expr::Const(3 + j as u128));
        let c = Expr::sub(Expr::Nxt(j), rule.clone());
        constraints.push(Constraint { degree: c.degree(&[], n), expr: c });
        cols.push(ColGen::Step { init: None, expr: rule });
    }
    cols.push(ColGen::Rand);
    // main assertions: (0,0) first (public input 0), then cells of the free column
    let mut assertions = vec![AssertDesc::single(0, 0)];
    for i in 1..am {
        assertions.push(AssertDesc::single(w - 1, i));
    }
    let mut d = AirDesc { width: w, trace_len: n, exemptions: 1, tail_junk: false, periodic: vec![], cols, constraints, assertions, aux: None };
    if na > 0 {
        let mut acols = vec![];
        let mut acons = vec![];
        let mut aasserts = vec![];
        for j in 0..na {
            let step = Expr::mul(Expr::AuxCur(j), Expr::add(Expr::Cur(0), Expr::Rand(0)));
            let c = Expr::sub(Expr::AuxNxt(j), step.clone());
            acons.push(Constraint { degree: c.degree(&[], n), expr: c });
            acols.push(AuxGen::Acc { init: Expr::Const(1), step });
        }
        for i in 0..aa.min(2 * na) {
            if i < na {
                aasserts.push(AuxAssertDesc { a: AssertDesc::single(i, 0), value: Expr::Const(1) });
            } else {
                // second cell of the running product: 1·(c_0[0] + r_0), c_0[0] being public input 0
                aasserts.push(AuxAssertDesc { a: AssertDesc::single(i - na, 1), value: Expr::add(Expr::Pub(0), Expr::Rand(0)) });
            }
        }
        d.aux = Some(AuxDesc { width: na + lagrange as usize, num_rands: 1, lagrange, cols: acols, constraints: acons, assertions: aasserts });
    }
    d
}

/// several boundary groups of the auxiliary segment that merge into main groups (same divisor), one
/// that has the divisor of a main group under another key, and one that stays on its own
fn merge_desc(n: usize, stride: usize) -> AirDesc {
    // columns: 0 rule-driven, 1 constant on the cycle (periodic assertion), 2 free
    let mut d = seq_desc(
        n,
        2,
        vec![],
        vec![
            AssertDesc::single(0, 0),
            AssertDesc::single(2, 0),
            AssertDesc::single(2, 2),
            AssertDesc::periodic(1, 3, n),
            AssertDesc::sequence(2, 1, stride),
        ],
        3,
        1,
    );
    d.cols[1] = ColGen::Cyc(2);
    // public inputs: 0: c0[0], 1: c2[0], 2: c2[2], 3: c1[3], 4..: c2[1 + stride·k]
    let img = |pubx: Expr| Expr::add(Expr::mul(Expr::Rand(0), pubx), Expr::Rand(1));
    let e = Expr::add(Expr::mul(Expr::Rand(0), Expr::Cur(2)), Expr::Rand(1));
    let c0 = Expr::sub(Expr::AuxCur(0), e.clone());
    let step = Expr::mul(Expr::AuxCur(1), Expr::add(Expr::Cur(0), Expr::Rand(0)));
    let c1 = Expr::sub(Expr::AuxNxt(1), step.clone());
    d.aux = Some(AuxDesc {
        width: 2,
        num_rands: 2,
        lagrange: false,
        cols: vec![AuxGen::Fn(e), AuxGen::Acc { init: Expr::Const(1), step }],
        constraints: vec![Constraint { degree: c0.degree(&[], n), expr: c0 }, Constraint { degree: c1.degree(&[], n), expr: c1 }],
        assertions: vec![
            // merge into the main group of step 0 (two main constraints already there)
            AuxAssertDesc { a: AssertDesc::single(0, 0), value: img(Expr::Pub(1)) },
            AuxAssertDesc { a: AssertDesc::single(1, 0), value: Expr::Const(1) },
            // merges into the main group of step 2
            AuxAssertDesc { a: AssertDesc::single(0, 2), value: img(Expr::Pub(2)) },
            // same (stride, first) as the main sequence: merges into its group
            AuxAssertDesc { a: AssertDesc::sequence(0, 1, stride), value: img(Expr::PubSeq(4)) },
            // a group of its own (no main assertion at step 1 of that kind... the sequence starts at 1 but has another divisor)
            AuxAssertDesc { a: AssertDesc::single(1, 1), value: Expr::add(Expr::Pub(0), Expr::Rand(0)) },
        ],
    });
    d
}

/// HARDENING.md: every pair of quantities the code distinguishes differs in both directions, every
/// comparison constant is hit on both sides, every public entry point is used
fn hardening_ops(rng: &mut Rng, tier: Tier, emit: &mut dyn FnMut(String)) {
    let thorough = tier == Tier::Thorough;
    let ood_line = |field: FieldId, ext: u8, b: usize, seed: u64, d: &AirDesc| -> String {
        format!("ood {} {} {} {}", field.name(), OptSpec::new(4, b, 0, ext, 4, 7).to_text(), seed, d.to_line())
    };
    // ---- #aux vs #main transition constraints and #aux vs #main assertions: <, =, > in every
    // combination; Lagrange kernel column next to 1, 2 and 3 other auxiliary columns; lde blowup equal
    // to and above the ce blowup (also inside the Lagrange kernel evaluator)
    let counts = [
        (1usize, 3usize, 1usize, 3usize),
        (1, 3, 4, 1),
        (2, 2, 2, 2),
        (3, 1, 1, 2),
        (3, 1, 3, 1),
        (2, 3, 2, 5),
        (4, 2, 1, 4),
        (1, 1, 1, 1),
        (2, 1, 3, 2),
    ];
    for (ci, (nm, na, am, aa)) in counts.into_iter().enumerate() {
        for (fi, field) in FieldId::ALL.into_iter().enumerate() {
            for lag in [false, true] {
                let n = if (ci + fi) % 2 == 0 { 8 } else { 16 };
                let d = counts_desc(n, nm, na, am, aa, lag);
                let ceb = d.min_blowup();
                let ext = *rng.pick(&exts(field));
                // lde = ce and lde > ce
                emit(def_line(field, ext, ceb, &format!("s{}.3", rng.below(1000)), &d));
                emit(def_line(field, *rng.pick(&exts(field)), ceb * (2 << (ci % 3)), &format!("s{}.3", rng.below(1000)), &d));
                emit(ood_line(field, ext, if lag { ceb * 4 } else { ceb.max(4) }, rng.below(1000), &d));
                if lag {
                    emit(ood_line(field, *rng.pick(&exts(field)), ceb.max(2), rng.below(1000), &d));
                } else if (ci + fi) % 3 == 0 {
                    if let Some(l) = explicit_line(field, if fi == ci % 3 { ext } else { 1 }, ceb * 2, rng.below(1000), 2, &d) {
                        emit(l);
                    }
                }
            }
        }
    }
    // ---- several auxiliary boundary groups merging into main groups
    for (n, stride) in [(8usize, 2usize), (16, 4), (128, 2)] {
        let d = merge_desc(n, stride);
        for field in FieldId::ALL {
            let ext = *rng.pick(&exts(field));
            emit(def_line(field, ext, 2, &format!("s{}.3", rng.below(1000)), &d));
            emit(def_line(field, *rng.pick(&exts(field)), 8, &format!("s{}.3", rng.below(1000)), &d));
            emit(ood_line(field, ext, 4, rng.below(1000), &d));
            if n <= 16 {
                if let Some(l) = explicit_line(field, 1, 2, rng.below(1000), 2, &d) {
                    emit(l);
                }
            }
        }
    }
    // ---- the second public constructor of the prover's domain: StarkDomain::from_twiddles
    for (fi, field) in FieldId::ALL.into_iter().enumerate() {
        let descs = [
            seq_desc(8, 2, vec![per(rng, 2), structured_cycle(rng, field, 8, 4)], vec![AssertDesc::single(0, 0), AssertDesc::sequence(1, 1, 2)], 2, 1),
            seq_desc(16, 5, vec![per(rng, 4)], vec![AssertDesc::sequence(0, 0, 4), AssertDesc::single(1, 3)], 2, 2),
            seq_desc(128, 3, vec![], vec![AssertDesc::sequence(0, 1, 2), AssertDesc::sequence(1, 0, 4)], 2, 1),
            with_aux(seq_desc(64, 2, vec![per(rng, 16)], vec![AssertDesc::single(0, 0)], 2, 1), Some((1, 2)), fi == 1),
            counts_desc(16, 2, 3, 2, 4, true),
        ];
        for (di, d) in descs.iter().enumerate() {
            let ceb = d.min_blowup();
            emit(format!("deft {} {} {} s{}.3 {}", field.name(), *rng.pick(&exts(field)), ceb, rng.below(1000), d.to_line()));
            if d.trace_len <= 16 && !d.has_lagrange() {
                if let Some(l) = explicit_line(field, if di == 0 { 1 } else { *rng.pick(&exts(field)) }, ceb, rng.below(1000), 2, d) {
                    emit(l.replacen("def ", "deft ", 1));
                }
            }
        }
    }
    // ---- the representation switch from both sides next to each other, with the twiddle caches shared:
    // sequences of 32, 64, 64 and 128 values in one description (numbers of values are powers of two, so
    // 32 | 64 are the neighbours of the 63-coefficient threshold), first steps 0, 1 and stride - 1
    for (fi, field) in FieldId::ALL.into_iter().enumerate() {
        let n = 256;
        let mut d = seq_desc(
            n,
            2,
            vec![],
            vec![
                AssertDesc::sequence(1, 0, 8),
                AssertDesc::sequence(2, 1, 4),
                AssertDesc::sequence(3, 3, 4),
                AssertDesc::sequence(4, 1, 2),
                AssertDesc::single(0, 0),
            ],
            5,
            1,
        );
        d.cols[3] = ColGen::LowDeg(2);
        emit(def_line(field, *rng.pick(&exts(field)), 2, &format!("s{}.3", rng.below(1000)), &d));
        emit(def_line(field, *rng.pick(&exts(field)), 16, &format!("s{}.3", rng.below(1000)), &d));
        if fi == 0 {
            emit(ood_line(field, 1, 4, rng.below(1000), &d));
        }
    }
    // ---- values at the modulus boundary and zero at interior positions: trace columns p-1 / 0,
    // periodic values p-1 and 0 (coefficients p-1, 0, 1 come from `derive`)
    for field in FieldId::ALL {
        let p = field.modulus();
        let mut d = seq_desc(16, 2, vec![vec![p - 1, 0, 0, p - 1], vec![0, p - 1]], vec![AssertDesc::single(0, 0), AssertDesc::sequence(1, 1, 2), AssertDesc::periodic(2, 0, 2)], 3, 1);
        d.cols[0] = ColGen::Step { init: Some(p - 1), expr: match &d.cols[0] { ColGen::Step { expr, .. } => expr.clone(), _ => unreachable!() } };
        d.cols[1] = ColGen::Const(Some(p - 1));
        d.cols[2] = ColGen::Const(Some(0));
        emit(def_line(field, *rng.pick(&exts(field)), 4, &format!("s{}.3", rng.below(1000)), &d));
        emit(ood_line(field, *rng.pick(&exts(field)), 4, rng.below(1000), &d));
        if let Some(l) = explicit_line(field, 1, 2, rng.below(1000), 2, &d) {
            emit(l);
        }
    }
    // ---- sizes beyond 2^8 (and, thorough, an LDE domain of 2^16 points)
    let big = seq_desc(512, 2, vec![per(rng, 256), structured_cycle(rng, FieldId::F64, 512, 5)], vec![AssertDesc::sequence(0, 1, 2), AssertDesc::single(1, 300)], 2, 3);
    emit(def_line(FieldId::F64, 2, 4, &format!("s{}.2", rng.below(1000)), &big));
    emit(ood_line(FieldId::F64, 1, 8, rng.below(1000), &big));
    let big2 = seq_desc(1024, 3, vec![], vec![AssertDesc::sequence(0, 511, 512), AssertDesc::sequence(1, 0, 2)], 2, 1);
    emit(def_line(FieldId::F128, 1, 2, &format!("s{}.2", rng.below(1000)), &big2));
    if thorough {
        let big3 = seq_desc(4096, 2, vec![per(rng, 4096)], vec![AssertDesc::sequence(0, 1, 2), AssertDesc::single(1, 4095)], 2, 1);
        emit(def_line(FieldId::F64, 1, 16, &format!("s{}.2", rng.below(1000)), &big3));
        emit(def_line(FieldId::F62, 2, 2, &format!("s{}.2", rng.below(1000)), &big3));
    }
}

/// one main transition constraint of degree `dm` and one auxiliary transition constraint of degree
/// `da` (a running product over `(c_0 + r_0)^(da-1)`): the constraint-evaluation blowup
/// `next_power_of_two(degree - 1)` of each segment is chosen independently, so that the maximum over
/// BOTH degree lists decides the domain `AirContext::new_multi_segment` / `StarkDomain::new(&air)` build
fn class_desc(n: usize, dm: u32, da: u32) -> AirDesc {
    let rule = Expr::add(Expr::pow(Expr::Cur(0), dm), Expr::Const(3));
    let c = Expr::sub(Expr::Nxt(0), rule.clone());
    let constraints = vec![Constraint { degree: c.degree(&[], n), expr: c }];
    let cols = vec![ColGen::Step { init: None, expr: rule }, ColGen::Rand];
    let assertions = vec![AssertDesc::single(0, 0), AssertDesc::single(1, 2)];
    let mut d = AirDesc { width: 2, trace_len: n, exemptions: 1, tail_junk: false, periodic: vec![], cols, constraints, assertions, aux: None };
    let step = Expr::mul(Expr::AuxCur(0), Expr::pow(Expr::add(Expr::Cur(0), Expr::Rand(0)), da - 1));
    let c = Expr::sub(Expr::AuxNxt(0), step.clone());
    let acons = vec![Constraint { degree: c.degree(&[], n), expr: c }];
    let acols = vec![AuxGen::Acc { init: Expr::Const(1), step }];
    let aasserts = vec![AuxAssertDesc { a: AssertDesc::single(0, 0), value: Expr::Const(1) }];
    d.aux = Some(AuxDesc { width: 1, num_rands: 1, lagrange: false, cols: acols, constraints: acons, assertions: aasserts });
    d
}

/// every ordered pair (blowup class of the main constraints, blowup class of the auxiliary
/// constraints) for constraint-evaluation blowups 2, 4, 8, 16: aux above, equal to and below main, with
/// the degrees on both edges of each class (2|3, 4|5, 6|9, 10|17), over 8 and 16 rows; the domain comes from the real
/// `AirContext` through `StarkDomain::new(&air)`, the LDE blowup is the larger class (and above it)
fn blowup_class_ops(rng: &mut Rng, tier: Tier, emit: &mut dyn FnMut(String)) {
    let classes: [(usize, u32, u32); 4] = [(2, 2, 3), (4, 4, 5), (8, 6, 9), (16, 10, 17)];
    let mut i = 0usize;
    for (cm, mlo, mhi) in classes {
        for (ca, alo, ahi) in classes {
            let field = FieldId::ALL[i % FieldId::ALL.len()];
            let n = if i % 2 == 0 { 8 } else { 16 };
            let (dm, da) = match i % 4 {
                0 => (mlo, alo),
                1 => (mhi, ahi),
                2 => (mlo, ahi),
                _ => (mhi, alo),
            };
            let d = class_desc(n, dm, da);
            let ceb = cm.max(ca);
            debug_assert_eq!(d.min_blowup(), ceb);
            let ext = *rng.pick(&exts(field));
            emit(def_line(field, ext, ceb, &format!("s{}.3", rng.below(1000)), &d));
            if ceb <= 8 {
                emit(def_line(FieldId::ALL[(i + 1) % FieldId::ALL.len()], 1, ceb * 2, &format!("s{}.3", rng.below(1000)), &d));
            }
            // explicit data (also computed by the Lean model) while the evaluation domain is small
            if n * ceb <= 64 {
                if let Some(l) = explicit_line(field, 1, ceb, rng.below(1000), 2, &d) {
                    emit(l);
                }
            }
            // a real proof through the real verifier for the pairs with aux above main (and one each of the others)
            if (ca > cm && ceb <= 8) || (tier == Tier::Thorough && ceb <= 8) || i % 5 == 0 && ceb <= 4 {
                emit(format!("ood {} {} {} {}", field.name(), OptSpec::new(4, ceb.max(4), 0, ext, 4, 7).to_text(), rng.below(1000), d.to_line()));
            }
            i += 1;
        }
    }
    // ---- short traces whose blowup estimate rounds up: `min_blowup_factor = next_power_of_two(d - 1)` is
    // twice what the degree needs when (d-1)(n-1) <= n*next_power_of_two(d-1)/2 (d - 1 not a power of two:
    // d = 10 over 8 rows, d = 18 over 8 and 16 rows, d = 19 over 8 rows) - the constraint evaluation
    // domain is then larger than the highest degree requires (finding c17.panic, repaired by 21f82da: the
    // prover's debug check demanded equality).  The degree sits on the main segment, on the auxiliary
    // segment, and on both; the neighbouring degrees are run too.
    let mut j = 0usize;
    for (d, ns) in [(10u32, &[8usize][..]), (11, &[8]), (13, &[8]), (16, &[8]), (18, &[8, 16]), (19, &[8, 16]), (20, &[8]), (25, &[8, 16]), (32, &[8, 16])] {
        for n in ns.iter().copied() {
            for (dm, da) in [(d, 2u32), (2, d), (d, d)] {
                let field = FieldId::ALL[j % FieldId::ALL.len()];
                let desc = class_desc(n, dm, da);
                let ceb = desc.min_blowup();
                // thorough: every placement; quick: every placement for the degrees that round up
                let rounds_up = ((d - 1) as usize) * (n - 1) <= n * ceb / 2;
                if rounds_up || tier == Tier::Thorough || j % 3 == 0 {
                    let ext = if ceb >= 32 { 1 } else { *rng.pick(&exts(field)) };
                    emit(def_line(field, ext, ceb, &format!("s{}.3", rng.below(1000)), &desc));
                    if rounds_up && ceb <= 16 {
                        emit(format!("ood {} {} {} {}", field.name(), OptSpec::new(4, ceb, 0, 1, 4, 7).to_text(), rng.below(1000), desc.to_line()));
                    }
                }
                j += 1;
            }
        }
    }
}

fn def_line(field: FieldId, ext: u8, blowup: usize, data: &str, d: &AirDesc) -> String {
    format!("def {} {} {} {} {}", field.name(), ext, blowup, data, d.to_line())
}

fn explicit_tok<B: GField, E: FieldElement<BaseField = B>>(desc: &Arc<AirDesc>, field: FieldId, f: &OF, blowup: usize, seed: u64, npts: usize) -> Outcome {
    Outcome::ok(derive::<B, E>(desc, field, f, blowup, seed, npts).to_token(f))
}

/// the op with explicit data (compared with the Lean model) for a seed
fn explicit_line(field: FieldId, ext: u8, blowup: usize, seed: u64, npts: usize, d: &AirDesc) -> Option<String> {
    let f = OF::new(field, ext)?;
    if !field.supports_ext(ext) {
        return None;
    }
    let desc = Arc::new(d.clone());
    let tok = by_field_ext!(field, ext, explicit_tok, (&desc, field, &f, blowup, seed, npts)).out;
    Some(def_line(field, ext, blowup, &tok, d))
}

fn blowups(d: &AirDesc, max_lde: usize) -> Vec<usize> {
    let minb = d.min_blowup();
    let v: Vec<usize> = [2usize, 4, 8, 16, 32].into_iter().filter(|b| *b >= minb && d.trace_len * b <= max_lde).collect();
    if v.is_empty() {
        vec![minb]
    } else {
        v
    }
}

fn exts(field: FieldId) -> Vec<u8> {
    (1..=3u8).filter(|x| field.supports_ext(*x)).collect()
}

/// explicit-data ops (compared with the Lean model) that reach the polynomial representations of
/// boundary constraints: SmallPoly below 63 coefficients, LargePoly from 64 values on, first step 0 and
/// non-zero, main and auxiliary segment.  They are expensive for the model (inverse DFTs over 256
/// points on raw words), so the generator spreads them over the run.
fn big_explicit_ops(rng: &mut Rng, tier: Tier) -> Vec<String> {
    let mut v = vec![];
    let main = [
        (64usize, 32usize, 0usize, FieldId::F62, 2usize),
        (64, 32, 1, FieldId::F64, 4),
        (128, 64, 0, FieldId::F128, 2),
        (128, 64, 0, FieldId::F64, 4),
        (128, 64, 1, FieldId::F62, 2),
        (128, 64, 1, FieldId::F64, 2),
        (128, 32, 3, FieldId::F128, 4),
        (128, 64, 1, FieldId::F128, 4),
    ];
    for (n, count, first, field, lb) in main {
        let stride = n / count;
        let d = seq_desc(n, 2, vec![], vec![AssertDesc::sequence(0, first, stride), AssertDesc::single(1, 5)], 2, 1);
        v.extend(explicit_line(field, 1, lb, rng.below(1000), 2, &d));
    }
    let aux = [(128usize, 64usize, 1usize, FieldId::F64), (64, 16, 0, FieldId::F128), (128, 64, 0, FieldId::F62)];
    for (n, count, first, field) in aux {
        let stride = n / count;
        let d = with_aux(seq_desc(n, 2, vec![per(rng, 4)], vec![AssertDesc::single(0, 0)], 2, 1), Some((first, stride)), false);
        v.extend(explicit_line(field, 1, 2, rng.below(1000), 2, &d));
    }
    if tier == Tier::Thorough {
        for field in FieldId::ALL {
            for (n, count, first) in [(128usize, 64usize, 1usize), (128, 128, 0), (64, 32, 1)] {
                let stride = n / count;
                if stride < 2 {
                    continue;
                }
                let d = seq_desc(n, 3, vec![per(rng, 8)], vec![AssertDesc::sequence(0, first, stride), AssertDesc::sequence(1, 0, 2)], 2, 2);
                v.extend(explicit_line(field, 1, 4, rng.below(1000), 2, &d));
            }
        }
    }
    v
}

fn boundary_ops(rng: &mut Rng, tier: Tier, emit: &mut dyn FnMut(String)) {
    let thorough = tier == Tier::Thorough;
    // ---- sequence assertions with 2..256 values (the representation switches between 32 and 64
    // values), first step 0 and non-zero, ce blowup 2 (degree 2/3) against LDE blowup 2..16, all fields
    let mut lens = vec![64usize, 128, 256];
    if thorough {
        lens.push(512);
        lens.push(1024);
    }
    for &n in &lens {
        for count in [2usize, 16, 32, 64, 128, 256] {
            if count > n / 2 && count != n {
                continue;
            }
            if count > n {
                continue;
            }
            let stride = n / count;
            if stride < 2 {
                continue;
            }
            for first in [0usize, 1, stride - 1] {
                if first >= stride {
                    continue;
                }
                for (fi, field) in FieldId::ALL.into_iter().enumerate() {
                    let deg = if (count + first + fi) % 2 == 0 { 2 } else { 3 };
                    let d = seq_desc(n, deg, vec![], vec![AssertDesc::sequence(0, first, stride), AssertDesc::single(1, (first + 1) % n)], 2, 1);
                    let ext = *rng.pick(&exts(field));
                    let lb = *rng.pick(&blowups(&d, 4096));
                    emit(def_line(field, ext, lb, &format!("s{}.3", rng.below(1000)), &d));
                }
            }
        }
    }
    // ---- several periodic columns of different cycle lengths (2 .. n), in main and aux constraints
    for &n in &[16usize, 64] {
        let cyc: Vec<Vec<usize>> = vec![vec![2], vec![n], vec![2, n], vec![4, 8, 2], vec![n / 2, 4], vec![8, 8, 16]];
        for cs in cyc {
            for field in FieldId::ALL {
                let periodic: Vec<Vec<u128>> = cs.iter().map(|c| per(rng, (*c).min(n))).collect();
                let mut d = seq_desc(n, 2, periodic, vec![AssertDesc::single(0, 0), AssertDesc::periodic(1, 1, 4)], 2, 1);
                // the free column 1 must be constant on the asserted steps: make it cyclic with period 4
                d.cols[1] = ColGen::Cyc(4);
                let ext = *rng.pick(&exts(field));
                let lb = *rng.pick(&blowups(&d, 2048));
                emit(def_line(field, ext, lb, &format!("s{}.3", rng.below(1000)), &d));
                let d2 = with_aux(d.clone(), None, false);
                emit(def_line(field, ext, *rng.pick(&blowups(&d2, 2048)), &format!("s{}.3", rng.below(1000)), &d2));
            }
        }
    }
    // ---- auxiliary segment with sequence assertions below / above the switch, Lagrange kernel column
    for (n, count, first) in [(64usize, 32usize, 0usize), (128, 64, 1), (128, 64, 0), (256, 128, 1), (64, 16, 3)] {
        let stride = n / count;
        if first >= stride {
            continue;
        }
        for field in FieldId::ALL {
            for lag in [false, true] {
                let d = with_aux(seq_desc(n, 2, vec![per(rng, 4)], vec![AssertDesc::single(0, 0)], 2, 1), Some((first, stride)), lag);
                let ext = *rng.pick(&exts(field));
                emit(def_line(field, ext, *rng.pick(&blowups(&d, 2048)), &format!("s{}.3", rng.below(1000)), &d));
            }
        }
    }
    // ---- equal divisors under different group keys: a main periodic assertion with stride n (one step,
    // divisor x - g^3) and an auxiliary single assertion at the same step: the prover merges the
    // auxiliary group into the main group with the equal divisor
    for n in [8usize, 16] {
        let mut d = seq_desc(n, 2, vec![], vec![AssertDesc::single(0, 0), AssertDesc::periodic(1, 3, n)], 2, 1);
        let e = Expr::add(Expr::mul(Expr::Rand(0), Expr::Cur(1)), Expr::Rand(1));
        let c = Expr::sub(Expr::AuxCur(0), e.clone());
        let pos = d.num_pub_inputs() - 1;
        d.aux = Some(AuxDesc {
            width: 1,
            num_rands: 2,
            lagrange: false,
            cols: vec![AuxGen::Fn(e)],
            constraints: vec![Constraint { degree: c.degree(&[], n), expr: c }],
            assertions: vec![AuxAssertDesc {
                a: AssertDesc::single(0, 3),
                value: Expr::add(Expr::mul(Expr::Rand(0), Expr::Pub(pos)), Expr::Rand(1)),
            }],
        });
        for field in FieldId::ALL {
            emit(def_line(field, *rng.pick(&exts(field)), 4, &format!("s{}.3", rng.below(1000)), &d));
            if let Some(l) = explicit_line(field, 1, 2, rng.below(1000), 2, &d) {
                emit(l);
            }
        }
    }
    // ---- exemptions, degrees up to 9 (ce blowup 8), number of composition columns
    for (n, deg) in [(8usize, 1u32), (8, 2), (8, 3), (16, 4), (8, 5), (8, 8), (8, 9), (16, 9)] {
        let base = seq_desc(n, deg, vec![], vec![AssertDesc::single(0, 0)], 1, 1);
        let maxe = base.max_exemptions();
        for e in [1usize, 2, maxe / 2, maxe] {
            if e == 0 || e > maxe {
                continue;
            }
            let d = seq_desc(n, deg, vec![], vec![AssertDesc::single(0, 0), AssertDesc::single(0, n - 1 - e.min(n - 2))], 1, e);
            for field in [FieldId::F64, FieldId::F128] {
                emit(def_line(field, 1, *rng.pick(&blowups(&d, 512)), &format!("s{}.3", rng.below(1000)), &d));
            }
        }
    }
    // ---- high degrees: ce blowup 16 (degree 17) and, thorough, 32 (degree 33)
    for (n, deg) in [(8usize, 16u32), (8, 17), (16, 17)] {
        let d = seq_desc(n, deg, vec![], vec![AssertDesc::single(0, 1)], 1, 1);
        emit(def_line(FieldId::F64, 2, 16, &format!("s{}.2", rng.below(1000)), &d));
        emit(def_line(FieldId::F128, 1, 32, &format!("s{}.2", rng.below(1000)), &d));
    }
    if thorough {
        let d = seq_desc(8, 33, vec![], vec![AssertDesc::single(0, 1)], 1, 2);
        emit(def_line(FieldId::F62, 1, 32, &format!("s{}.2", rng.below(1000)), &d));
    }
    // ---- one divisor shared by a sequence, a periodic and (aux) a sequence assertion: one group
    for (n, stride, first) in [(16usize, 4usize, 1usize), (128, 2, 1), (64, 8, 0)] {
        let mut d = seq_desc(n, 2, vec![], vec![AssertDesc::sequence(0, first, stride), AssertDesc::periodic(1, first, stride), AssertDesc::single(2, first + 1)], 3, 1);
        d.cols[1] = ColGen::Cyc(stride);
        let d2 = with_aux(d.clone(), Some((first, stride)), false);
        for field in FieldId::ALL {
            emit(def_line(field, *rng.pick(&exts(field)), 4, &format!("s{}.3", rng.below(1000)), &d));
            emit(def_line(field, *rng.pick(&exts(field)), 2, &format!("s{}.3", rng.below(1000)), &d2));
        }
        if n <= 16 {
            for field in FieldId::ALL {
                if let Some(l) = explicit_line(field, 1, 2, rng.below(1000), 2, &d2) {
                    emit(l);
                }
            }
        }
    }
    // ---- real proofs: the verifier's own evaluate_constraints on the opened frame
    let oods = [
        (seq_desc(16, 2, vec![per(rng, 2), per(rng, 8)], vec![AssertDesc::single(0, 0), AssertDesc::sequence(1, 1, 2)], 2, 1), 4usize),
        (seq_desc(128, 3, vec![per(rng, 4)], vec![AssertDesc::sequence(0, 1, 2), AssertDesc::sequence(1, 0, 4)], 2, 2), 8),
        (with_aux(seq_desc(128, 2, vec![per(rng, 16)], vec![AssertDesc::single(0, 0)], 2, 1), Some((1, 2)), false), 4),
        (with_aux(seq_desc(32, 2, vec![], vec![AssertDesc::single(0, 0)], 3, 1), Some((0, 4)), true), 8),
    ];
    for (d, b) in &oods {
        for field in FieldId::ALL {
            for ext in exts(field) {
                emit(format!("ood {} {} {} {}", field.name(), OptSpec::new(4, *b, 0, ext, 4, 7).to_text(), rng.below(1000), d.to_line()));
            }
        }
    }
    // ---- malformed
    emit("def f64 1 4 s1.2 garbage".into());
    emit("def f64 1 4 xT/A/R/L/C/P w=1;l=8;e=1;j=0;p=;g=R;t=1:-n0c0;a=s0.0".into());
    emit("def f64 4 4 s1.2 w=1;l=8;e=1;j=0;p=;g=R;t=1:-n0c0;a=s0.0".into());
    emit("def f128 3 4 s1.2 w=1;l=8;e=1;j=0;p=;g=K1;t=1:-n0c0;a=s0.0".into());
    emit("def f64 1 4 s1.2 w=1;l=8;e=1;j=0;p=;g=R;t=1:-n0c0;a=s0.0".into());
    emit("ood f64".into());
    emit("def".into());
}

impl Prop for P {
    fn id(&self) -> &'static str {
        "C17"
    }

    fn gen(&self, rng: &mut Rng, tier: Tier, n: usize, emit: &mut dyn FnMut(String)) {
        let n = default_n(tier, 2600, 26000, n);
        boundary_ops(rng, tier, emit);
        structured_ops(rng, tier, emit);
        hardening_ops(rng, tier, emit);
        blowup_class_ops(rng, tier, emit);
        let mut big = big_explicit_ops(rng, tier);
        let every = (n / (big.len() + 1)).max(1);
        for i in 0..n {
            if i % every == every / 2 {
                if let Some(l) = big.pop() {
                    emit(l);
                }
            }
            let field = *rng.pick(&FieldId::ALL);
            let small = i % 3 != 2;
            let bud = Budget {
                min_log_len: 3,
                max_log_len: if small { 5 } else if i % 30 == 2 { 8 } else { 6 },
                max_width: if small { 4 } else { 6 },
                max_degree: *rng.pick(&[1usize, 2, 2, 3, 3, 4, 5]),
                aux_pct: 40,
                lagrange_pct: if small { 0 } else { 30 },
                exemptions: true,
                degenerate: i % 10 == 0,
                sequences: true,
            };
            let mut d = random_desc(rng, &bud);
            // every other description with periodic columns gets STRUCTURED cycles (zero leading
            // coefficients, sub-periods, constants): the trace is generated from them, so it stays valid
            if !d.periodic.is_empty() && i % 2 == 0 {
                for pc in d.periodic.iter_mut() {
                    if rng.chance(2, 3) {
                        let kind = rng.below(STRUCTURED_KINDS as u64) as usize;
                        *pc = structured_cycle(rng, field, pc.len(), kind);
                    }
                }
            }
            // the order in which an AIR lists its assertions is not the order of their coefficients
            if d.aux.is_none() && d.assertions.len() > 1 && i % 3 == 0 {
                let k = rng.below(d.assertions.len() as u64) as usize;
                d.assertions.rotate_left(k);
                d.assertions.reverse();
            }
            let ext = if small && i % 2 == 0 { 1 } else { *rng.pick(&exts(field)) };
            let lb = *rng.pick(&blowups(&d, if small { 256 } else { 2048 }));
            let seed = rng.below(1_000_000);
            let ce = d.trace_len * d.min_blowup();
            // extension-field arithmetic on raw words is several times dearer for the model
            let cap = if ext == 1 { 64 } else { 32 };
            if small && (ce <= cap || (ext == 1 && ce <= 256 && i % 12 == 0)) {
                // explicit data: compared with the Lean model (whose cost grows with ce^2)
                if let Some(l) = explicit_line(field, ext, lb, seed, 2, &d) {
                    emit(l);
                }
            } else if (i % 7 == 3 || (!d.periodic.is_empty() && i % 4 == 0)) && d.trace_len <= 64 {
                let o = OptSpec::new(3, lb, 0, ext, 4, 7);
                emit(format!("ood {} {} {} {}", field.name(), o.to_text(), seed, d.to_line()));
            } else {
                emit(def_line(field, ext, lb, &format!("s{}.3", seed), &d));
            }
        }
    }

    fn exec(&self, line: &str) -> Outcome {
        let t: Vec<&str> = line.split(' ').filter(|x| !x.is_empty()).collect();
        match t.first().copied() {
            Some("def") => exec_def(&t[1..], false),
            Some("deft") => exec_def(&t[1..], true),
            Some("ood") => exec_ood(&t[1..]),
            _ => Outcome::ok("bad-op"),
        }
    }

    fn timeout_ms(&self) -> u64 {
        120_000
    }

    fn nontrivial(&self, _line: &str, out: &str) -> bool {
        !out.starts_with("bad-op") && out != "invalid"
    }

    fn class(&self, line: &str, out: &str) -> String {
        let t: Vec<&str> = line.split(' ').collect();
        let kind = if out.starts_with("k=") || out.starts_with("ok") {
            "ok"
        } else {
            out.split(|c| c == ' ' || c == ':').next().unwrap_or("")
        };
        match t.first().copied() {
            Some("def") | Some("deft") if t.len() >= 5 => {
                let form = if t[4].starts_with('x') { "explicit" } else { "seed" };
                let aux = if t.last().map(|d| d.contains(";x=")).unwrap_or(false) { "aux" } else { "main" };
                format!("def.{}.x{}.{}.{}:{}", t[1], t[2], form, aux, kind)
            },
            Some("ood") if t.len() >= 3 => format!("ood.{}.x{}:{}", t[1], t[2].split('.').nth(3).unwrap_or("?"), kind),
            _ => format!("other:{}", kind),
        }
    }

    fn rule(&self) -> &'static str {
        "distinct op lines whose outcome is neither bad-op nor invalid; a def op is one (description, trace, randomness, coefficients, points) instance pushed through the real constraint evaluator, CompositionPoly and the verifier's expression and judged by the oracle's direct evaluation of the definition at every point; an ood op is one real proof verified by the real verifier whose OOD frame and constraint evaluations are judged by the oracle"
    }

    fn panic_site(&self, line: &str) -> Option<String> {
        Some("c17.panic".into())
    }
}

fn main() {
    main_for(&P);
}
