//! C08: extension fields — arithmetic equals polynomial arithmetic modulo the documented irreducible.
//! Op lines mirror lean/Winter/Drv/C08.lean.
//!
//! Line: `<tag> <op> <operands…>`; tag = q64 q62 q128 c64 c62 (coordinates are integers given to
//! `BaseElement::new`) or rq64 rq62 rq128 rc64 rc62 (coordinates are raw internal words: Montgomery images for
//! the 64/62-bit fields — for the 62-bit field possibly non-normalised, i.e. in [M, 2M)).
//! Output of an element: canonical integers of all coordinates followed by the raw words of all coordinates.
//!
//! Oracle (independent of the library): coefficient vectors over Z/p (wf_harness::oracle::{mulmod,addmod,submod}),
//! schoolbook product followed by reduction modulo the documented irreducible; x^p by the oracle's own
//! square-and-multiply; inverse judged by x * inv(x) = 1.
#![allow(dead_code, unused_variables, unused_imports, unused_mut)]
use wf_harness::core::*;
use wf_harness::fields::*;
use wf_harness::oracle::*;
use winter_math::{
    fields::{f128, f62, f64, CubeExtension, QuadExtension},
    ExtensibleField, ExtensionOf, FieldElement, StarkField,
};
use winter_utils::{AsBytes, ByteReader, Deserializable, DeserializationError, Randomizable, Serializable, SliceReader};

pub struct P;

// ------------------------------------------------------------------------------------ oracle
/// low coefficients f_0..f_{N-1} of the documented monic irreducible x^N + f_{N-1} x^{N-1} + … + f_0
fn irreducible(base: &str, n: usize) -> Vec<i64> {
    match (base, n) {
        ("f64", 2) => vec![2, -1],     // x^2 - x + 2
        ("f62", 2) => vec![-1, -1],    // x^2 - x - 1
        ("f128", 2) => vec![-1, -1],   // x^2 - x - 1
        ("f64", 3) => vec![-1, -1, 0], // x^3 - x - 1
        ("f62", 3) => vec![2, 2, 0],   // x^3 + 2x + 2
        _ => panic!("no documented irreducible"),
    }
}

#[derive(Clone)]
struct Orc {
    m: u128,
    n: usize,
    irr: Vec<i64>,
}

impl Orc {
    fn small(&self, k: i64) -> u128 {
        if k >= 0 {
            (k as u128) % self.m
        } else {
            submod(0, (-k) as u128, self.m)
        }
    }
    fn add(&self, a: &[u128], b: &[u128]) -> Vec<u128> {
        (0..self.n).map(|i| addmod(a[i], b[i], self.m)).collect()
    }
    fn sub(&self, a: &[u128], b: &[u128]) -> Vec<u128> {
        (0..self.n).map(|i| submod(a[i], b[i], self.m)).collect()
    }
    fn neg(&self, a: &[u128]) -> Vec<u128> {
        (0..self.n).map(|i| submod(0, a[i], self.m)).collect()
    }
    /// schoolbook product of the coefficient vectors, then reduction by x^N = -(f_{N-1} x^{N-1} + … + f_0)
    fn mul(&self, a: &[u128], b: &[u128]) -> Vec<u128> {
        let n = self.n;
        let mut c = vec![0u128; 2 * n - 1];
        for i in 0..n {
            for j in 0..n {
                c[i + j] = addmod(c[i + j], mulmod(a[i], b[j], self.m), self.m);
            }
        }
        for d in (n..2 * n - 1).rev() {
            let top = c[d];
            c[d] = 0;
            for i in 0..n {
                let t = mulmod(top, self.small(self.irr[i]), self.m);
                c[d - n + i] = submod(c[d - n + i], t, self.m);
            }
        }
        c.truncate(n);
        c
    }
    fn one(&self) -> Vec<u128> {
        let mut v = vec![0u128; self.n];
        v[0] = 1;
        v
    }
    fn zero(&self) -> Vec<u128> {
        vec![0u128; self.n]
    }
    fn pow(&self, a: &[u128], mut e: u128) -> Vec<u128> {
        let mut r = self.one();
        let mut b = a.to_vec();
        while e > 0 {
            if e & 1 == 1 {
                r = self.mul(&r, &b);
            }
            b = self.mul(&b, &b);
            e >>= 1;
        }
        r
    }
    fn is_zero(&self, a: &[u128]) -> bool {
        a.iter().all(|x| *x == 0)
    }
    fn emb(&self, x: u128) -> Vec<u128> {
        let mut v = self.zero();
        v[0] = x % self.m;
        v
    }
    fn in_base(&self, a: &[u128]) -> bool {
        a[1..].iter().all(|x| *x == 0)
    }
}

// ------------------------------------------------------------------------------------ uniform view
trait Ext<B: Fld>: FieldElement<BaseField = B> + ExtensionOf<B> + Serializable + Deserializable + Randomizable + AsBytes {
    const TAG: &'static str;
    const N: usize;
    fn mk(c: &[B]) -> Self;
    fn co(&self) -> Vec<B>;
    fn t_frob(c: &[B]) -> Vec<B>;
    fn t_mul(a: &[B], b: &[B]) -> Vec<B>;
    fn t_square(a: &[B]) -> Vec<B>;
    fn t_mul_base(a: &[B], b: B) -> Vec<B>;
    fn exp_u(self, e: u128) -> Self;
    fn expv_u(self, e: u128) -> Self;
    fn exp_bits() -> u32;
    fn try_u64(v: u64) -> Result<Self, ()>;
    fn try_u128(v: u128) -> Result<Self, ()>;
    fn try_bytes(b: &[u8]) -> Result<Self, ()>;
    fn small(v: u32) -> [Self; 3];
    fn supported() -> bool;
}

macro_rules! impl_ext {
    ($ty:ty, $b:ty, $n:expr, $tag:expr, $pi:ty, $mk:expr, $co:expr) => {
        impl Ext<$b> for $ty {
            const TAG: &'static str = $tag;
            const N: usize = $n;
            fn mk(c: &[$b]) -> Self {
                $mk(c)
            }
            fn co(&self) -> Vec<$b> {
                self.to_base_elements().to_vec()
            }
            fn t_frob(c: &[$b]) -> Vec<$b> {
                let a: [$b; $n] = c.try_into().unwrap();
                <$b as ExtensibleField<$n>>::frobenius(a).to_vec()
            }
            fn t_mul(a: &[$b], b: &[$b]) -> Vec<$b> {
                let a: [$b; $n] = a.try_into().unwrap();
                let b: [$b; $n] = b.try_into().unwrap();
                <$b as ExtensibleField<$n>>::mul(a, b).to_vec()
            }
            fn t_square(a: &[$b]) -> Vec<$b> {
                let a: [$b; $n] = a.try_into().unwrap();
                <$b as ExtensibleField<$n>>::square(a).to_vec()
            }
            fn t_mul_base(a: &[$b], b: $b) -> Vec<$b> {
                let a: [$b; $n] = a.try_into().unwrap();
                <$b as ExtensibleField<$n>>::mul_base(a, b).to_vec()
            }
            fn exp_u(self, e: u128) -> Self {
                self.exp(e as $pi)
            }
            fn expv_u(self, e: u128) -> Self {
                self.exp_vartime(e as $pi)
            }
            fn exp_bits() -> u32 {
                <$pi>::BITS
            }
            fn try_u64(v: u64) -> Result<Self, ()> {
                <Self as TryFrom<u64>>::try_from(v).map_err(|_| ())
            }
            fn try_u128(v: u128) -> Result<Self, ()> {
                <Self as TryFrom<u128>>::try_from(v).map_err(|_| ())
            }
            fn try_bytes(b: &[u8]) -> Result<Self, ()> {
                <Self as TryFrom<&[u8]>>::try_from(b).map_err(|_| ())
            }
            fn small(v: u32) -> [Self; 3] {
                [Self::from(v), Self::from(v as u16), Self::from(v as u8)]
            }
            fn supported() -> bool {
                <$ty>::is_supported()
            }
        }
    };
}

type Q64 = QuadExtension<f64::BaseElement>;
type Q62 = QuadExtension<f62::BaseElement>;
type Q128 = QuadExtension<f128::BaseElement>;
type C64 = CubeExtension<f64::BaseElement>;
type C62 = CubeExtension<f62::BaseElement>;

impl_ext!(Q64, f64::BaseElement, 2, "q64", u64, |c: &[f64::BaseElement]| Q64::new(c[0], c[1]), ());
impl_ext!(Q62, f62::BaseElement, 2, "q62", u64, |c: &[f62::BaseElement]| Q62::new(c[0], c[1]), ());
impl_ext!(Q128, f128::BaseElement, 2, "q128", u128, |c: &[f128::BaseElement]| Q128::new(c[0], c[1]), ());
impl_ext!(C64, f64::BaseElement, 3, "c64", u64, |c: &[f64::BaseElement]| C64::new(c[0], c[1], c[2]), ());
impl_ext!(C62, f62::BaseElement, 3, "c62", u64, |c: &[f62::BaseElement]| C62::new(c[0], c[1], c[2]), ());

fn orc<B: Fld, E: Ext<B>>() -> Orc {
    Orc { m: B::MOD, n: E::N, irr: irreducible(B::NAME, E::N) }
}

fn fmt_b<B: Fld>(c: &[B]) -> String {
    let mut v: Vec<String> = c.iter().map(|x| x.canon().to_string()).collect();
    v.extend(c.iter().map(|x| x.raw_word().to_string()));
    v.join(" ")
}

fn fmt_e<B: Fld, E: Ext<B>>(x: &E) -> String {
    fmt_b(&x.co())
}

fn vals<B: Fld, E: Ext<B>>(x: &E) -> Vec<u128> {
    x.co().iter().map(|c| c.canon()).collect()
}

/// base element from an operand word (raw internal word when `raw`)
fn base_of<B: Fld>(raw: bool, w: u128) -> B {
    if raw {
        B::from_raw_word(w)
    } else {
        B::from_word(w)
    }
}

/// the residue an operand word denotes, by the oracle
fn val_of<B: Fld>(raw: bool, w: u128) -> u128 {
    if raw {
        raw_val::<B>(w)
    } else {
        w % B::MOD
    }
}

/// the result must denote `expect`; every coordinate must satisfy the representation invariant of the base
/// field; the element must compare equal to, and serialize like, the element built from the canonical residues
fn check<B: Fld, E: Ext<B>>(mut o: Outcome, site: &str, x: &E, expect: &[u128]) -> Outcome {
    let got = vals(x);
    if got != expect {
        o = o.fail(format!("{}.{}.value", E::TAG, site), format!("got {:?} expected {:?}", got, expect));
    }
    for c in x.co() {
        if !B::raw_ok(c.raw_word()) {
            o = o.fail(
                format!("{}.{}.raw-out-of-range", E::TAG, site),
                format!("raw {} violates the representation invariant", c.raw_word()),
            );
        }
    }
    let reference = E::mk(&expect.iter().map(|v| B::from_word(*v)).collect::<Vec<_>>());
    if *x != reference {
        o = o.fail(format!("{}.{}.eq", E::TAG, site), format!("result != element of the residues {:?}", expect));
    }
    if x.to_bytes() != reference.to_bytes() {
        o = o.fail(format!("{}.{}.bytes", E::TAG, site), "serialization differs from that of the same residues");
    }
    o
}

fn same<B: Fld, E: Ext<B>>(mut o: Outcome, site: &str, what: &str, a: &E, b: &E) -> Outcome {
    if a != b || vals(a) != vals(b) {
        o = o.fail(format!("{}.{}", E::TAG, site), format!("{}: {:?} vs {:?}", what, vals(a), vals(b)));
    }
    o
}

fn parse_elems<B: Fld, E: Ext<B>>(raw: bool, t: &[&str], count: usize) -> Option<(Vec<E>, Vec<Vec<u128>>, Vec<u128>)> {
    // returns elements, their oracle values and the remaining numeric operands
    let nums: Option<Vec<u128>> = t.iter().map(|s| s.parse::<u128>().ok()).collect();
    let nums = nums?;
    if nums.len() < count * E::N {
        return None;
    }
    let mut es = vec![];
    let mut vs = vec![];
    for k in 0..count {
        let w = &nums[k * E::N..(k + 1) * E::N];
        es.push(E::mk(&w.iter().map(|x| base_of::<B>(raw, *x)).collect::<Vec<_>>()));
        vs.push(w.iter().map(|x| val_of::<B>(raw, *x)).collect::<Vec<_>>());
    }
    Some((es, vs, nums[count * E::N..].to_vec()))
}

fn exec_e<B: Fld, E: Ext<B>>(raw: bool, t: &[&str]) -> Outcome {
    let oc = orc::<B, E>();
    let m = oc.m;
    let n = E::N;
    if t.is_empty() {
        return Outcome::ok("bad-op");
    }
    let op = t[0];
    let rest = &t[1..];
    match op {
        "add" | "sub" | "mul" | "div" => {
            let Some((es, vs, extra)) = parse_elems::<B, E>(raw, rest, 2) else { return Outcome::ok("bad-op") };
            if !extra.is_empty() {
                return Outcome::ok("bad-op");
            }
            let (a, b) = (es[0], es[1]);
            let (r, mut r2) = match op {
                "add" => (a + b, a),
                "sub" => (a - b, a),
                "mul" => (a * b, a),
                _ => (a / b, a),
            };
            match op {
                "add" => r2 += b,
                "sub" => r2 -= b,
                "mul" => r2 *= b,
                _ => r2 /= b,
            }
            let mut o = Outcome::ok(fmt_e(&r));
            o = same(o, &format!("{}.assign", op), "op-assign differs from the operator", &r, &r2);
            match op {
                "add" => check(o, op, &r, &oc.add(&vs[0], &vs[1])),
                "sub" => check(o, op, &r, &oc.sub(&vs[0], &vs[1])),
                "mul" => {
                    let tm = E::mk(&E::t_mul(&a.co(), &b.co()));
                    o = same(o, "mul.trait", "operator differs from ExtensibleField::mul", &r, &tm);
                    check(o, op, &r, &oc.mul(&vs[0], &vs[1]))
                },
                _ => {
                    // a / b is the unique q with q * b = a (b != 0); division by zero yields zero
                    let q = vals(&r);
                    let e = if oc.is_zero(&vs[1]) { oc.zero() } else { vs[0].clone() };
                    let back = oc.mul(&q, &vs[1]);
                    if back != e {
                        o = o.fail(format!("{}.div.value", E::TAG), format!("(a/b)*b = {:?}, a = {:?}", back, e));
                    }
                    if oc.is_zero(&vs[1]) && !oc.is_zero(&q) {
                        o = o.fail(format!("{}.div.zero", E::TAG), "a / 0 is not 0");
                    }
                    check(o, op, &r, &q)
                },
            }
        },
        "sq" | "dbl" | "neg" | "inv" | "conj" | "frob" => {
            let Some((es, vs, extra)) = parse_elems::<B, E>(raw, rest, 1) else { return Outcome::ok("bad-op") };
            if !extra.is_empty() {
                return Outcome::ok("bad-op");
            }
            let a = es[0];
            let va = &vs[0];
            match op {
                "sq" => {
                    let r = a.square();
                    let mut o = Outcome::ok(fmt_e(&r));
                    o = same(o, "sq.mul", "square(a) differs from a * a", &r, &(a * a));
                    o = same(o, "sq.trait", "square differs from ExtensibleField::square", &r, &E::mk(&E::t_square(&a.co())));
                    check(o, op, &r, &oc.mul(va, va))
                },
                "dbl" => {
                    let r = a.double();
                    check(Outcome::ok(fmt_e(&r)), op, &r, &oc.add(va, va))
                },
                "neg" => {
                    let r = -a;
                    check(Outcome::ok(fmt_e(&r)), op, &r, &oc.neg(va))
                },
                "inv" => {
                    let r = a.inv();
                    let mut o = Outcome::ok(fmt_e(&r));
                    let q = vals(&r);
                    let prod = oc.mul(va, &q);
                    if oc.is_zero(va) {
                        if !oc.is_zero(&q) {
                            o = o.fail(format!("{}.inv.zero", E::TAG), "inv(0) is not 0");
                        }
                    } else if prod != oc.one() {
                        o = o.fail(format!("{}.inv.value", E::TAG), format!("x * inv(x) = {:?}", prod));
                    }
                    // the implementation's own product must be ONE as well
                    if !oc.is_zero(va) {
                        o = same(o, "inv.mul", "x * x.inv() != ONE", &(a * r), &E::ONE);
                    }
                    check(o, op, &r, &q)
                },
                _ => {
                    // conjugate / frobenius: x -> x^p, computed by the oracle's own square-and-multiply
                    let r = if op == "conj" { a.conjugate() } else { E::mk(&E::t_frob(&a.co())) };
                    let mut o = Outcome::ok(fmt_e(&r));
                    let e = oc.pow(va, m);
                    // fixes exactly the base field
                    let fixed = vals(&r) == *va;
                    if fixed != oc.in_base(va) {
                        o = o.fail(
                            format!("{}.{}.fixes", E::TAG, op),
                            format!("conjugate(x) == x is {} but x in base field is {}", fixed, oc.in_base(va)),
                        );
                    }
                    if (r == a) != oc.in_base(va) {
                        o = o.fail(format!("{}.{}.fixes-eq", E::TAG, op), "== disagrees with membership in the base field");
                    }
                    // order divides N: applying it N times is the identity
                    let mut back = r;
                    for _ in 1..n {
                        back = back.conjugate();
                    }
                    if vals(&back) != *va {
                        o = o.fail(format!("{}.{}.order", E::TAG, op), "N-fold conjugation is not the identity");
                    }
                    check(o, op, &r, &e)
                },
            }
        },
        "aut" => {
            // conjugation is a ring homomorphism
            let Some((es, vs, extra)) = parse_elems::<B, E>(raw, rest, 2) else { return Outcome::ok("bad-op") };
            if !extra.is_empty() {
                return Outcome::ok("bad-op");
            }
            let (a, b) = (es[0], es[1]);
            let r = (a * b).conjugate();
            let s = (a + b).conjugate();
            let mut o = Outcome::ok(format!("{} {}", fmt_e(&r), fmt_e(&s)));
            o = same(o, "aut.mul", "conj(a*b) != conj(a)*conj(b)", &r, &(a.conjugate() * b.conjugate()));
            o = same(o, "aut.add", "conj(a+b) != conj(a)+conj(b)", &s, &(a.conjugate() + b.conjugate()));
            o = same(o, "aut.one", "conj(1) != 1", &E::ONE.conjugate(), &E::ONE);
            o = check(o, "aut.sum", &s, &oc.pow(&oc.add(&vs[0], &vs[1]), m));
            check(o, "aut", &r, &oc.pow(&oc.mul(&vs[0], &vs[1]), m))
        },
        "mulbase" => {
            let Some((es, vs, extra)) = parse_elems::<B, E>(raw, rest, 1) else { return Outcome::ok("bad-op") };
            if extra.len() != 1 {
                return Outcome::ok("bad-op");
            }
            let a = es[0];
            let b = base_of::<B>(raw, extra[0]);
            let vb = val_of::<B>(raw, extra[0]);
            let r = a.mul_base(b);
            let mut o = Outcome::ok(fmt_e(&r));
            o = same(o, "mulbase.mul", "mul_base(a, b) != a * E::from(b)", &r, &(a * E::from(b)));
            o = same(o, "mulbase.trait", "mul_base differs from ExtensibleField::mul_base", &r, &E::mk(&E::t_mul_base(&a.co(), b)));
            check(o, op, &r, &oc.mul(&vs[0], &oc.emb(vb)))
        },
        "emb" => {
            // embedding of the base field is a ring homomorphism
            let nums: Option<Vec<u128>> = rest.iter().map(|s| s.parse::<u128>().ok()).collect();
            let Some(nums) = nums else { return Outcome::ok("bad-op") };
            if nums.len() != 2 {
                return Outcome::ok("bad-op");
            }
            let (x, y) = (base_of::<B>(raw, nums[0]), base_of::<B>(raw, nums[1]));
            let (vx, vy) = (val_of::<B>(raw, nums[0]), val_of::<B>(raw, nums[1]));
            let (ex, ey) = (E::from(x), E::from(y));
            let pr = ex * ey;
            let su = ex + ey;
            let di = ex - ey;
            let mut o = Outcome::ok(format!("{} {} {}", fmt_e(&pr), fmt_e(&su), fmt_e(&di)));
            o = same(o, "emb.mul", "E::from(x)*E::from(y) != E::from(x*y)", &pr, &E::from(x * y));
            o = same(o, "emb.add", "E::from(x)+E::from(y) != E::from(x+y)", &su, &E::from(x + y));
            o = same(o, "emb.sub", "E::from(x)-E::from(y) != E::from(x-y)", &di, &E::from(x - y));
            o = same(o, "emb.neg", "-E::from(x) != E::from(-x)", &(-ex), &E::from(-x));
            o = same(o, "emb.one", "E::from(ONE) != ONE", &E::from(<B as FieldElement>::ONE), &E::ONE);
            o = same(o, "emb.zero", "E::from(ZERO) != ZERO", &E::from(<B as FieldElement>::ZERO), &E::ZERO);
            if ex.co()[0] != x || ex.base_element(0) != x || !oc.in_base(&vals(&ex)) {
                o = o.fail(format!("{}.emb.coords", E::TAG), "E::from(x) is not (x, 0, …)");
            }
            o = check(o, "emb.sum", &su, &oc.emb(addmod(vx, vy, m)));
            o = check(o, "emb.diff", &di, &oc.emb(submod(vx, vy, m)));
            check(o, "emb", &pr, &oc.emb(mulmod(vx, vy, m)))
        },
        "exp" => {
            let Some((es, vs, extra)) = parse_elems::<B, E>(raw, rest, 1) else { return Outcome::ok("bad-op") };
            if extra.len() != 1 {
                return Outcome::ok("bad-op");
            }
            let e = if E::exp_bits() == 64 { extra[0] & 0xFFFF_FFFF_FFFF_FFFF } else { extra[0] };
            let r = es[0].exp_u(e);
            check(Outcome::ok(fmt_e(&r)), op, &r, &oc.pow(&vs[0], e))
        },
        // twin entry points (DESIGN 9.5 lesson 14): the trait defaults `cube` and `exp_vartime` (math/src/field/traits.rs),
        // which the extension types inherit; residues only are compared with the model's mul / exp
        "cube" => {
            let Some((es, vs, extra)) = parse_elems::<B, E>(raw, rest, 1) else { return Outcome::ok("bad-op") };
            if !extra.is_empty() {
                return Outcome::ok("bad-op");
            }
            let r = es[0].cube();
            let o = Outcome::ok(vals(&r).iter().map(|x| x.to_string()).collect::<Vec<_>>().join(" "));
            check(o, op, &r, &oc.mul(&oc.mul(&vs[0], &vs[0]), &vs[0]))
        },
        "expv" => {
            let Some((es, vs, extra)) = parse_elems::<B, E>(raw, rest, 1) else { return Outcome::ok("bad-op") };
            if extra.len() != 1 {
                return Outcome::ok("bad-op");
            }
            let e = if E::exp_bits() == 64 { extra[0] & 0xFFFF_FFFF_FFFF_FFFF } else { extra[0] };
            let r = es[0].expv_u(e);
            let o = Outcome::ok(vals(&r).iter().map(|x| x.to_string()).collect::<Vec<_>>().join(" "));
            check(o, "exp_vartime", &r, &oc.pow(&vs[0], e))
        },
        "ser" => {
            let Some((es, vs, extra)) = parse_elems::<B, E>(raw, rest, 1) else { return Outcome::ok("bad-op") };
            if !extra.is_empty() {
                return Outcome::ok("bad-op");
            }
            let a = es[0];
            let bytes = a.to_bytes();
            let mut o = Outcome::ok(format!("{} {}", hex(&bytes), hex(a.as_bytes())));
            let nb = <B as FieldElement>::ELEMENT_BYTES;
            let mut exp: Vec<u8> = vec![];
            for v in &vs[0] {
                exp.extend((0..nb).map(|i| (v >> (8 * i)) as u8));
            }
            if bytes != exp || bytes.len() != E::ELEMENT_BYTES {
                o = o.fail(format!("{}.to_bytes", E::TAG), "not the concatenated canonical little-endian encodings");
            }
            match E::read_from_bytes(&bytes) {
                Ok(y) if y == a && vals(&y) == vs[0] => {},
                _ => o = o.fail(format!("{}.roundtrip", E::TAG), "read_from_bytes(to_bytes(x)) != x"),
            }
            match E::try_bytes(&bytes) {
                Ok(y) if y == a && vals(&y) == vs[0] => {},
                _ => o = o.fail(format!("{}.roundtrip.try_from", E::TAG), "try_from(to_bytes(x)) != x"),
            }
            match E::from_random_bytes(&bytes) {
                Some(y) if y == a => {},
                _ => o = o.fail(format!("{}.roundtrip.random", E::TAG), "from_random_bytes(to_bytes(x)) != x"),
            }
            // write_into on a caller's (non-empty) writer next to to_bytes; Display shows the canonical coordinates
            let mut w: Vec<u8> = vec![0xa5];
            a.write_into(&mut w);
            if w[0] != 0xa5 || w[1..] != exp[..] {
                o = o.fail(format!("{}.write_into", E::TAG), "write_into does not append the canonical encoding");
            }
            let shown = format!("{}", a);
            let want = format!("({})", vs[0].iter().map(|v| v.to_string()).collect::<Vec<_>>().join(", "));
            if shown != want {
                o = o.fail(format!("{}.display", E::TAG), format!("printed as {} instead of {}", shown, want));
            }
            o
        },
        "read" => {
            if rest.len() != 1 {
                return Outcome::ok("bad-op");
            }
            let bytes = unhex(rest[0]);
            let mut rd = SliceReader::new(&bytes);
            let r = E::read_from(&mut rd);
            let nb = <B as FieldElement>::ELEMENT_BYTES;
            // expected by the definition: N little-endian base encodings, each < M
            let mut expect: Option<Vec<u128>> = if bytes.len() >= n * nb { Some(vec![]) } else { None };
            if let Some(v) = expect.as_mut() {
                for k in 0..n {
                    let mut w: u128 = 0;
                    for i in 0..nb {
                        w |= (bytes[k * nb + i] as u128) << (8 * i);
                    }
                    v.push(w);
                }
            }
            let valid = expect.as_ref().map(|v| v.iter().all(|w| *w < m)).unwrap_or(false);
            match r {
                Ok(x) => {
                    let mut o = Outcome::ok(format!("ok {} {}", fmt_e(&x), bytes.len() - n * nb));
                    if !valid || vals(&x) != expect.unwrap() {
                        o = o.fail(format!("{}.read.accept", E::TAG), "accepted bytes that do not encode an element, or wrong value");
                    }
                    o
                },
                Err(DeserializationError::UnexpectedEOF) => {
                    let mut o = Outcome::ok("eof");
                    if valid {
                        o = o.fail(format!("{}.read.reject", E::TAG), "rejected a valid encoding");
                    }
                    o
                },
                Err(_) => {
                    let mut o = Outcome::ok("err");
                    if valid {
                        o = o.fail(format!("{}.read.reject", E::TAG), "rejected a valid encoding");
                    }
                    o
                },
            }
        },
        "frombytes" => {
            if rest.len() != 1 {
                return Outcome::ok("bad-op");
            }
            let bytes = unhex(rest[0]);
            let r = E::try_bytes(&bytes);
            let r2 = E::from_random_bytes(&bytes);
            let nb = <B as FieldElement>::ELEMENT_BYTES;
            let mut should = bytes.len() == n * nb;
            let mut expect = vec![];
            if should {
                for k in 0..n {
                    let mut w: u128 = 0;
                    for i in 0..nb {
                        w |= (bytes[k * nb + i] as u128) << (8 * i);
                    }
                    if w >= m {
                        should = false;
                    }
                    expect.push(w);
                }
            }
            let mut o = Outcome::ok(match &r {
                Ok(x) => format!("ok {}", fmt_e(x)),
                Err(_) => "err".into(),
            });
            if r.is_ok() != should || r2.is_some() != should {
                o = o.fail(format!("{}.try_from_bytes", E::TAG), format!("accept={} expected={}", r.is_ok(), should));
            }
            if let Ok(x) = r {
                if vals(&x) != expect {
                    o = o.fail(format!("{}.try_from_bytes", E::TAG), "wrong value");
                }
            }
            o
        },
        "tryfrom" => {
            let Some(v) = rest.first().and_then(|s| s.parse::<u128>().ok()) else { return Outcome::ok("bad-op") };
            let r = E::try_u128(v);
            let mut o = Outcome::ok(match &r {
                Ok(x) => format!("ok {}", fmt_e(x)),
                Err(_) => "err".into(),
            });
            match &r {
                Ok(x) if v >= m || vals(x) != oc.emb(v) => o = o.fail(format!("{}.try_from", E::TAG), format!("accepted {}", v)),
                Err(_) if v < m => o = o.fail(format!("{}.try_from", E::TAG), format!("rejected {}", v)),
                _ => {},
            }
            if v <= u64::MAX as u128 {
                let r64 = E::try_u64(v as u64);
                if r64.is_ok() != r.is_ok() || (r64.is_ok() && r64.unwrap() != r.unwrap()) {
                    o = o.fail(format!("{}.try_from.u64", E::TAG), "TryFrom<u64> differs from TryFrom<u128>");
                }
            }
            o
        },
        "small" => {
            let Some(v) = rest.first().and_then(|s| s.parse::<u128>().ok()) else { return Outcome::ok("bad-op") };
            let v = v as u32;
            let r = E::small(v);
            let mut o = Outcome::ok(format!("{} {} {}", fmt_e(&r[0]), fmt_e(&r[1]), fmt_e(&r[2])));
            o = check(o, "from_u32", &r[0], &oc.emb(v as u128));
            o = check(o, "from_u16", &r[1], &oc.emb((v as u16) as u128));
            check(o, "from_u8", &r[2], &oc.emb((v as u8) as u128))
        },
        "basee" => {
            let Some((es, vs, extra)) = parse_elems::<B, E>(raw, rest, 1) else { return Outcome::ok("bad-op") };
            if extra.len() != 1 {
                return Outcome::ok("bad-op");
            }
            let i = extra[0] as usize;
            let b = es[0].base_element(i); // panics for i >= N (documented)
            let mut o = Outcome::ok(fmt_b(&[b]));
            if b.canon() != vs[0][i] {
                o = o.fail(format!("{}.base_element", E::TAG), "wrong coordinate");
            }
            o
        },
        "bytes" => {
            // bytes_as_elements on a byte slice at offset `off` of a 16-byte aligned buffer (misaligned slices,
            // lengths that are not a whole number of elements)
            if rest.len() != 2 {
                return Outcome::ok("bad-op");
            }
            let Some(off) = rest[0].parse::<usize>().ok().filter(|o| *o < 64) else { return Outcome::ok("bad-op") };
            let data = unhex(rest[1]);
            let mut buf: Vec<u128> = vec![0u128; (off + data.len()) / 16 + 2];
            let base = buf.as_mut_ptr() as *mut u8;
            if (base as usize) % 16 != 0 {
                return Outcome::ok("-");
            }
            let all: &mut [u8] = unsafe { std::slice::from_raw_parts_mut(base, buf.len() * 16) };
            all[off..off + data.len()].copy_from_slice(&data);
            let sl: &[u8] = &all[off..off + data.len()];
            let nb = <B as FieldElement>::ELEMENT_BYTES;
            let should = data.len() % E::ELEMENT_BYTES == 0 && off % nb == 0;
            match unsafe { E::bytes_as_elements(sl) } {
                Ok(es) => {
                    let back = E::elements_as_bytes(es);
                    let mut o = Outcome::ok(format!("ok {} {}", es.len(), hex(back)));
                    if !should {
                        o = o.fail(
                            format!("{}.bytes.accept", E::TAG),
                            format!("accepted {} bytes at offset {} (element {} bytes, base alignment {})", data.len(), off, E::ELEMENT_BYTES, nb),
                        );
                    }
                    if es.len() * E::ELEMENT_BYTES != data.len() || back != data.as_slice() {
                        o = o.fail(format!("{}.bytes.value", E::TAG), "elements do not cover exactly the given bytes");
                    }
                    // raw words of every coordinate are the little-endian words of the bytes
                    if should && B::NAME != "f128" {
                        for (k, e) in es.iter().enumerate() {
                            for (j, c) in e.co().iter().enumerate() {
                                let at = (k * n + j) * nb;
                                let mut w: u128 = 0;
                                for i in 0..nb {
                                    w |= (data[at + i] as u128) << (8 * i);
                                }
                                if c.raw_word() != w {
                                    o = o.fail(format!("{}.bytes.word", E::TAG), format!("coordinate {} of element {}", j, k));
                                }
                            }
                        }
                    }
                    o
                },
                Err(_) => {
                    let mut o = Outcome::ok("err");
                    if should {
                        o = o.fail(format!("{}.bytes.reject", E::TAG), "rejected an aligned whole number of elements");
                    }
                    o
                },
            }
        },
        "flat" => {
            // slice reinterpretation: base elements -> extension elements -> base elements / bytes -> elements
            let nums: Option<Vec<u128>> = rest.iter().filter(|s| **s != "-").map(|s| s.parse::<u128>().ok()).collect();
            let Some(nums) = nums else { return Outcome::ok("bad-op") };
            let base: Vec<B> = nums.iter().map(|w| base_of::<B>(raw, *w)).collect();
            let bvals: Vec<u128> = nums.iter().map(|w| val_of::<B>(raw, *w)).collect();
            let elems: &[E] = E::slice_from_base_elements(&base); // panics when len % N != 0 (documented)
            let mut o = Outcome::ok("");
            if elems.len() * n != base.len() {
                o = o.fail(format!("{}.flat.len", E::TAG), "wrong number of elements");
            }
            for (k, e) in elems.iter().enumerate() {
                if e.co() != base[k * n..(k + 1) * n].to_vec() || vals(e) != bvals[k * n..(k + 1) * n].to_vec() {
                    o = o.fail(format!("{}.flat.from_base", E::TAG), format!("element {} differs from its base elements", k));
                }
            }
            let back: &[B] = E::slice_as_base_elements(elems);
            if back != base.as_slice() || back.iter().map(|x| x.raw_word()).collect::<Vec<_>>() != base.iter().map(|x| x.raw_word()).collect::<Vec<_>>() {
                o = o.fail(format!("{}.flat.as_base", E::TAG), "slice_as_base_elements(slice_from_base_elements(v)) != v");
            }
            // owned copy: elements -> base -> elements
            let owned: Vec<E> = elems.to_vec();
            let again: &[E] = E::slice_from_base_elements(E::slice_as_base_elements(&owned));
            if again != owned.as_slice() {
                o = o.fail(format!("{}.flat.roundtrip", E::TAG), "slice_from_base_elements(slice_as_base_elements(e)) != e");
            }
            let bytes: &[u8] = E::elements_as_bytes(&owned);
            if bytes.len() != owned.len() * E::ELEMENT_BYTES {
                o = o.fail(format!("{}.flat.bytes.len", E::TAG), "elements_as_bytes has the wrong length");
            }
            let per: Vec<u8> = owned.iter().flat_map(|e| e.as_bytes().to_vec()).collect();
            if per != bytes {
                o = o.fail(format!("{}.flat.bytes.as_bytes", E::TAG), "elements_as_bytes != concatenated as_bytes");
            }
            match unsafe { E::bytes_as_elements(bytes) } {
                Ok(es2) if es2 == owned.as_slice() => {},
                Ok(_) => o = o.fail(format!("{}.flat.bytes.roundtrip", E::TAG), "bytes_as_elements(elements_as_bytes(e)) != e"),
                Err(_) => o = o.fail(format!("{}.flat.bytes.roundtrip", E::TAG), "bytes_as_elements rejected elements_as_bytes(e)"),
            }
            // a byte slice whose length is not a whole number of elements is rejected
            if !bytes.is_empty() {
                if unsafe { E::bytes_as_elements(&bytes[..bytes.len() - 1]) }.is_ok() {
                    o = o.fail(format!("{}.flat.bytes.len-check", E::TAG), "accepted a truncated byte slice");
                }
            }
            let mut out: Vec<String> = vec![elems.len().to_string()];
            out.extend(owned.iter().map(|e| fmt_e(e)));
            out.push(hex(bytes));
            o.out = out.join(" ");
            o
        },
        "seq" => {
            let k = rest.iter().position(|s| s.parse::<u128>().is_err()).unwrap_or(rest.len());
            let Some((es, vs, extra)) = parse_elems::<B, E>(raw, &rest[..k], 2) else { return Outcome::ok("bad-op") };
            if !extra.is_empty() {
                return Outcome::ok("bad-op");
            }
            let (mut acc, mut y) = (es[0], es[1]);
            let (mut va, mut vy) = (vs[0].clone(), vs[1].clone());
            let mut o = Outcome::ok("");
            for s in &rest[k..] {
                match *s {
                    "add" => {
                        acc = acc + y;
                        va = oc.add(&va, &vy);
                    },
                    "sub" => {
                        acc = acc - y;
                        va = oc.sub(&va, &vy);
                    },
                    "mul" => {
                        acc = acc * y;
                        va = oc.mul(&va, &vy);
                    },
                    "neg" => {
                        acc = -acc;
                        va = oc.neg(&va);
                    },
                    "dbl" => {
                        acc = acc.double();
                        va = oc.add(&va, &va);
                    },
                    "sq" => {
                        acc = acc.square();
                        va = oc.mul(&va, &va);
                    },
                    "conj" => {
                        acc = acc.conjugate();
                        va = oc.pow(&va, m);
                    },
                    "frob" => {
                        acc = E::mk(&E::t_frob(&acc.co()));
                        va = oc.pow(&va, m);
                    },
                    "mb" => {
                        // multiplication by the base element y[0]
                        acc = acc.mul_base(y.co()[0]);
                        va = oc.mul(&va, &oc.emb(vy[0]));
                    },
                    "swap" => {
                        core::mem::swap(&mut acc, &mut y);
                        core::mem::swap(&mut va, &mut vy);
                    },
                    "inv" => {
                        acc = acc.inv();
                        let q = vals(&acc);
                        if !oc.is_zero(&va) && oc.mul(&q, &va) != oc.one() {
                            o = o.fail(format!("{}.seq.inv", E::TAG), "x * inv(x) != 1");
                        }
                        va = if oc.is_zero(&va) { oc.zero() } else { q };
                    },
                    "div" => {
                        acc = acc / y;
                        let q = vals(&acc);
                        if !oc.is_zero(&vy) && oc.mul(&q, &vy) != va {
                            o = o.fail(format!("{}.seq.div", E::TAG), "(a/b)*b != a");
                        }
                        va = if oc.is_zero(&vy) { oc.zero() } else { q };
                    },
                    _ => return Outcome::ok("bad-op"),
                }
                // judged at every step: value and representation invariant of every coordinate
                if vals(&acc) != va {
                    o = o.fail(
                        format!("{}.seq.{}.value", E::TAG, s),
                        format!("after `{}`: got {:?} expected {:?}", s, vals(&acc), va),
                    );
                    va = vals(&acc); // judge the following steps on their own
                }
                if acc.co().iter().any(|c| !B::raw_ok(c.raw_word())) {
                    o = o.fail(format!("{}.seq.{}.raw-out-of-range", E::TAG, s), format!("after `{}`", s));
                }
            }
            let e = acc == y;
            o.out = format!("{} {} {}", fmt_e(&acc), fmt_e(&y), if e { 1 } else { 0 });
            o = check(o, "seq", &acc, &va);
            o = check(o, "seq", &y, &vy);
            if e != (va == vy) {
                o = o.fail(format!("{}.seq.eq", E::TAG), format!("== is {} but residues are {:?} and {:?}", e, va, vy));
            }
            o
        },
        "const" => {
            let mut o = Outcome::ok(format!(
                "{} {} {} {} {} {}",
                fmt_e(&E::ZERO),
                fmt_e(&E::ONE),
                E::ELEMENT_BYTES,
                E::EXTENSION_DEGREE,
                if E::supported() { 1 } else { 0 },
                if E::IS_CANONICAL { 1 } else { 0 }
            ));
            if vals(&E::ZERO) != oc.zero() || vals(&E::ONE) != oc.one() {
                o = o.fail(format!("{}.const", E::TAG), "ZERO / ONE");
            }
            if E::default() != E::ZERO || <E as Randomizable>::VALUE_SIZE != E::ELEMENT_BYTES || E::IS_CANONICAL != <B as FieldElement>::IS_CANONICAL {
                o = o.fail(format!("{}.const", E::TAG), "Default / VALUE_SIZE / IS_CANONICAL");
            }
            if E::ONE.exp_vartime(<E as FieldElement>::PositiveInteger::from(5u32)) != E::ONE || E::ONE.double() != E::ONE + E::ONE {
                o = o.fail(format!("{}.const", E::TAG), "exp_vartime / double on ONE");
            }
            if E::EXTENSION_DEGREE != n || E::ELEMENT_BYTES != n * <B as FieldElement>::ELEMENT_BYTES || !E::supported() {
                o = o.fail(format!("{}.const", E::TAG), "degree / size / is_supported");
            }
            // the documented irreducible: phi = (0, 1, [0]) is a root, i.e. f(phi) = 0 in the implementation
            let mut phi = vec![<B as FieldElement>::ZERO; n];
            phi[1] = <B as FieldElement>::ONE;
            let phi = E::mk(&phi);
            let mut acc = phi.exp_u(n as u128);
            let mut pw = E::ONE;
            for i in 0..n {
                let c = oc.small(oc.irr[i]);
                acc = acc + pw.mul_base(B::from_word(c));
                pw = pw * phi;
            }
            if acc != E::ZERO {
                o = o.fail(format!("{}.const.irreducible", E::TAG), "phi is not a root of the documented irreducible polynomial");
            }
            o
        },
        _ => Outcome::ok("bad-op"),
    }
}

// ------------------------------------------------------------------------------------ generators
fn gen_e<B: Fld, E: Ext<B>>(rng: &mut Rng, tier: Tier, n_rand: usize, emit0: &mut dyn FnMut(String)) {
    // twins on the grids of their twins: every `exp` line is followed by the same line for `exp_vartime`, every second
    // `sq` line by the same operand for `cube`
    let mut sq_seen = 0usize;
    let mut emit = |l: String| {
        let twin = {
            let mut it = l.splitn(3, ' ');
            match (it.next(), it.next(), it.next()) {
                (Some(tg), Some("exp"), Some(rest)) => Some(format!("{} expv {}", tg, rest)),
                (Some(tg), Some("sq"), Some(rest)) => {
                    sq_seen += 1;
                    if sq_seen % 2 == 0 { Some(format!("{} cube {}", tg, rest)) } else { None }
                },
                _ => None,
            }
        };
        emit0(l);
        if let Some(t) = twin {
            emit0(t);
        }
    };
    let tag = E::TAG;
    let rtag = format!("r{}", tag);
    let n = E::N;
    let bits = B::word_bits();
    let m = B::MOD;
    let f = B::NAME;
    let bnd = boundary(m, bits);
    let rawlim = if f == "f62" { 2 * m } else { m };
    let braw: Vec<u128> = bnd.iter().cloned().filter(|x| *x < rawlim).collect();
    let rnd = |rng: &mut Rng| -> u128 {
        let v = rng.u128();
        if bits == 64 {
            v & 0xFFFFFFFFFFFFFFFF
        } else {
            v
        }
    };
    let rnd_raw = |rng: &mut Rng| -> u128 { rng.u128() % rawlim };
    let join = |v: &[u128]| v.iter().map(|x| x.to_string()).collect::<Vec<_>>().join(" ");
    let heavy_scale = if bits == 128 { 4 } else { 1 }; // the oracle's 128-bit mulmod is slow

    emit(format!("{} const", tag));

    // reduced boundary set: full product over pairs of elements
    let red: Vec<u128> = if n == 2 {
        let mut v = vec![0, 1, 2, m - 1, m - 2, (m - 1) / 2, (m + 1) / 2];
        if bits == 64 {
            v.push(1 << 32);
            v.push(0xFFFFFFFF);
        } else {
            v.push(1 << 64);
            v.push((1 << 127) + 1);
        }
        if tier == Tier::Quick && bits == 128 {
            v.truncate(7);
        }
        v
    } else {
        vec![0, 1, 2, m - 1, (m + 1) / 2]
    };
    let mut tuples: Vec<Vec<u128>> = vec![vec![]];
    for _ in 0..2 * n {
        let mut next = vec![];
        for t in &tuples {
            for v in &red {
                let mut t2 = t.clone();
                t2.push(*v);
                next.push(t2);
            }
        }
        tuples = next;
    }
    for t in &tuples {
        emit(format!("{} mul {}", tag, join(t)));
    }
    // all single elements over the reduced set (larger for unary ops): every unary op
    let un_set: Vec<u128> = if n == 2 { bnd.clone() } else { red.iter().cloned().chain([3, 7, m - 2, (m - 1) / 2, 1 << 32]).collect() };
    let mut singles: Vec<Vec<u128>> = vec![vec![]];
    for _ in 0..n {
        let mut next = vec![];
        for t in &singles {
            for v in &un_set {
                let mut t2 = t.clone();
                t2.push(*v);
                next.push(t2);
            }
        }
        singles = next;
    }
    let heavy_every = if tier == Tier::Quick { 3 * heavy_scale } else { 1 };
    for (k, t) in singles.iter().enumerate() {
        emit(format!("{} sq {}", tag, join(t)));
        emit(format!("{} neg {}", tag, join(t)));
        emit(format!("{} dbl {}", tag, join(t)));
        if k % heavy_every == 0 || t.iter().all(|x| *x <= 2 || *x >= m - 2) {
            emit(format!("{} inv {}", tag, join(t)));
            emit(format!("{} conj {}", tag, join(t)));
        }
        if k % (7 * heavy_every) == 0 {
            emit(format!("{} frob {}", tag, join(t)));
            emit(format!("{} ser {}", tag, join(t)));
        }
    }

    // every boundary word in every position of either operand, other coordinates random / boundary
    let ops2 = ["add", "sub", "mul", "div", "aut"];
    for (wi, w) in bnd.iter().enumerate() {
        for pos in 0..2 * n {
            for (oi, op) in ops2.iter().enumerate() {
                if (*op == "div" || *op == "aut") && tier == Tier::Quick && (wi + pos + oi) % (2 * heavy_scale as usize) != 0 {
                    continue;
                }
                for variant in 0..2 {
                    let mut t: Vec<u128> = (0..2 * n).map(|_| if variant == 0 { rnd(rng) } else { *rng.pick(&bnd) }).collect();
                    t[pos] = *w;
                    emit(format!("{} {} {}", tag, op, join(&t)));
                }
            }
        }
        for pos in 0..n {
            let mut t: Vec<u128> = (0..n).map(|_| rnd(rng)).collect();
            t[pos] = *w;
            emit(format!("{} mulbase {} {}", tag, join(&t), rnd(rng)));
            emit(format!("{} mulbase {} {}", tag, join(&(0..n).map(|_| rnd(rng)).collect::<Vec<_>>()), w));
            emit(format!("{} inv {}", tag, join(&t)));
            emit(format!("{} conj {}", tag, join(&t)));
            emit(format!("{} sq {}", tag, join(&t)));
            emit(format!("{} exp {} {}", tag, join(&t), *rng.pick(&[0u128, 1, 2, 3, 5, 64, 255])));
            emit(format!("{} basee {} {}", tag, join(&t), pos));
        }
        emit(format!("{} emb {} {}", tag, w, rnd(rng)));
        emit(format!("{} emb {} {}", tag, rnd(rng), w));
        emit(format!("{} emb {} {}", tag, w, *rng.pick(&bnd)));
        emit(format!("{} tryfrom {}", tag, w));
        emit(format!("{} small {}", tag, w));
    }
    // raw internal words (Montgomery images; for the 62-bit field also non-normalised ones) in every position
    for (wi, w) in braw.iter().enumerate() {
        for pos in 0..2 * n {
            for (oi, op) in ops2.iter().enumerate() {
                if (*op == "div" || *op == "aut") && tier == Tier::Quick && (wi + pos + oi) % (2 * heavy_scale as usize) != 0 {
                    continue;
                }
                for variant in 0..2 {
                    let mut t: Vec<u128> = (0..2 * n).map(|_| if variant == 0 { rnd_raw(rng) } else { *rng.pick(&braw) }).collect();
                    t[pos] = *w;
                    emit(format!("{} {} {}", rtag, op, join(&t)));
                }
            }
        }
        for pos in 0..n {
            let mut t: Vec<u128> = (0..n).map(|_| if rng.chance(1, 2) { rnd_raw(rng) } else { *rng.pick(&braw) }).collect();
            t[pos] = *w;
            emit(format!("{} mulbase {} {}", rtag, join(&t), *rng.pick(&braw)));
            emit(format!("{} inv {}", rtag, join(&t)));
            emit(format!("{} conj {}", rtag, join(&t)));
            emit(format!("{} frob {}", rtag, join(&t)));
            emit(format!("{} sq {}", rtag, join(&t)));
            emit(format!("{} neg {}", rtag, join(&t)));
            emit(format!("{} dbl {}", rtag, join(&t)));
            emit(format!("{} ser {}", rtag, join(&t)));
            emit(format!("{} exp {} {}", rtag, join(&t), *rng.pick(&[0u128, 1, 2, 3, 6, 127])));
        }
        emit(format!("{} emb {} {}", rtag, w, *rng.pick(&braw)));
    }
    // all-raw-boundary elements of the 62-bit field: zero / one in all their non-normalised spellings
    if f == "f62" {
        let r_one = raw_one62();
        let spell: Vec<u128> = vec![0, m, r_one, r_one + m, m - 1, 2 * m - 1, 1, m + 1];
        let mut all: Vec<Vec<u128>> = vec![vec![]];
        for _ in 0..n {
            let mut next = vec![];
            for t in &all {
                for v in &spell {
                    let mut t2 = t.clone();
                    t2.push(*v);
                    next.push(t2);
                }
            }
            all = next;
        }
        for t in &all {
            for op in ["inv", "conj", "sq", "neg", "ser"] {
                emit(format!("{} {} {}", rtag, op, join(t)));
            }
            emit(format!("{} exp {} {}", rtag, join(t), 3));
            emit(format!("{} exp {} {}", rtag, join(t), 0));
            let other: Vec<u128> = (0..n).map(|_| *rng.pick(&spell)).collect();
            emit(format!("{} div {} {}", rtag, join(&other), join(t)));
            emit(format!("{} mul {} {}", rtag, join(&other), join(t)));
            emit(format!("{} seq {} {} sub inv", rtag, join(t), join(t)));
        }
    }


    // operation sequences: sub / neg / add of small-integer, boundary and random elements (these produce the
    // internal words in the upper part of the representation range) followed by conj / frob / inv / div / mul_base / sq
    {
        let finals: [&[&str]; 10] = [
            &["conj"], &["frob"], &["inv"], &["swap", "div"], &["mb"], &["sq"], &["conj", "inv"], &["inv", "conj"], &["frob", "frob"],
            &["mb", "inv"],
        ];
        let prefixes: [&[&str]; 8] =
            [&["neg"], &["sub"], &["sub", "neg"], &["add", "neg"], &["neg", "sub"], &["sub", "sub"], &["dbl", "neg"], &["neg", "add"]];
        // small-integer grid, negated / subtracted, then every final
        let lim: u128 = if n == 2 { 24 } else { 12 };
        let mut grid: Vec<Vec<u128>> = vec![vec![]];
        for _ in 0..n {
            let mut next = vec![];
            for t in &grid {
                for v in 0..lim {
                    let mut t2 = t.clone();
                    t2.push(v);
                    next.push(t2);
                }
            }
            grid = next;
        }
        let heavy = heavy_scale as usize;
        for (gi, g) in grid.iter().enumerate() {
            let other: Vec<u128> = (0..n).map(|_| rng.below(32) as u128).collect();
            emit(format!("{} seq {} {} neg conj", tag, join(g), join(&other)));
            if gi % heavy == 0 {
                emit(format!("{} seq {} {} neg inv", tag, join(g), join(&other)));
                let f = finals[gi % finals.len()];
                let pre = prefixes[(gi / finals.len()) % prefixes.len()];
                emit(format!("{} seq {} {} {} {}", tag, join(&other), join(g), pre.join(" "), f.join(" ")));
            }
        }
        // random / boundary / small operands through every (prefix, final) pair
        let reps = if tier == Tier::Quick { 6 / heavy.min(3) } else { 60 / heavy.min(3) };
        for pre in prefixes.iter() {
            for f in finals.iter() {
                for r in 0..reps {
                    let pick = |rng: &mut Rng| -> u128 {
                        match r % 3 {
                            0 => rnd(rng),
                            1 => rng.below(64) as u128,
                            _ => *rng.pick(&bnd),
                        }
                    };
                    let a: Vec<u128> = (0..n).map(|_| pick(rng)).collect();
                    let b: Vec<u128> = (0..n).map(|_| if rng.chance(1, 2) { pick(rng) } else { rnd(rng) }).collect();
                    emit(format!("{} seq {} {} {} {}", tag, join(&a), join(&b), pre.join(" "), f.join(" ")));
                    let a: Vec<u128> = (0..n).map(|_| if rng.chance(1, 3) { *rng.pick(&braw) } else { rnd_raw(rng) }).collect();
                    let b: Vec<u128> = (0..n).map(|_| if rng.chance(1, 3) { *rng.pick(&braw) } else { rnd_raw(rng) }).collect();
                    emit(format!("{} seq {} {} {} {}", rtag, join(&a), join(&b), pre.join(" "), f.join(" ")));
                }
            }
        }
    }
    // raw-word grids of the 62-bit extensions: words around 0, M and 2M (the whole representation range [0, 2M))
    // and random words of the upper half [M, 2M), in every coordinate
    if f == "f62" {
        let mut g: Vec<u128> = vec![0, 1, 2, m - 2, m - 1, m, m + 1, 2 * m - 3, 2 * m - 2, 2 * m - 1];
        let unary = ["conj", "frob", "inv", "sq", "neg"];
        let mut all: Vec<Vec<u128>> = vec![vec![]];
        for _ in 0..n {
            let mut next = vec![];
            for t in &all {
                for v in &g {
                    let mut t2 = t.clone();
                    t2.push(*v);
                    next.push(t2);
                }
            }
            all = next;
        }
        for t in &all {
            for op in unary {
                emit(format!("{} {} {}", rtag, op, join(t)));
            }
            emit(format!("{} mulbase {} {}", rtag, join(t), *rng.pick(&g)));
        }
        // sampled product with random upper-half words mixed in
        for _ in 0..3 {
            g.push(m + rng.u128() % m);
        }
        let samples = if tier == Tier::Quick { 1500 } else { 30000 };
        for i in 0..samples {
            let a: Vec<u128> = (0..n).map(|_| if rng.chance(1, 4) { m + rng.u128() % m } else { *rng.pick(&g) }).collect();
            let b: Vec<u128> = (0..n).map(|_| if rng.chance(1, 4) { m + rng.u128() % m } else { *rng.pick(&g) }).collect();
            match i % 6 {
                0 => emit(format!("{} mul {} {}", rtag, join(&a), join(&b))),
                1 => emit(format!("{} conj {}", rtag, join(&a))),
                2 => emit(format!("{} inv {}", rtag, join(&a))),
                3 => emit(format!("{} div {} {}", rtag, join(&a), join(&b))),
                4 => emit(format!("{} aut {} {}", rtag, join(&a), join(&b))),
                _ => emit(format!("{} seq {} {} sub frob inv", rtag, join(&a), join(&b))),
            }
        }
    }

    // partial products / partial sums with boundary values: a_i * b_j = t, a_i + a_j = t, b_i + b_j = t
    let targets: Vec<u128> = bnd.iter().cloned().filter(|x| *x < m).collect();
    for t in &targets {
        for i in 0..n {
            for j in 0..n {
                let mut v: Vec<u128> = (0..2 * n).map(|_| rnd(rng) % m).collect();
                let a = 1 + rnd(rng) % (m - 1);
                v[i] = a;
                v[n + j] = mulmod(*t, invmod(a, m), m);
                emit(format!("{} mul {}", tag, join(&v)));
                if i != j {
                    let mut v: Vec<u128> = (0..2 * n).map(|_| rnd(rng) % m).collect();
                    v[j] = submod(*t, v[i], m);
                    v[n + j] = submod(*rng.pick(&targets), v[n + i], m);
                    emit(format!("{} mul {}", tag, join(&v)));
                    let mut w: Vec<u128> = (0..n).map(|_| rnd(rng) % m).collect();
                    w[j] = submod(*t, w[i], m);
                    emit(format!("{} sq {}", tag, join(&w)));
                    emit(format!("{} inv {}", tag, join(&w)));
                }
            }
            // a_i^2 = t is not always solvable; a_i * a_j = t is
            let mut w: Vec<u128> = (0..n).map(|_| 1 + rnd(rng) % (m - 1)).collect();
            let j = (i + 1) % n;
            w[j] = mulmod(*t, invmod(w[i], m), m);
            emit(format!("{} sq {}", tag, join(&w)));
        }
    }


    // structured operands computed by the oracle: embedded base elements, pure phi / phi^2 multiples, an element with
    // its conjugate(s) and inverse, elements of norm 1 (x / conj x) and -1, roots of unity of the base field embedded
    // and (quadratic) of the extension
    let oc = orc::<B, E>();
    let mut st: Vec<Vec<u128>> = vec![oc.zero(), oc.one()];
    {
        let unit = |pos: usize, v: u128| -> Vec<u128> {
            let mut e = vec![0u128; n];
            e[pos] = v % m;
            e
        };
        for v in [1u128, 2, m - 1, m - 2, (m + 1) / 2, rnd(rng) % m] {
            for pos in 0..n {
                st.push(unit(pos, v));
            }
        }
        let two_adicity = (m - 1).trailing_zeros();
        let omega = powmod(B::GENERATOR.canon(), (m - 1) >> two_adicity, m); // 2^a-th root of unity of the base field
        st.push(unit(0, omega));
        st.push(unit(0, powmod(omega, 1 << (two_adicity - 1), m))); // -1
        st.push(unit(0, powmod(omega, 1 << (two_adicity - 2), m))); // sqrt(-1)
        for _ in 0..(if heavy_scale == 1 { 3 } else { 1 }) {
            let x: Vec<u128> = (0..n).map(|_| 1 + rnd(rng) % (m - 1)).collect();
            let c1 = oc.pow(&x, m);
            let (others, norm) = if n == 2 {
                (c1.clone(), oc.mul(&x, &c1))
            } else {
                let c2 = oc.pow(&c1, m);
                let num = oc.mul(&c1, &c2);
                (num.clone(), oc.mul(&x, &num))
            };
            let ninv = invmod(norm[0], m);
            let xinv: Vec<u128> = others.iter().map(|c| mulmod(*c, ninv, m)).collect();
            let c1inv_norm = {
                // norm-1 element x / conj(x)
                let n1 = oc.pow(&xinv, m); // conj(x^-1) = (conj x)^-1
                oc.mul(&x, &n1)
            };
            st.push(x.clone());
            st.push(c1.clone());
            st.push(xinv);
            st.push(c1inv_norm.clone());
            st.push(oc.neg(&c1inv_norm)); // cubic: norm -1
            if n == 2 {
                // element of 2-power order 2^(a+1) of the quadratic extension: (x^((p-1)/2^a))^((p+1)/2)
                let y = oc.pow(&oc.pow(&x, (m - 1) >> two_adicity), (m + 1) / 2);
                st.push(y);
            } else {
                // element of order dividing p^2+p+1: x^(p-1) = conj(x)/x
                st.push(oc.mul(&c1, &st[st.len() - 3].clone()));
            }
        }
        let hs = heavy_scale as usize;
        for (i, a) in st.iter().enumerate() {
            for op in ["sq", "inv", "conj", "frob", "neg", "dbl", "ser"] {
                emit(format!("{} {} {}", tag, op, join(a)));
            }
            emit(format!("{} mul {} {}", tag, join(a), join(a)));
            emit(format!("{} div {} {}", tag, join(a), join(a)));
            emit(format!("{} seq {} {} sub inv", tag, join(a), join(a)));
            emit(format!("{} seq {} {} sub conj", tag, join(a), join(a)));
            emit(format!("{} seq {} {} sub swap div", tag, join(a), join(a)));
            emit(format!("{} mulbase {} {}", tag, join(a), st[(i + 3) % st.len()][0]));
            for (j, b) in st.iter().enumerate() {
                emit(format!("{} mul {} {}", tag, join(a), join(b)));
                if (i + j) % (2 * hs) == 0 {
                    emit(format!("{} div {} {}", tag, join(a), join(b)));
                }
                if (i + 2 * j) % (5 * hs) == 0 {
                    emit(format!("{} aut {} {}", tag, join(a), join(b)));
                }
                if (i + 3 * j) % 7 == 0 {
                    emit(format!("{} add {} {}", tag, join(a), join(b)));
                    emit(format!("{} sub {} {}", tag, join(a), join(b)));
                }
            }
        }
        // exponents 2^k, 2^k - 1, 2^k + 1 for every k, on structured and random bases
        let ebits = E::exp_bits();
        let nbases = if hs == 1 { 3 } else { 1 };
        for k in 0..ebits {
            let p2: u128 = 1u128 << k;
            for e in [p2, p2 - 1, p2.wrapping_add(1)] {
                if ebits == 64 && e > u64::MAX as u128 {
                    continue;
                }
                for bi in 0..nbases {
                    let base = match bi {
                        0 => (0..n).map(|_| rnd(rng)).collect::<Vec<u128>>(),
                        1 => st[2 + (k as usize) % (st.len() - 2)].clone(),
                        _ => {
                            let mut e = vec![0u128; n];
                            e[1] = 1; // phi
                            e
                        },
                    };
                    emit(format!("{} exp {} {}", tag, join(&base), e));
                }
            }
        }
    }
    // bytes_as_elements: every offset (alignment) and lengths around whole numbers of elements
    {
        let eb = E::ELEMENT_BYTES;
        let bb = <B as FieldElement>::ELEMENT_BYTES;
        for off in 0..=(2 * bb + 1) {
            for len in [0usize, bb, eb - 1, eb, eb + 1, eb + bb, 2 * eb, 3 * eb, 3 * eb - bb] {
                let mut data = rng.bytes(len);
                if rng.chance(1, 3) {
                    for b in data.iter_mut() {
                        *b = 0xff;
                    }
                }
                emit(format!("{} bytes {} {}", tag, off, hex(&data)));
            }
        }
    }

    // exponents
    let exps: Vec<u128> = {
        let mut v = vec![0u128, 1, 2, 3, 4, 7, 8, 255, 256, m - 1, m, m + 1, m - 2];
        if bits == 64 {
            v.extend([1 << 63, u64::MAX as u128, (1 << 63) + 1, (1 << 32) - 1]);
        } else {
            v.extend([1 << 127, u128::MAX, (1 << 64) - 1, 1 << 64]);
        }
        v
    };
    for e in &exps {
        for t in singles.iter().step_by(singles.len() / 12 + 1) {
            emit(format!("{} exp {} {}", tag, join(t), e));
        }
        for _ in 0..(4 / heavy_scale).max(1) {
            emit(format!("{} exp {} {}", tag, join(&(0..n).map(|_| rnd(rng)).collect::<Vec<_>>()), e));
        }
    }

    // serialization: malformed and boundary byte strings
    let nb = <B as FieldElement>::ELEMENT_BYTES;
    let enc = |w: u128| -> Vec<u8> { (0..nb).map(|i| (w >> (8 * i)) as u8).collect() };
    let byte_words: Vec<u128> = bnd.iter().cloned().collect();
    for w in &byte_words {
        for pos in 0..n {
            let mut bytes = vec![];
            for k in 0..n {
                bytes.extend(enc(if k == pos { *w } else { rnd(rng) % m }));
            }
            emit(format!("{} read {}", tag, hex(&bytes)));
            emit(format!("{} frombytes {}", tag, hex(&bytes)));
            let mut longer = bytes.clone();
            longer.push(1);
            emit(format!("{} read {}", tag, hex(&longer)));
            emit(format!("{} frombytes {}", tag, hex(&longer)));
            let cut = rng.below(bytes.len() as u64) as usize;
            emit(format!("{} read {}", tag, hex(&bytes[..cut])));
            emit(format!("{} frombytes {}", tag, hex(&bytes[..cut])));
        }
    }
    emit(format!("{} read -", tag));
    emit(format!("{} frombytes -", tag));
    for _ in 0..40 {
        let len = rng.below((n * nb + 4) as u64) as usize;
        let b = rng.bytes(len);
        emit(format!("{} read {}", tag, hex(&b)));
        emit(format!("{} frombytes {}", tag, hex(&b)));
    }

    // slice reinterpretation
    emit(format!("{} flat -", tag));
    for len in 0..=(4 * n + 1) {
        let v: Vec<u128> = (0..len).map(|_| if rng.chance(1, 2) { *rng.pick(&bnd) } else { rnd(rng) }).collect();
        emit(format!("{} flat {}", tag, if v.is_empty() { "-".into() } else { join(&v) }));
        let v: Vec<u128> = (0..len).map(|_| if rng.chance(1, 2) { *rng.pick(&braw) } else { rnd_raw(rng) }).collect();
        emit(format!("{} flat {}", rtag, if v.is_empty() { "-".into() } else { join(&v) }));
    }
    for w in &bnd {
        for pos in 0..n {
            let mut v: Vec<u128> = (0..2 * n).map(|_| rnd(rng)).collect();
            v[pos] = *w;
            emit(format!("{} flat {}", tag, join(&v)));
        }
    }
    for w in &braw {
        let mut v: Vec<u128> = (0..3 * n).map(|_| rnd_raw(rng)).collect();
        let pos = rng.below(3 * n as u64) as usize;
        v[pos] = *w;
        emit(format!("{} flat {}", rtag, join(&v)));
    }
    for i in 0..=n + 1 {
        emit(format!("{} basee {} {}", tag, join(&(0..n).map(|_| rnd(rng)).collect::<Vec<_>>()), i));
    }

    // random
    for i in 0..n_rand {
        let pickv = |rng: &mut Rng| if rng.chance(1, 5) { *rng.pick(&bnd) } else { rnd(rng) };
        let pickr = |rng: &mut Rng| if rng.chance(1, 5) { *rng.pick(&braw) } else { rnd_raw(rng) };
        let useraw = i % 3 == 2;
        let tg: &str = if useraw { &rtag } else { tag };
        let el = |rng: &mut Rng, k: usize| -> String {
            let v: Vec<u128> = (0..k * n).map(|_| if useraw { pickr(rng) } else { pickv(rng) }).collect();
            v.iter().map(|x| x.to_string()).collect::<Vec<_>>().join(" ")
        };
        match i % 16 {
            0..=3 => emit(format!("{} mul {}", tg, el(rng, 2))),
            4 => emit(format!("{} {} {}", tg, *rng.pick(&["add", "sub"]), el(rng, 2))),
            5 => emit(format!("{} sq {}", tg, el(rng, 1))),
            6 => {
                if heavy_scale == 1 || i % 64 == 6 {
                    emit(format!("{} inv {}", tg, el(rng, 1)))
                } else {
                    emit(format!("{} mul {}", tg, el(rng, 2)))
                }
            },
            7 => {
                if heavy_scale == 1 || i % 64 == 7 {
                    emit(format!("{} {} {}", tg, *rng.pick(&["conj", "frob"]), el(rng, 1)))
                } else {
                    emit(format!("{} sq {}", tg, el(rng, 1)))
                }
            },
            8 => {
                if heavy_scale == 1 || i % 64 == 8 {
                    emit(format!("{} div {}", tg, el(rng, 2)))
                } else {
                    emit(format!("{} mul {}", tg, el(rng, 2)))
                }
            },
            9 => {
                let b = if useraw { pickr(rng) } else { pickv(rng) };
                emit(format!("{} mulbase {} {}", tg, el(rng, 1), b))
            },
            10 => {
                let (x, y) = if useraw { (pickr(rng), pickr(rng)) } else { (pickv(rng), pickv(rng)) };
                emit(format!("{} emb {} {}", tg, x, y))
            },
            11 => {
                let e = if rng.chance(1, 2) { rng.below(300) as u128 } else { rnd(rng) };
                if heavy_scale == 1 || i % 64 == 11 || e < 300 {
                    emit(format!("{} exp {} {}", tg, el(rng, 1), e))
                } else {
                    emit(format!("{} mul {}", tg, el(rng, 2)))
                }
            },
            12 => {
                if heavy_scale == 1 || i % 64 == 12 {
                    emit(format!("{} aut {}", tg, el(rng, 2)))
                } else {
                    emit(format!("{} mul {}", tg, el(rng, 2)))
                }
            },
            13 => emit(format!("{} {} {}", tg, *rng.pick(&["ser", "neg", "dbl"]), el(rng, 1))),
            14 => {
                let k = rng.range(1, 5) as usize;
                emit(format!("{} flat {}", tg, el(rng, k)))
            },
            _ => {
                if heavy_scale == 1 || i % 64 == 15 {
                    let len = rng.range(1, 10);
                    let ops: Vec<&str> = (0..len)
                        .map(|_| *rng.pick(&["add", "sub", "mul", "neg", "dbl", "sq", "swap", "inv", "div", "conj", "frob", "mb", "add", "sub", "mul", "mul"]))
                        .collect();
                    emit(format!("{} seq {} {}", tg, el(rng, 2), ops.join(" ")))
                } else {
                    emit(format!("{} mul {}", tg, el(rng, 2)))
                }
            },
        }
    }
}

/// Montgomery image of 1 in the 62-bit field (R = 2^64)
fn raw_one62() -> u128 {
    (1u128 << 64) % M62
}

fn split_tag(tag: &str) -> (bool, &str) {
    if let Some(s) = tag.strip_prefix('r') {
        (true, s)
    } else {
        (false, tag)
    }
}

impl Prop for P {
    fn id(&self) -> &'static str {
        "C08"
    }
    fn gen(&self, rng: &mut Rng, tier: Tier, n: usize, emit: &mut dyn FnMut(String)) {
        let n = default_n(tier, 6_000, 300_000, n);
        gen_e::<f64::BaseElement, Q64>(rng, tier, n, emit);
        gen_e::<f62::BaseElement, Q62>(rng, tier, n, emit);
        gen_e::<f128::BaseElement, Q128>(rng, tier, n / 2, emit);
        gen_e::<f64::BaseElement, C64>(rng, tier, n, emit);
        gen_e::<f62::BaseElement, C62>(rng, tier, n, emit);
        // the cubic extension of the 128-bit field is documented as unsupported
        emit("c128 const".to_string());
        // malformed op lines
        for l in ["q64", "q64 mul 1 2 3", "q64 nop 1 2", "x64 mul 1 2 3 4", "q64 mul 1 2 3 x", "c62 inv 1 2", "q128 flat a"] {
            emit(l.to_string());
        }
    }
    fn exec(&self, line: &str) -> Outcome {
        let t: Vec<&str> = line.split(' ').filter(|s| !s.is_empty()).collect();
        if t.is_empty() {
            return Outcome::ok("bad-op");
        }
        let (raw, tag) = split_tag(t[0]);
        match tag {
            "q64" => exec_e::<f64::BaseElement, Q64>(raw, &t[1..]),
            "q62" => exec_e::<f62::BaseElement, Q62>(raw, &t[1..]),
            "q128" => exec_e::<f128::BaseElement, Q128>(raw, &t[1..]),
            "c64" => exec_e::<f64::BaseElement, C64>(raw, &t[1..]),
            "c62" => exec_e::<f62::BaseElement, C62>(raw, &t[1..]),
            "c128" if !raw && t.len() == 2 && t[1] == "const" => {
                let s = CubeExtension::<f128::BaseElement>::is_supported();
                let mut o = Outcome::ok(format!("supported {}", if s { 1 } else { 0 }));
                if s {
                    o = o.fail("c128.const", "the cubic extension of the 128-bit field claims to be supported");
                }
                o
            },
            _ => Outcome::ok("bad-op"),
        }
    }
    fn timeout_ms(&self) -> u64 {
        5000
    }
    fn panic_site(&self, line: &str) -> Option<String> {
        let t: Vec<&str> = line.split(' ').filter(|s| !s.is_empty()).collect();
        let tag = t.first().copied().unwrap_or("");
        let op = t.get(1).copied().unwrap_or("");
        let (_, base) = split_tag(tag);
        let n = if base.starts_with('c') { 3 } else { 2 };
        match op {
            // documented panics: index out of range, number of base elements not divisible by the degree
            "basee" => {
                let i = t.last().and_then(|s| s.parse::<usize>().ok()).unwrap_or(0);
                if i >= n {
                    return None;
                }
            },
            "flat" => {
                let cnt = t.iter().skip(2).filter(|s| **s != "-").count();
                if cnt % n != 0 {
                    return None;
                }
            },
            _ => {},
        }
        Some(format!("{}.{}.panic", tag.trim_start_matches('r'), op))
    }
    fn rule(&self) -> &'static str {
        "quadratic extensions of the 62/64/128-bit fields and cubic extensions of the 62/64-bit fields: full product of a reduced \
         boundary set (0,1,2,p-1,p-2,(p±1)/2,2^32,…) over both operands of mul; every boundary word of the base field (residues, and raw \
         internal words incl. non-normalised ones of the 62-bit field) in every coordinate position for every operation; operands whose \
         partial products / partial sums a_i*b_j, a_i+a_j equal boundary values; boundary exponents; boundary/malformed byte strings; \
         slice reinterpretation of lists of every small length; operation sequences (neg/sub/add of small-integer grids, boundary and random elements followed by conj/frob/inv/div/mul_base/square, judged at every step); raw-word grids around 0, M, 2M and random upper-half words for the 62-bit extensions; structured operands (embedded base elements, pure phi/phi^2, x with conjugates and inverse, norm +-1 elements, roots of unity) in full product; exponents 2^k, 2^k+-1 for every k; bytes_as_elements at every alignment offset and lengths around whole elements; seeded random operands and operation sequences. A case is non-trivial \
         when it is distinct (hash of the op line); outputs are canonical integers and raw words of every coordinate"
    }
}

fn main() {
    wf_harness::core::main_for(&P);
}
