//! C02: soundness for invalid executions and for other statements.  Built in RELEASE mode (the debug
//! build of the prover validates the trace before proving; invalid traces must get past the prover).
//!
//! Op lines (`<cfg>` = `<field> <hasher> <q.b.g.x.f.r> <trace seed> <AirDesc line>`):
//!   cell <cfg> <col> <step> <inc|rnd|zero|neg>
//!       generate a valid trace, corrupt ONE main cell, judge the corrupted trace with the reference
//!       predicate `genair::is_valid` against the ORIGINAL public inputs (cross-checked with the
//!       library's `Trace::validate`), prove it with a prover that claims the original public inputs
//!       (release prover: no validation), verify.  When the cell is an asserted one, additionally prove
//!       with the prover's own (changed) public inputs and verify against the original ones (must be
//!       rejected) and against the changed ones (oracle: validity w.r.t. the changed ones).
//!       output: `ref=<ok|Kind[i]@s> fix=<verdict> [own0=<verdict> own1=<ref>/<verdict>]`
//!   cell <cfg> <col> <first> shift.<stride>.<pubpos>.<d>
//!       MULTI-cell forgery against a sequence assertion (stride, first) whose values are the public inputs
//!       `pubpos..`: the cells `first + k stride` of the column get the assertion's value polynomial evaluated under
//!       another domain offset, P(g^d w^k) (d = 0 would be the honest values) — the trace a boundary constraint built
//!       with a wrong offset would accept; judged and run exactly like a single corrupted cell.
//!   auxcell <cfg> <aux col> <step>
//!       honest main trace, ONE cell of the auxiliary segment corrupted after it was built (adds 1);
//!       oracle: `genair::check_aux` on the committed auxiliary segment.
//!   stmt <cfg> <perturbation>
//!       honest proof of a valid trace checked against a perturbed statement: `none` (control) |
//!       `pub:<i>:<inc|rnd|zero>` | `publen:<p|m>` | `ctxlen:<x2|d2>` | `ctxwidth:<p|m>` | `ctxmeta:<hex>` |
//!       `ctxopt:<q|b|g|x|f|r>:<v>` (options inside the proof replaced, verifier expects the replaced ones) |
//!       `accopt:<q|b|g|x|f|r>:<v>` (verifier accepts only the other option set) | `minsec:<bits>` |
//!       `field:<name>` | `hasher:<name>` | `desc:<exempt_p|exempt_m|const|assert>`
//!       output: `<noop|changed|still-valid> <verdict>` (still-valid: a `desc` perturbation the committed trace
//!       also satisfies — either verdict is sound)
//!   valid <field> <AirDesc line> <pubs csv|-> <col;col;… each csv>
//!       the reference predicate on an explicit trace: `ok` | `Kind[i]@s`; COMPARED WITH THE LEAN MODEL
//!       (`Valid` of Winter/Model/VerifierChecks.lean, theorem file WinterProofs/C02.lean).
//!   seed <field> <main width> <aux width> <aux rands> <log2 len> <meta hex|-> <q.b.g.x.f.r>
//!       `Context::to_elements` as canonical integers; COMPARED WITH THE LEAN MODEL (`contextElements`).
//!
//! verdicts: acc | rej:<kind> | prove-err:<kind> | prove-panic@<file> | verify-panic@<file> | excluded
//!
//! Oracle (independent of the library): accepted ⇔ the committed trace is valid for the statement the
//! verifier checks; an invalid trace may also make the prover fail (error or panic — classified, not a
//! failure); a changed statement must not be accepted.  A verifier PANIC on an invalid trace or a
//! perturbed statement is a refusal for this property (outcome class `verify-panic`, e.g. the AIR set-up
//! asserting that the description's assertions fit the trace length claimed by the proof); that
//! the verifier never panics is property C06.  A panic on a valid, unperturbed statement is a failure.
#![allow(dead_code, unused_variables, unused_imports, unused_mut)]
use std::sync::Arc;

use wf_harness::core::*;
use wf_harness::genair::*;
use winter_air::{proof::Context, proof::Proof, FieldExtension, ProofOptions, TraceInfo};
use winter_math::{
    fields::{f128, f62, f64},
    StarkField, ToElements,
};
use winter_verifier::AcceptableOptions;

#[path = "../adv.rs"]
mod adv;
use adv::*;

pub struct P;

struct Cfg {
    field: FieldId,
    hash: HashId,
    opts: OptSpec,
    seed: u64,
    desc: Arc<AirDesc>,
}

fn parse_cfg(t: &[&str]) -> Result<Cfg, String> {
    if t.len() < 5 {
        return Err("arity".into());
    }
    let field = FieldId::parse(t[0]).ok_or("field")?;
    let hash = HashId::parse(t[1]).ok_or("hasher")?;
    let opts = OptSpec::parse(t[2]).ok_or("options")?;
    let seed = t[3].parse::<u64>().map_err(|_| "seed")?;
    let desc = AirDesc::parse(t[4])?;
    if !hash.compatible(field) || !opts.accepted() || !field.supports_ext(opts.ext) || opts.blowup < desc.min_blowup() {
        return Err("config".into());
    }
    Ok(Cfg { field, hash, opts, seed, desc: Arc::new(desc) })
}

fn cfg_text(c: &Cfg) -> String {
    format!("{} {} {} {} {}", c.field.name(), c.hash.name(), c.opts.to_text(), c.seed, c.desc.to_line())
}

fn viol_text(v: &Result<(), Violation>) -> String {
    match v {
        Ok(()) => "ok".into(),
        Err(v) => format!("{}", v),
    }
}

fn viol_kind(v: &Violation) -> &'static str {
    match v.kind {
        ViolKind::Shape => "shape",
        ViolKind::Transition => "transition",
        ViolKind::Assertion => "assertion",
        ViolKind::AuxTransition => "aux-transition",
        ViolKind::AuxAssertion => "aux-assertion",
        ViolKind::LagrangeTransition => "lagrange-transition",
        ViolKind::LagrangeBoundary => "lagrange-boundary",
    }
}

/// outcome of prove + verify
enum Run {
    Acc,
    Rej(String),
    ProveErr(String),
    ProvePanic(String),
    VerifyPanic(String),
    Excluded,
}

impl Run {
    fn text(&self) -> String {
        match self {
            Run::Acc => "acc".into(),
            Run::Rej(k) => format!("rej:{}", k),
            Run::ProveErr(k) => format!("prove-err:{}", k),
            Run::ProvePanic(f) => format!("prove-panic@{}", f),
            Run::VerifyPanic(f) => format!("verify-panic@{}", f),
            Run::Excluded => "excluded".into(),
        }
    }
}

/// prove `trace` claiming `forced` (None: the prover's own public inputs), verify against `vpubs`;
/// returns the run and the verdict of the reference predicate on the committed auxiliary segment
fn run(c: &Cfg, trace: &TraceData, forced: Option<&[u128]>, aux_corrupt: Option<(usize, usize)>, vpubs: &[u128]) -> (Run, Option<Result<(), Violation>>, String) {
    let excl_possible = c.field == FieldId::F62 && c.opts.ext == 3;
    let desc = c.desc.clone();
    let out = match guarded(|| prove_adv(&desc, trace, c.field, &c.opts, c.hash, forced, &[], aux_corrupt)) {
        Err(info) => {
            if excl_possible && is_sampling_limit(&info) {
                return (Run::Excluded, None, info);
            }
            return (Run::ProvePanic(panic_file(&info)), None, info);
        },
        Ok(o) => o,
    };
    let aux = out.aux_check;
    let proof = match out.proof {
        Err(e) => return (Run::ProveErr(prover_error_kind(&e)), aux, format!("{:?}", e)),
        Ok(p) => p,
    };
    let acceptable = AcceptableOptions::OptionSet(vec![c.opts.to_options()]);
    match guarded(|| verify(&desc, c.field, c.hash, vpubs, proof, &acceptable)) {
        Err(info) => {
            if excl_possible && is_sampling_limit(&info) {
                (Run::Excluded, aux, info)
            } else {
                (Run::VerifyPanic(panic_file(&info)), aux, info)
            }
        },
        Ok(Ok(())) => (Run::Acc, aux, String::new()),
        Ok(Err(e)) => {
            let kind = verifier_error_kind(&e);
            if excl_possible && kind == "RandomCoinError" {
                (Run::Excluded, aux, String::new())
            } else {
                (Run::Rej(kind), aux, format!("{:?}", e))
            }
        },
    }
}

/// judge one run against the reference verdict
fn judge(mut o: Outcome, what: &str, reference: &Result<(), Violation>, r: &Run, detail: &str) -> Outcome {
    match (reference, r) {
        (_, Run::Excluded) => o,
        (Ok(()), Run::Acc) => o,
        (Ok(()), other) => o.fail("c02.rejected-valid", format!("{}: the committed trace is valid but the outcome is {} ({})", what, other.text(), detail)),
        (Err(v), Run::Acc) => o.fail(
            format!("c02.accepted-invalid.{}", viol_kind(v)),
            format!("{}: the committed trace violates {} and the proof was accepted", what, v),
        ),
        (Err(_), _) => o,
    }
}

fn corrupt_value(kind: &str, v: u128, m: u128, seed: u64) -> Option<u128> {
    let nv = match kind {
        "inc" => (v + 1) % m,
        "zero" => {
            if v == 0 {
                1
            } else {
                0
            }
        },
        "neg" => {
            if v == 0 {
                2
            } else {
                m - v
            }
        },
        // values that differ from the cell by a small constant, a multiple of a small constant or a power of two
        "two" => (v + 2) % m,
        "dec" => (v + m - 1) % m,
        "p32" => (v + (1u128 << 32)) % m,
        "dbl" => {
            if v == 0 {
                3
            } else {
                let d = (v % m + v % m) % m;
                if d == v {
                    (v + 1) % m
                } else {
                    d
                }
            }
        },
        "rnd" => {
            let mut r = Rng::new(seed ^ 0xc0de_c0de);
            let mut x = r.u128() % m;
            if x == v {
                x = (x + 1) % m;
            }
            x
        },
        _ => return None,
    };
    Some(nv)
}

/// multi-cell forgery `shift.<stride>.<pubpos>.<d>` (the `<step>` of the op is the first step `a` of a sequence
/// assertion with that stride whose values are the public inputs `pubpos ..`): the cells `a + k stride` of the
/// column get the values of the assertion's value polynomial under ANOTHER domain offset, `P(g^d w^k)` — what a
/// boundary constraint built with a wrong offset would enforce (`genair::shifted_sequence_values`)
fn forge_shift(c: &Cfg, pubs: &[u128], first: usize, spec: &str) -> Option<Vec<(usize, u128)>> {
    let n = c.desc.trace_len;
    let nums: Option<Vec<usize>> = spec.split('.').map(|x| x.parse::<usize>().ok()).collect();
    let nums = nums?;
    if nums.len() != 3 {
        return None;
    }
    let (stride, pos, d) = (nums[0], nums[1], nums[2]);
    if stride < 2 || !stride.is_power_of_two() || stride > n / 2 || first >= stride || d >= n {
        return None;
    }
    let m = n / stride;
    if pos + m > pubs.len() {
        return None;
    }
    let vals = shifted_sequence_values(c.field, n, stride, &pubs[pos..pos + m], d as u64);
    Some((0..m).map(|k| (first + k * stride, vals[k])).collect())
}

fn exec_cell(t: &[&str]) -> Outcome {
    if t.len() != 8 {
        return Outcome::ok("bad-op");
    }
    let c = match parse_cfg(&t[..5]) {
        Ok(c) => c,
        Err(e) => return Outcome::ok(format!("bad-op:{}", e.split(' ').next().unwrap_or(""))),
    };
    let (col, step) = match (t[5].parse::<usize>(), t[6].parse::<usize>()) {
        (Ok(a), Ok(b)) if a < c.desc.width && b < c.desc.trace_len => (a, b),
        _ => return Outcome::ok("bad-op"),
    };
    let mut o = Outcome::default();
    let trace = gen_trace(&c.desc, c.field, c.seed);
    let pubs0 = pub_inputs(&c.desc, c.field, &trace);
    if let Err(v) = is_valid(&c.desc, c.field, &trace, &pubs0) {
        o.out = format!("gen-invalid:{}", v);
        return o.fail("c02.harness.gen-invalid", format!("generated trace violates {}", v));
    }
    let m = c.field.modulus();
    let mut bad = trace.clone();
    if let Some(spec) = t[7].strip_prefix("shift.") {
        match forge_shift(&c, &pubs0, step, spec) {
            Some(cells) => {
                for (s, v) in cells {
                    bad[col][s] = v;
                }
            },
            None => return Outcome::ok("bad-op"),
        }
    } else {
        let nv = match corrupt_value(t[7], trace[col][step], m, c.seed ^ ((col as u64) << 32) ^ step as u64) {
            Some(v) => v,
            None => return Outcome::ok("bad-op"),
        };
        bad[col][step] = nv;
    }
    let ref0 = is_valid(&c.desc, c.field, &bad, &pubs0);
    // cross-check of the reference predicate with the library's own (main segment only)
    if c.desc.aux.is_none() {
        let desc = c.desc.clone();
        let lib_ok = guarded(|| lib_validate(&desc, &bad, c.field, &c.opts, &pubs0)).is_ok();
        if lib_ok != ref0.is_ok() {
            o = o.fail(
                "c02.validity-predicates-disagree",
                format!("reference predicate says {} but Trace::validate {}", viol_text(&ref0), if lib_ok { "accepts" } else { "panics" }),
            );
        }
    }
    // A: the prover claims the original public inputs
    let (ra, auxa, da) = run(&c, &bad, Some(&pubs0), None, &pubs0);
    let refa = match (&ref0, &auxa) {
        (Ok(()), Some(Err(v))) => Err(*v),
        _ => ref0,
    };
    o = judge(o, "claiming the original public inputs", &refa, &ra, &da);
    let mut out = format!("ref={} fix={}", viol_text(&refa), ra.text());
    // B: asserted cell -> the prover's own public inputs differ
    let pubs1 = pub_inputs(&c.desc, c.field, &bad);
    if pubs1 != pubs0 {
        let (rb, _, db) = run(&c, &bad, None, None, &pubs0);
        match &rb {
            Run::Acc => {
                o = o.fail("c02.pubinput.accepted", "a proof for other public inputs (asserted cell changed) was accepted for the original ones")
            },
            _ => {},
        }
        let ref1 = is_valid(&c.desc, c.field, &bad, &pubs1);
        let (rc, auxc, dc) = run(&c, &bad, None, None, &pubs1);
        let refc = match (&ref1, &auxc) {
            (Ok(()), Some(Err(v))) => Err(*v),
            _ => ref1,
        };
        o = judge(o, "claiming and checking the changed public inputs", &refc, &rc, &dc);
        out.push_str(&format!(" own0={} own1={}/{}", rb.text(), viol_text(&refc), rc.text()));
    }
    o.out = out;
    o
}

fn exec_auxcell(t: &[&str]) -> Outcome {
    if t.len() != 7 && t.len() != 8 {
        return Outcome::ok("bad-op");
    }
    // optional corruption mode: one (default) | ext (extension coordinates only) | two | p32 | dec | scale (the
    // whole column doubled)
    let mode: u8 = match t.get(7).copied() {
        None | Some("one") => 0,
        Some("ext") => 1,
        Some("two") => 2,
        Some("p32") => 3,
        Some("dec") => 4,
        Some("scale") => 5,
        _ => return Outcome::ok("bad-op"),
    };
    let c = match parse_cfg(&t[..5]) {
        Ok(c) => c,
        Err(e) => return Outcome::ok(format!("bad-op:{}", e.split(' ').next().unwrap_or(""))),
    };
    let aw = c.desc.aux_width();
    let (col, step) = match (t[5].parse::<usize>(), t[6].parse::<usize>()) {
        (Ok(a), Ok(b)) if a < aw && b < c.desc.trace_len => (a, b),
        _ => return Outcome::ok("bad-op"),
    };
    let mut o = Outcome::default();
    let trace = gen_trace(&c.desc, c.field, c.seed);
    let pubs0 = pub_inputs(&c.desc, c.field, &trace);
    if let Err(v) = is_valid(&c.desc, c.field, &trace, &pubs0) {
        o.out = format!("gen-invalid:{}", v);
        return o.fail("c02.harness.gen-invalid", format!("generated trace violates {}", v));
    }
    set_aux_mode(mode);
    let (r, aux, d) = run(&c, &trace, Some(&pubs0), Some((col, step)), &pubs0);
    set_aux_mode(0);
    let reference = match aux {
        Some(v) => v,
        None => match r {
            // proving stopped before the auxiliary segment was built
            Run::ProvePanic(_) | Run::ProveErr(_) | Run::Excluded => Err(Violation { kind: ViolKind::Shape, index: 0, step: 0 }),
            _ => return o.fail("c02.harness.no-aux-verdict", "no auxiliary segment was built"),
        },
    };
    o = judge(o, "auxiliary cell corrupted", &reference, &r, &d);
    o.out = format!("ref={} fix={}", viol_text(&reference), r.text());
    o
}

// ------------------------------------------------------------------------------------ statements
fn opt_with(o: &OptSpec, which: &str, v: usize) -> Option<OptSpec> {
    let mut n = *o;
    match which {
        "q" => n.queries = v,
        "b" => n.blowup = v,
        "g" => n.grinding = v as u32,
        "x" => n.ext = v as u8,
        "f" => n.folding = v,
        "r" => n.remainder = v,
        _ => return None,
    }
    Some(n)
}

fn context_for(field: FieldId, info: TraceInfo, options: ProofOptions) -> Context {
    match field {
        FieldId::F62 => Context::new::<f62::BaseElement>(info, options),
        FieldId::F64 => Context::new::<f64::BaseElement>(info, options),
        FieldId::F128 => Context::new::<f128::BaseElement>(info, options),
    }
}

fn exec_stmt(t: &[&str]) -> Outcome {
    if t.len() != 6 {
        return Outcome::ok("bad-op");
    }
    let c = match parse_cfg(&t[..5]) {
        Ok(c) => c,
        Err(e) => return Outcome::ok(format!("bad-op:{}", e.split(' ').next().unwrap_or(""))),
    };
    let pert: Vec<&str> = t[5].split(':').collect();
    let mut o = Outcome::default();
    let trace = gen_trace(&c.desc, c.field, c.seed);
    let pubs0 = pub_inputs(&c.desc, c.field, &trace);
    if let Err(v) = is_valid(&c.desc, c.field, &trace, &pubs0) {
        o.out = format!("gen-invalid:{}", v);
        return o.fail("c02.harness.gen-invalid", format!("generated trace violates {}", v));
    }
    let excl_possible = c.field == FieldId::F62 && c.opts.ext == 3;
    let desc = c.desc.clone();
    let mut proof = match guarded(|| prove_adv(&desc, &trace, c.field, &c.opts, c.hash, None, &[], None)) {
        Err(info) => {
            if excl_possible && is_sampling_limit(&info) {
                return Outcome::ok("excluded");
            }
            o.out = format!("prove-panic@{}", panic_file(&info));
            return o.fail("c02.rejected-valid", format!("honest proving panicked: {}", info));
        },
        Ok(out) => match out.proof {
            Ok(p) => p,
            Err(e) => {
                o.out = format!("prove-err:{}", prover_error_kind(&e));
                return o.fail("c02.rejected-valid", format!("honest proving failed: {:?}", e));
            },
        },
    };
    // the statement the verifier checks
    let mut vfield = c.field;
    let mut vhash = c.hash;
    let mut vdesc = (*c.desc).clone();
    let mut vpubs = pubs0.clone();
    let mut acceptable = AcceptableOptions::OptionSet(vec![c.opts.to_options()]);
    let m = c.field.modulus();
    let mut changed = true;
    let mut still_valid = false;
    let site;
    match pert[0] {
        "none" => {
            changed = false;
            site = "c02.rejected-valid";
        },
        "pub" if pert.len() == 3 => {
            site = "c02.pubinput.accepted";
            let i = match pert[1].parse::<usize>() {
                Ok(i) if i < vpubs.len() => i,
                _ => return Outcome::ok("bad-op"),
            };
            match corrupt_value(pert[2], vpubs[i], m, c.seed ^ i as u64) {
                Some(v) => vpubs[i] = v,
                None => return Outcome::ok("bad-op"),
            }
        },
        "publen" if pert.len() == 2 => {
            site = "c02.pubinput.accepted";
            if pert[1] == "p" {
                vpubs.push(1);
            } else if pert[1] == "z" {
                vpubs.push(0);
            } else if pert[1] == "d" {
                match vpubs.last().copied() {
                    Some(l) => vpubs.push(l),
                    None => return Outcome::ok("bad-op"),
                }
            } else if pert[1] == "f" {
                // the first value dropped: every other value moves one place
                if vpubs.is_empty() {
                    return Outcome::ok("bad-op");
                }
                vpubs.remove(0);
            } else if vpubs.pop().is_none() {
                return Outcome::ok("bad-op");
            }
        },
        // the order of the values: two different values exchanged / the list rotated
        "pubswap" if pert.len() == 3 => {
            site = "c02.pubinput.accepted";
            let (i, j) = match (pert[1].parse::<usize>(), pert[2].parse::<usize>()) {
                (Ok(i), Ok(j)) if i < vpubs.len() && j < vpubs.len() => (i, j),
                _ => return Outcome::ok("bad-op"),
            };
            vpubs.swap(i, j);
            changed = vpubs != pubs0;
        },
        "pubrot" if pert.len() == 1 => {
            site = "c02.pubinput.accepted";
            if vpubs.len() < 2 {
                return Outcome::ok("bad-op");
            }
            vpubs.rotate_left(1);
            changed = vpubs != pubs0;
        },
        // option sets with several members: with the proof's own set among them (must accept), without it
        "accset" if pert.len() == 2 => {
            site = "c02.option.accepted";
            let mut others = vec![];
            for (w, v) in [("q", c.opts.queries % 255 + 1), ("g", (c.opts.grinding as usize + 1) % 33), ("r", if c.opts.remainder == 7 { 3 } else { 7 }), ("b", if c.opts.blowup == 8 { 16 } else { 8 })] {
                if let Some(n) = opt_with(&c.opts, w, v) {
                    if n.accepted() && n != c.opts {
                        others.push(n.to_options());
                    }
                }
            }
            if others.len() < 2 {
                return Outcome::ok("bad-op");
            }
            if pert[1] == "with" {
                let k = others.len() / 2;
                others.insert(k, c.opts.to_options());
                changed = false;
            } else if pert[1] != "without" {
                return Outcome::ok("bad-op");
            }
            acceptable = AcceptableOptions::OptionSet(others);
        },
        "minprov" if pert.len() == 2 => {
            site = "c02.option.accepted";
            let bits = match pert[1].parse::<u32>() {
                Ok(b) => b,
                _ => return Outcome::ok("bad-op"),
            };
            let bound = (c.opts.queries as u32) * c.opts.blowup.ilog2() + c.opts.grinding;
            if bits <= bound {
                return Outcome::ok("bad-op");
            }
            acceptable = AcceptableOptions::MinProvenSecurity(bits);
        },
        "ctxlen" | "ctxwidth" | "ctxmeta" if pert.len() == 2 => {
            site = "c02.shape.accepted";
            let ti = proof.trace_info().clone();
            let (mut mw, aw, nr, mut len, mut meta) =
                (ti.main_trace_width(), ti.aux_segment_width(), ti.get_num_aux_segment_rand_elements(), ti.length(), ti.meta().to_vec());
            match (pert[0], pert[1]) {
                ("ctxlen", "x2") => len *= 2,
                ("ctxlen", "d2") if len >= 16 => len /= 2,
                ("ctxwidth", "p") if mw + aw < 255 => mw += 1,
                ("ctxwidth", "m") if mw > 1 => mw -= 1,
                ("ctxmeta", h) => meta = unhex(h),
                _ => return Outcome::ok("bad-op"),
            }
            let info = TraceInfo::new_multi_segment(mw, aw, nr, len, meta);
            proof.context = context_for(c.field, info, c.opts.to_options());
        },
        "ctxopt" | "accopt" if pert.len() == 3 => {
            site = "c02.option.accepted";
            let v = match pert[2].parse::<usize>() {
                Ok(v) => v,
                _ => return Outcome::ok("bad-op"),
            };
            let no = match opt_with(&c.opts, pert[1], v) {
                Some(n) if n.accepted() && c.field.supports_ext(n.ext) => n,
                _ => return Outcome::ok("bad-op"),
            };
            changed = no != c.opts;
            acceptable = AcceptableOptions::OptionSet(vec![no.to_options()]);
            if pert[0] == "ctxopt" {
                proof.context = context_for(c.field, proof.trace_info().clone(), no.to_options());
            }
        },
        "minsec" if pert.len() == 2 => {
            site = "c02.option.accepted";
            let bits = match pert[1].parse::<u32>() {
                Ok(b) => b,
                _ => return Outcome::ok("bad-op"),
            };
            // the harness's own (documented) bound: conjectured security never exceeds
            // queries * log2(blowup) + grinding
            let bound = (c.opts.queries as u32) * c.opts.blowup.ilog2() + c.opts.grinding;
            if bits <= bound {
                return Outcome::ok("bad-op");
            }
            acceptable = AcceptableOptions::MinConjecturedSecurity(bits);
        },
        "field" if pert.len() == 2 => {
            site = "c02.field.accepted";
            vfield = match FieldId::parse(pert[1]) {
                Some(f) if f != c.field && c.hash.compatible(f) => f,
                _ => return Outcome::ok("bad-op"),
            };
        },
        "hasher" if pert.len() == 2 => {
            site = "c02.hasher.accepted";
            vhash = match HashId::parse(pert[1]) {
                Some(h) if h != c.hash && h.compatible(c.field) => h,
                _ => return Outcome::ok("bad-op"),
            };
        },
        "desc" if pert.len() == 2 => {
            site = "c02.statement.accepted";
            match pert[1] {
                "exempt_p" => vdesc.exemptions += 1,
                "exempt_m" => vdesc.exemptions -= 1,
                "const" => {
                    let e = vdesc.constraints[0].expr.clone();
                    vdesc.constraints[0].expr = Expr::add(e, Expr::Const(1));
                },
                "assert" => {
                    // move the first single assertion to a free neighbouring step
                    let n = vdesc.trace_len;
                    let mut done = false;
                    for k in 0..vdesc.assertions.len() {
                        if vdesc.assertions[k].kind == AssertKind::Single {
                            let s = (vdesc.assertions[k].first + 1) % n;
                            vdesc.assertions[k].first = s;
                            done = true;
                            break;
                        }
                    }
                    if !done {
                        return Outcome::ok("bad-op");
                    }
                },
                _ => return Outcome::ok("bad-op"),
            }
            if vdesc.validate().is_err() {
                return Outcome::ok("bad-op");
            }
            // the description is the verifier's own knowledge, not part of the coin seed: a proof may
            // legitimately be accepted for another description when the committed trace is valid for it
            // too (e.g. an assertion moved along a constant column, one more exemption for constraints
            // that vanish identically); only acceptance for a description the trace VIOLATES is a failure
            if is_valid(&vdesc, c.field, &trace, &vpubs).is_ok() {
                changed = false;
                still_valid = true;
            }
        },
        _ => return Outcome::ok("bad-op"),
    }
    let vdesc = Arc::new(vdesc);
    let r = match guarded(|| verify(&vdesc, vfield, vhash, &vpubs, proof, &acceptable)) {
        Err(info) => {
            if excl_possible && is_sampling_limit(&info) {
                Run::Excluded
            } else {
                Run::VerifyPanic(panic_file(&info))
            }
        },
        Ok(Ok(())) => Run::Acc,
        Ok(Err(e)) => {
            let k = verifier_error_kind(&e);
            if excl_possible && k == "RandomCoinError" {
                Run::Excluded
            } else {
                Run::Rej(k)
            }
        },
    };
    // a proof of a constant trace (every column constant) verifies at every query position under every
    // transcript: perturbations that change only the coin seed (metadata, structure-preserving options, public
    // values the AIR does not read) cannot make it fail; the statement as the AIR reads it is still true
    let constant_trace = trace.iter().all(|col| col.iter().all(|v| *v == col[0]));
    let norm_pubs: Vec<u128> = (0..c.desc.num_pub_inputs()).map(|i| vpubs.get(i).copied().unwrap_or(0)).collect();
    let transcript_only = constant_trace && vfield == c.field && is_valid(&vdesc, c.field, &trace, &norm_pubs).is_ok();
    match (&r, changed) {
        _ if still_valid => {},
        (Run::Acc, true) if transcript_only => {
            o = o.fail(format!("{}.constant-trace", site), format!("constant trace: the proof was accepted for the perturbed statement `{}`", t[5]))
        },
        (Run::Acc, true) => o = o.fail(site, format!("the proof was accepted for the perturbed statement `{}`", t[5])),
        (Run::Rej(k), false) => o = o.fail("c02.rejected-valid", format!("the unperturbed statement was rejected: {}", k)),
        (Run::VerifyPanic(f), false) => o = o.fail("c02.rejected-valid", format!("the verifier panicked on the unperturbed statement at {}", f)),
        _ => {},
    }
    o.out = format!("{} {}", if still_valid { "still-valid" } else if changed { "changed" } else { "noop" }, r.text());
    o
}

// ------------------------------------------------------------------------------------ model ties
fn parse_csv(s: &str) -> Option<Vec<u128>> {
    if s == "-" {
        return Some(vec![]);
    }
    s.split(',').map(|x| x.parse::<u128>().ok()).collect()
}

fn exec_valid(t: &[&str]) -> Outcome {
    if t.len() != 4 {
        return Outcome::ok("bad-op");
    }
    let (field, desc) = match (FieldId::parse(t[0]), AirDesc::parse(t[1])) {
        (Some(f), Ok(d)) => (f, d),
        _ => return Outcome::ok("bad-op"),
    };
    let pubs = match parse_csv(t[2]) {
        Some(p) => p,
        None => return Outcome::ok("bad-op"),
    };
    let cols: Option<Vec<Vec<u128>>> = t[3].split(';').map(parse_csv).collect();
    let cols = match cols {
        Some(c) => c,
        None => return Outcome::ok("bad-op"),
    };
    Outcome::ok(viol_text(&is_valid(&desc, field, &cols, &pubs)))
}

fn exec_seed(t: &[&str]) -> Outcome {
    if t.len() != 7 {
        return Outcome::ok("bad-op");
    }
    let field = match FieldId::parse(t[0]) {
        Some(f) => f,
        None => return Outcome::ok("bad-op"),
    };
    let nums: Option<Vec<usize>> = t[1..5].iter().map(|x| x.parse::<usize>().ok()).collect();
    let (nums, opts) = match (nums, OptSpec::parse(t[6])) {
        (Some(n), Some(o)) if o.accepted() => (n, o),
        _ => return Outcome::ok("bad-op"),
    };
    let (mw, aw, nr, loglen) = (nums[0], nums[1], nums[2], nums[3]);
    if mw == 0 || mw + aw > 255 || (aw == 0 && nr != 0) || nr > 255 || !(3..=20).contains(&loglen) {
        return Outcome::ok("bad-op");
    }
    let meta = unhex(t[5]);
    if meta.len() > 65535 {
        return Outcome::ok("bad-op");
    }
    let info = TraceInfo::new_multi_segment(mw, aw, nr, 1 << loglen, meta);
    let ctx = context_for(field, info, opts.to_options());
    let els: Vec<String> = match field {
        FieldId::F62 => ToElements::<f62::BaseElement>::to_elements(&ctx).iter().map(|e| e.as_int().to_string()).collect(),
        FieldId::F64 => ToElements::<f64::BaseElement>::to_elements(&ctx).iter().map(|e| e.as_int().to_string()).collect(),
        FieldId::F128 => ToElements::<f128::BaseElement>::to_elements(&ctx).iter().map(|e| e.as_int().to_string()).collect(),
    };
    Outcome::ok(els.join(" "))
}

// ------------------------------------------------------------------------------------ generators
fn c(i: usize) -> Expr {
    Expr::Cur(i)
}
fn nx(i: usize) -> Expr {
    Expr::Nxt(i)
}
fn k(v: u128) -> Expr {
    Expr::Const(v)
}
fn cons(desc_cycles: &[usize], n: usize, e: Expr) -> Constraint {
    Constraint { degree: e.degree(desc_cycles, n), expr: e }
}

/// hand-made descriptions that put assertions / exemptions / periodic values at the boundary cases
/// the property names
fn family(n: usize) -> Vec<AirDesc> {
    let mut v = vec![];
    let base = |width: usize, cols: Vec<ColGen>, constraints: Vec<Constraint>, assertions: Vec<AssertDesc>| AirDesc {
        width,
        trace_len: n,
        exemptions: 1,
        tail_junk: false,
        periodic: vec![],
        cols,
        constraints,
        assertions,
        aux: None,
    };
    // 1. one column x' = x^2 + 5, assertion at the first step; exemptions 1, 2, 3 (junk tail and not)
    let sq = Expr::add(Expr::pow(c(0), 2), k(5));
    for (e, junk) in [(1usize, false), (2, true), (2, false), (3, true)] {
        let mut d = base(
            1,
            vec![ColGen::Step { init: None, expr: sq.clone() }],
            vec![cons(&[], n, Expr::sub(nx(0), sq.clone()))],
            vec![AssertDesc::single(0, 0)],
        );
        d.exemptions = e;
        d.tail_junk = junk;
        v.push(d);
    }
    // 2. fibonacci-like, two columns, assertions at the first and the LAST step
    let f0 = c(1);
    let f1 = Expr::add(c(0), c(1));
    v.push(base(
        2,
        vec![ColGen::Step { init: Some(1), expr: f0.clone() }, ColGen::Step { init: Some(1), expr: f1.clone() }],
        vec![cons(&[], n, Expr::sub(nx(0), f0)), cons(&[], n, Expr::sub(nx(1), f1))],
        vec![AssertDesc::single(0, 0), AssertDesc::single(1, 0), AssertDesc::single(1, n - 1)],
    ));
    // 3. a ruled column, a free column (no constraint, one assertion in the middle), a counter with a
    //    sequence assertion, exemptions 2
    let r0 = Expr::add(Expr::mul(c(0), c(1)), k(3));
    let mut d3 = base(
        3,
        vec![ColGen::Step { init: None, expr: r0.clone() }, ColGen::Rand, ColGen::Counter],
        vec![cons(&[], n, Expr::sub(nx(0), r0)), cons(&[], n, Expr::sub(nx(2), Expr::add(c(2), k(1))))],
        vec![AssertDesc::single(1, n / 2), AssertDesc::sequence(2, 1, 4), AssertDesc::single(0, n - 2)],
    );
    d3.exemptions = 2;
    v.push(d3);
    // 4. periodic column in the rule, cyclic column with a periodic assertion, sequence of stride 2
    let per = vec![vec![3u128, 7, 11, 13]];
    let r4 = Expr::add(Expr::mul(Expr::Per(0), c(0)), k(2));
    let mut d4 = base(
        2,
        vec![ColGen::Step { init: None, expr: r4.clone() }, ColGen::Cyc(2)],
        vec![],
        vec![AssertDesc::periodic(1, 1, 2), AssertDesc::sequence(0, 0, 2)],
    );
    d4.periodic = per.clone();
    d4.constraints = vec![cons(&[4], n, Expr::sub(nx(0), r4))];
    v.push(d4);
    // 5. pointwise function column (constraint on the current row only), degree 3, assertion last step
    let cube = Expr::add(Expr::pow(c(0), 3), c(1));
    let prod = Expr::mul(c(0), c(0));
    v.push(base(
        3,
        vec![ColGen::Step { init: None, expr: cube.clone() }, ColGen::Rand, ColGen::Fn(prod.clone())],
        vec![cons(&[], n, Expr::sub(nx(0), cube)), cons(&[], n, Expr::sub(c(2), prod))],
        vec![AssertDesc::single(0, 0), AssertDesc::single(2, n - 1), AssertDesc::periodic(1, 0, n)],
    ));
    // 6. auxiliary segment: running product over column 0 and a pointwise image of column 1
    let r6 = Expr::add(c(0), k(7));
    let mut d6 = base(
        2,
        vec![ColGen::Step { init: None, expr: r6.clone() }, ColGen::Rand],
        vec![cons(&[], n, Expr::sub(nx(0), r6))],
        vec![AssertDesc::single(0, 0), AssertDesc::single(1, 3)],
    );
    let step = Expr::mul(Expr::AuxCur(0), Expr::add(c(0), Expr::Rand(0)));
    let img = Expr::add(Expr::mul(Expr::Rand(1), c(1)), Expr::Rand(0));
    d6.aux = Some(AuxDesc {
        width: 2,
        num_rands: 2,
        lagrange: false,
        cols: vec![AuxGen::Acc { init: k(1), step: step.clone() }, AuxGen::Fn(img.clone())],
        constraints: vec![cons(&[], n, Expr::sub(Expr::AuxNxt(0), step)), cons(&[], n, Expr::sub(Expr::AuxCur(1), img))],
        assertions: vec![
            AuxAssertDesc { a: AssertDesc::single(0, 0), value: k(1) },
            AuxAssertDesc { a: AssertDesc::single(1, 3), value: Expr::add(Expr::mul(Expr::Rand(1), Expr::Pub(1)), Expr::Rand(0)) },
        ],
    });
    v.push(d6.clone());
    // 7. the same with a Lagrange kernel column
    let mut d7 = d6;
    if let Some(x) = d7.aux.as_mut() {
        x.width = 3;
        x.lagrange = true;
    }
    v.push(d7);
    v.into_iter().filter(|d| d.validate().is_ok()).collect()
}

/// second hand-made family (generator hardening): parameter pairs that the code distinguishes and that must
/// not always be equal, and structured data
fn family2(n: usize, field: FieldId) -> Vec<AirDesc> {
    let mut v = vec![];
    let base = |width: usize, cols: Vec<ColGen>, constraints: Vec<Constraint>, assertions: Vec<AssertDesc>| AirDesc {
        width,
        trace_len: n,
        exemptions: 1,
        tail_junk: false,
        periodic: vec![],
        cols,
        constraints,
        assertions,
        aux: None,
    };
    let r = |i: usize| Expr::Rand(i);
    let a = |i: usize| Expr::AuxCur(i);
    let lin0 = Expr::add(c(0), k(3));
    // ---- number of auxiliary constraints above / equal to / below the number of main constraints; the LAST
    //      auxiliary constraint is the only one that reads the last auxiliary column
    // F1: 1 main, 3 aux
    let step = Expr::mul(a(0), Expr::add(c(0), r(0)));
    let img1 = Expr::add(Expr::mul(r(1), c(1)), r(0));
    let img2 = Expr::add(Expr::mul(a(1), c(0)), r(1));
    let mut f1 = base(
        2,
        vec![ColGen::Step { init: None, expr: lin0.clone() }, ColGen::Rand],
        vec![cons(&[], n, Expr::sub(nx(0), lin0.clone()))],
        vec![AssertDesc::single(0, 0)],
    );
    f1.aux = Some(AuxDesc {
        width: 3,
        num_rands: 2,
        lagrange: false,
        cols: vec![AuxGen::Acc { init: k(1), step: step.clone() }, AuxGen::Fn(img1.clone()), AuxGen::Fn(img2.clone())],
        constraints: vec![
            cons(&[], n, Expr::sub(Expr::AuxNxt(0), step.clone())),
            cons(&[], n, Expr::sub(a(1), img1.clone())),
            cons(&[], n, Expr::sub(a(2), img2.clone())),
        ],
        assertions: vec![AuxAssertDesc { a: AssertDesc::single(0, 0), value: k(1) }],
    });
    v.push(f1.clone());
    // F2: 2 main, 2 aux
    let f0e = c(1);
    let f1e = Expr::add(c(0), c(1));
    let mut f2 = base(
        2,
        vec![ColGen::Step { init: Some(1), expr: f0e.clone() }, ColGen::Step { init: Some(2), expr: f1e.clone() }],
        vec![cons(&[], n, Expr::sub(nx(0), f0e)), cons(&[], n, Expr::sub(nx(1), f1e))],
        vec![AssertDesc::single(0, 0), AssertDesc::single(1, n - 1)],
    );
    f2.aux = Some(AuxDesc {
        width: 2,
        num_rands: 2,
        lagrange: false,
        cols: vec![AuxGen::Acc { init: k(1), step: step.clone() }, AuxGen::Fn(img1.clone())],
        constraints: vec![cons(&[], n, Expr::sub(Expr::AuxNxt(0), step.clone())), cons(&[], n, Expr::sub(a(1), img1.clone()))],
        assertions: vec![AuxAssertDesc { a: AssertDesc::single(0, 0), value: k(1) }],
    });
    v.push(f2);
    // F3: 3 main, 1 aux (the only and last auxiliary constraint)
    let m1 = Expr::add(Expr::mul(c(1), c(0)), k(1));
    let mut f3 = base(
        3,
        vec![ColGen::Step { init: None, expr: lin0.clone() }, ColGen::Step { init: None, expr: m1.clone() }, ColGen::Counter],
        vec![
            cons(&[], n, Expr::sub(nx(0), lin0.clone())),
            cons(&[], n, Expr::sub(nx(1), m1)),
            cons(&[], n, Expr::sub(nx(2), Expr::add(c(2), k(1)))),
        ],
        vec![AssertDesc::single(0, 0), AssertDesc::single(2, n - 1)],
    );
    let img3 = Expr::add(Expr::mul(r(0), c(2)), r(1));
    f3.aux = Some(AuxDesc {
        width: 1,
        num_rands: 2,
        lagrange: false,
        cols: vec![AuxGen::Fn(img3.clone())],
        constraints: vec![cons(&[], n, Expr::sub(a(0), img3.clone()))],
        assertions: vec![AuxAssertDesc { a: AssertDesc::single(0, n - 1), value: Expr::add(Expr::mul(r(0), Expr::Pub(1)), r(1)) }],
    });
    v.push(f3);
    // ---- every assertion kind on the main AND on the auxiliary segment: single (first step, last step, the
    //      only one of its column), periodic, sequence; once in list order, once in reverse list order
    let sq = Expr::add(Expr::mul(c(0), c(0)), k(2));
    for rev in [false, true] {
        let mut asserts = vec![AssertDesc::single(0, 0), AssertDesc::periodic(1, 1, 2), AssertDesc::sequence(2, 0, 4), AssertDesc::single(0, n - 1)];
        if rev {
            asserts.reverse();
        }
        // positions of the public values of the periodic and the sequence assertion
        let (pos_p, pos_q) = if rev { (1 + n / 4, 1) } else { (1, 2) };
        let mut f4 = base(
            3,
            vec![ColGen::Step { init: None, expr: sq.clone() }, ColGen::Cyc(2), ColGen::Counter],
            vec![cons(&[], n, Expr::sub(nx(0), sq.clone())), cons(&[], n, Expr::sub(nx(2), Expr::add(c(2), k(1))))],
            asserts,
        );
        let i1 = Expr::add(Expr::mul(r(0), c(1)), r(1));
        let i2 = Expr::add(Expr::mul(r(0), c(2)), r(1));
        let mut aa = vec![
            AuxAssertDesc { a: AssertDesc::periodic(0, 1, 2), value: Expr::add(Expr::mul(r(0), Expr::Pub(pos_p)), r(1)) },
            AuxAssertDesc { a: AssertDesc::sequence(1, 0, 4), value: Expr::add(Expr::mul(r(0), Expr::PubSeq(pos_q)), r(1)) },
            AuxAssertDesc { a: AssertDesc::single(2, 0), value: k(1) },
        ];
        if rev {
            aa.reverse();
        }
        f4.aux = Some(AuxDesc {
            width: 3,
            num_rands: 2,
            lagrange: false,
            cols: vec![AuxGen::Fn(i1.clone()), AuxGen::Fn(i2.clone()), AuxGen::Acc { init: k(1), step: Expr::mul(a(2), Expr::add(c(0), r(0))) }],
            constraints: vec![
                cons(&[], n, Expr::sub(a(0), i1)),
                cons(&[], n, Expr::sub(a(1), i2)),
                cons(&[], n, Expr::sub(Expr::AuxNxt(2), Expr::mul(a(2), Expr::add(c(0), r(0))))),
            ],
            assertions: aa,
        });
        v.push(f4);
    }
    // ---- exemptions at the upper bound (degree 1: n/2 + 1; degree 2 and 3: what the degree leaves), junk tail or not
    for d in [1u32, 2, 3] {
        let rule = Expr::add(Expr::pow(c(0), d), k(5));
        for junk in [true, false] {
            let mut f5 = base(
                1,
                vec![ColGen::Step { init: None, expr: rule.clone() }],
                vec![Constraint { degree: Degree::new(d as usize), expr: Expr::sub(nx(0), rule.clone()) }],
                vec![AssertDesc::single(0, 0)],
            );
            let m = f5.max_exemptions();
            if m >= 2 {
                f5.exemptions = m;
                f5.tail_junk = junk;
                v.push(f5);
            }
        }
    }
    // ---- periodic columns with structure: sub-periodic (declared cycle 4, period 2), a selector with a single
    //      non-zero entry, constant, low degree (degree 1 over a cycle of 8); as a factor and as a summand
    let low = low_degree_periodic(field, 8, 1, 77 + n as u64);
    for (p0, p1) in [
        (vec![3u128, 5, 3, 5], low.clone()),
        (vec![0u128, 0, 1, 0], vec![7u128, 7]),
        (vec![1u128, 0, 0, 0, 0, 0, 0, 0], vec![0u128, 0, 0, 9]),
    ] {
        let cyc = [p0.len(), p1.len()];
        let rule = Expr::add(Expr::mul(Expr::Per(0), c(0)), Expr::add(Expr::Per(1), c(1)));
        let mut f6 = base(
            2,
            vec![ColGen::Step { init: None, expr: rule.clone() }, ColGen::Counter],
            vec![cons(&cyc, n, Expr::sub(nx(0), rule)), cons(&cyc, n, Expr::sub(nx(1), Expr::add(c(1), k(1))))],
            vec![AssertDesc::single(0, 0), AssertDesc::single(1, 0)],
        );
        f6.periodic = vec![p0, p1];
        v.push(f6);
    }
    // ---- constant traces: constant columns, the fixed point 0 of x' = x^3 (position-independent proofs)
    v.push(base(
        2,
        vec![ColGen::Const(Some(7)), ColGen::Step { init: Some(0), expr: Expr::pow(c(1), 3) }],
        vec![cons(&[], n, Expr::sub(nx(0), c(0))), Constraint { degree: Degree::new(3), expr: Expr::sub(nx(1), Expr::pow(c(1), 3)) }],
        vec![AssertDesc::periodic(0, 1, n), AssertDesc::single(1, n / 2)],
    ));
    // ---- constraint degree exactly blowup + 1 (degree 3 with blowup 2, degree 5 with blowup 4)
    for d in [3u32, 5] {
        let rule = Expr::add(Expr::pow(c(0), d), c(1));
        v.push(base(
            2,
            vec![ColGen::Step { init: None, expr: rule.clone() }, ColGen::Const(Some(0))],
            vec![Constraint { degree: Degree::new(d as usize), expr: Expr::sub(nx(0), rule) }, cons(&[], n, Expr::sub(nx(1), c(1)))],
            vec![AssertDesc::single(0, 0), AssertDesc::single(1, n - 1)],
        ));
    }
    v.into_iter().filter(|d| d.validate().is_ok()).collect()
}

/// third hand-made family: a strided (periodic or sequence) assertion with stride S and first step a, next to
/// SIBLING assertions whose parameters collide with (S, a) under any plausible key (sum, or, concatenation):
/// single assertions on another column at the steps a, S + a (= S | a), 2S + a, the last asserted step, S and
/// S - 1 + a, and a second strided assertion with the same stride. Every asserted cell gets violated individually
/// (all cells are corrupted), on the main segment and — through an auxiliary column no transition constraint
/// reads — on the auxiliary segment.
fn family3(n: usize) -> Vec<AirDesc> {
    let mut v = vec![];
    let r = |i: usize| Expr::Rand(i);
    let mut sa: Vec<(usize, usize)> = vec![(2, 1), (2, 0), (4, 1), (4, 0), (4, 3), (n / 2, 1), (n / 2, 0), (n / 2, n / 2 - 1)];
    sa.sort();
    sa.dedup();
    for (stride, first) in sa {
        if stride < 2 || stride > n / 2 || first >= stride {
            continue;
        }
        for seq in [false, true] {
            let ksteps = n / stride;
            let strided = if seq { AssertDesc::sequence(1, first, stride) } else { AssertDesc::periodic(1, first, stride) };
            let nv = if seq { ksteps } else { 1 };
            let mut steps: Vec<usize> = vec![first, stride + first, 2 * stride + first, first + (ksteps - 1) * stride, stride, stride - 1 + first, 0, n - 1];
            steps.retain(|s| *s < n);
            steps.sort();
            steps.dedup();
            let lin0 = Expr::add(c(0), k(3));
            let mut assertions = vec![strided.clone()];
            for s in &steps {
                assertions.push(AssertDesc::single(0, *s));
            }
            // a second strided assertion of the same stride on the same column (another first step) and one on
            // the third column with the same (stride, first step): a legitimate member of the same group
            let first2 = (first + 1) % stride;
            if first2 != first {
                assertions.push(if seq { AssertDesc::sequence(1, first2, stride) } else { AssertDesc::periodic(1, first2, stride) });
            }
            assertions.push(AssertDesc::periodic(2, first, stride));
            let mut d = AirDesc {
                width: 3,
                trace_len: n,
                exemptions: 1,
                tail_junk: false,
                periodic: vec![],
                cols: vec![
                    ColGen::Step { init: None, expr: lin0.clone() },
                    if seq { ColGen::Rand } else { ColGen::Cyc(stride) },
                    ColGen::Cyc(stride),
                ],
                constraints: vec![cons(&[], n, Expr::sub(nx(0), lin0))],
                assertions,
                aux: None,
            };
            // auxiliary segment: a0 = r0 * c1 + r1 carries the strided assertion and is read by NO transition
            // constraint; a1 = r0 * c0 + r1 carries single assertions at the same steps as column 0
            let i0 = Expr::add(Expr::mul(r(0), c(1)), r(1));
            let i1 = Expr::add(Expr::mul(r(0), c(0)), r(1));
            let sval = if seq { Expr::PubSeq(0) } else { Expr::Pub(0) };
            let mut aa = vec![AuxAssertDesc {
                a: if seq { AssertDesc::sequence(0, first, stride) } else { AssertDesc::periodic(0, first, stride) },
                value: Expr::add(Expr::mul(r(0), sval), r(1)),
            }];
            for (i, s) in steps.iter().enumerate() {
                aa.push(AuxAssertDesc { a: AssertDesc::single(1, *s), value: Expr::add(Expr::mul(r(0), Expr::Pub(nv + i)), r(1)) });
            }
            d.aux = Some(AuxDesc {
                width: 2,
                num_rands: 2,
                lagrange: false,
                cols: vec![AuxGen::Fn(i0), AuxGen::Fn(i1.clone())],
                constraints: vec![cons(&[], n, Expr::sub(Expr::AuxCur(1), i1))],
                assertions: aa,
            });
            v.push(d);
        }
    }
    v.into_iter().filter(|d| d.validate().is_ok()).collect()
}

/// fourth hand-made family, EXHAUSTIVE in the step of the sibling: a strided assertion (stride S, first step a,
/// periodic or sequence) on column 1 and a single assertion at step t on column 0 (and on column 1 itself when t is
/// not one of its asserted steps), one description for EVERY t in 0..n, for total trace widths 2, 3, 4 (main only)
/// and 2 + 2 (main + auxiliary). Whatever function of (stride, first step, step, width, length) a grouping key might
/// be, some description makes the single assertion collide with the strided one. Returns the description and the
/// asserted steps of the strided assertion (the cells to violate one at a time).
fn family4(n: usize) -> Vec<(AirDesc, Vec<usize>)> {
    let mut v = vec![];
    let r = |i: usize| Expr::Rand(i);
    let mut sa: Vec<(usize, usize)> = vec![(2, 1), (2, 0), (4, 1), (4, 0), (4, 3), (n / 2, 1), (n / 2, 0), (n / 2, n / 2 - 1)];
    sa.sort();
    sa.dedup();
    for (stride, first) in sa {
        if stride < 2 || stride > n / 2 || first >= stride {
            continue;
        }
        let asserted: Vec<usize> = (0..n / stride).map(|j| first + j * stride).collect();
        for seq in [false, true] {
            for t in 0..n {
                // shapes: (main width, auxiliary segment)
                for (mw, aux) in [(2usize, false), (3, false), (4, false), (2, true)] {
                    let strided = if seq { AssertDesc::sequence(1, first, stride) } else { AssertDesc::periodic(1, first, stride) };
                    let nv = if seq { n / stride } else { 1 };
                    let mut assertions = vec![strided, AssertDesc::single(0, t)];
                    if !asserted.contains(&t) && (t + mw) % 2 == 0 {
                        assertions.push(AssertDesc::single(1, t));
                    }
                    let lin0 = Expr::add(c(0), k(3));
                    let mut cols = vec![ColGen::Step { init: None, expr: lin0.clone() }, if seq { ColGen::Rand } else { ColGen::Cyc(stride) }];
                    while cols.len() < mw {
                        cols.push(if cols.len() % 2 == 0 { ColGen::Rand } else { ColGen::Counter });
                    }
                    let mut d = AirDesc {
                        width: mw,
                        trace_len: n,
                        exemptions: 1,
                        tail_junk: false,
                        periodic: vec![],
                        cols,
                        constraints: vec![cons(&[], n, Expr::sub(nx(0), lin0))],
                        assertions,
                        aux: None,
                    };
                    if aux {
                        let i0 = Expr::add(Expr::mul(r(0), c(1)), r(1));
                        let i1 = Expr::add(Expr::mul(r(0), c(0)), r(1));
                        let sval = if seq { Expr::PubSeq(0) } else { Expr::Pub(0) };
                        d.aux = Some(AuxDesc {
                            width: 2,
                            num_rands: 2,
                            lagrange: false,
                            cols: vec![AuxGen::Fn(i0), AuxGen::Fn(i1.clone())],
                            constraints: vec![cons(&[], n, Expr::sub(Expr::AuxCur(1), i1))],
                            assertions: vec![
                                AuxAssertDesc {
                                    a: if seq { AssertDesc::sequence(0, first, stride) } else { AssertDesc::periodic(0, first, stride) },
                                    value: Expr::add(Expr::mul(r(0), sval), r(1)),
                                },
                                AuxAssertDesc { a: AssertDesc::single(1, t), value: Expr::add(Expr::mul(r(0), Expr::Pub(nv)), r(1)) },
                            ],
                        });
                    }
                    if d.validate().is_ok() {
                        v.push((d, asserted.clone()));
                    }
                }
            }
        }
    }
    v
}

// ---------------------------------------------------------------------------- fifth family: siblings in one group
/// kind of a sibling assertion
#[derive(Copy, Clone, PartialEq, Eq, Debug)]
enum SK {
    S,
    P,
    Q,
}

const KINDS: [SK; 3] = [SK::S, SK::P, SK::Q];

/// one sibling: a single assertion at step `first`, or a periodic / sequence assertion (stride, first); a sequence
/// with stride = trace length has ONE value and is normalised to a single assertion by the library
#[derive(Copy, Clone, Debug)]
struct Sib {
    kind: SK,
    stride: usize,
    first: usize,
}

impl Sib {
    fn new(kind: SK, stride: usize, first: usize) -> Sib {
        Sib { kind, stride, first }
    }
    fn assert_on(&self, col: usize) -> AssertDesc {
        match self.kind {
            SK::S => AssertDesc::single(col, self.first),
            SK::P => AssertDesc::periodic(col, self.first, self.stride),
            SK::Q => AssertDesc::sequence(col, self.first, self.stride),
        }
    }
    fn colgen(&self, alt: usize) -> ColGen {
        match self.kind {
            SK::S => ColGen::Rand,
            SK::P => ColGen::Cyc(self.stride),
            SK::Q => {
                if alt % 3 == 2 {
                    ColGen::Counter
                } else {
                    ColGen::Rand
                }
            },
        }
    }
}

/// a description with sibling assertions and where its siblings live
struct SibCase {
    desc: AirDesc,
    sibs: Vec<Sib>,
    /// column carrying the MAIN assertion of sibling i
    main_cols: Vec<usize>,
    /// auxiliary layout only: the main column whose image is the auxiliary column i (it carries no main assertion
    /// and no constraint reads it: corrupting it violates the AUXILIARY assertion of sibling i only)
    src_cols: Vec<usize>,
    /// position of the first public value of sibling i
    pub_pos: Vec<usize>,
}

/// Sibling assertions of the given kinds on neighbouring columns, sibling i on a LOWER column than sibling i+1 (the
/// library sorts a group by column: sibling 0 opens the group when the (stride, first step) keys are equal).
/// * main layout: c0 ruled (x' = x + 3), sibling i asserted on the free column 1 + i;
/// * auxiliary layouts (1, 2): additionally a copy column per sibling (generated as a copy, tied by NO constraint) that
///   carries the main assertion and so provides the public values; the auxiliary column i = r0 * c(1+i) + r1 carries the
///   sibling's assertion with the value r0 * public value + r1; the last regular auxiliary column is the image of c0 and
///   the only one a transition constraint reads. Layout 1: the main assertions have the same kinds, on copy columns in
///   the OPPOSITE column order (main and auxiliary segment then both have the group, opened by different kinds);
///   layout 2: the main segment asserts the same cells by SINGLE assertions only, so only the auxiliary segment has the
///   group. The assertion LIST order is the column order or its reverse (`rev`), the auxiliary list has the opposite
///   order of the main one.
fn sibling_case(n: usize, sibs: &[Sib], layout: u8, lagrange: bool, rev: bool, alt: usize) -> Option<SibCase> {
    let aux = layout != 0;
    let ns = sibs.len();
    let r = |i: usize| Expr::Rand(i);
    let lin0 = Expr::add(c(0), k(3));
    let mut cols = vec![ColGen::Step { init: None, expr: lin0.clone() }];
    for (i, s) in sibs.iter().enumerate() {
        cols.push(s.colgen(alt + i));
    }
    let (main_cols, src_cols): (Vec<usize>, Vec<usize>) = if aux {
        for j in 0..ns {
            // the column 1 + ns + j carries the main assertion of the sibling i with main_cols[i] = 1 + ns + j
            cols.push(ColGen::Fn(c(1 + if layout == 1 { ns - 1 - j } else { j })));
        }
        ((0..ns).map(|i| if layout == 1 { 2 * ns - i } else { 1 + ns + i }).collect(), (0..ns).map(|i| 1 + i).collect())
    } else {
        ((0..ns).map(|i| 1 + i).collect(), vec![])
    };
    let order: Vec<usize> = if rev { (0..ns).rev().collect() } else { (0..ns).collect() };
    let mut assertions = vec![];
    let mut pub_pos = vec![0usize; ns];
    let mut pos = 0;
    for &i in &order {
        let a = sibs[i].assert_on(main_cols[i]);
        pub_pos[i] = pos;
        pos += a.num_values(n);
        if layout == 2 {
            let steps = if sibs[i].kind == SK::Q { a.steps(n) } else { vec![sibs[i].first] };
            for st in steps {
                assertions.push(AssertDesc::single(main_cols[i], st));
            }
        } else {
            assertions.push(a);
        }
    }
    let mut d = AirDesc {
        width: cols.len(),
        trace_len: n,
        exemptions: 1,
        tail_junk: false,
        periodic: vec![],
        cols,
        constraints: vec![cons(&[], n, Expr::sub(nx(0), lin0))],
        assertions,
        aux: None,
    };
    if aux {
        let img = |j: usize| Expr::add(Expr::mul(r(0), c(j)), r(1));
        let mut acols: Vec<AuxGen> = (0..ns).map(|i| AuxGen::Fn(img(1 + i))).collect();
        acols.push(AuxGen::Fn(img(0)));
        let aorder: Vec<usize> = if rev { (0..ns).collect() } else { (0..ns).rev().collect() };
        let aa: Vec<AuxAssertDesc> = aorder
            .iter()
            .map(|&i| {
                let pv = if sibs[i].kind == SK::Q { Expr::PubSeq(pub_pos[i]) } else { Expr::Pub(pub_pos[i]) };
                AuxAssertDesc { a: sibs[i].assert_on(i), value: Expr::add(Expr::mul(r(0), pv), r(1)) }
            })
            .collect();
        d.aux = Some(AuxDesc {
            width: ns + 1 + lagrange as usize,
            num_rands: 2,
            lagrange,
            cols: acols,
            constraints: vec![cons(&[], n, Expr::sub(Expr::AuxCur(ns), img(0)))],
            assertions: aa,
        });
    }
    if d.validate().is_err() {
        return None;
    }
    Some(SibCase { desc: d, sibs: sibs.to_vec(), main_cols, src_cols, pub_pos })
}

/// fifth hand-made family: sibling assertions of DIFFERENT KINDS that share a divisor group (the library groups boundary
/// constraints by (stride, first step) and sorts a group by column), by construction:
/// A. every ORDERED pair of kinds {single, periodic, sequence}^2 (first kind on the lower column) x every
///    (stride, first step) incl. non-zero first steps, first step = stride - 1, stride = trace length (a one-value
///    sequence, normalised to a single assertion, then shares the group of a single assertion at that step; a periodic
///    assertion with one step has the same divisor in another group); a single sibling sits at the step `first`;
/// B. the same kinds in DIFFERENT groups that differ in one key component only: equal strides / different first
///    steps, equal first steps / different strides;
/// C. three siblings in one group: all 27 kind triples; D. four siblings, alternating kinds;
/// each in the three layouts of `sibling_case` (main segment only; main + auxiliary segment both with the group; the
/// group on the auxiliary segment only), every fifth auxiliary one with a Lagrange kernel column, list order = column
/// order and reversed.
fn family5(n: usize, quick: bool) -> Vec<SibCase> {
    let mut v: Vec<SibCase> = vec![];
    let mut seen = std::collections::HashSet::new();
    let mut idx = 0usize;
    let mut push = |v: &mut Vec<SibCase>, sibs: &[Sib], layout: u8| {
        idx += 1;
        if let Some(sc) = sibling_case(n, sibs, layout, layout != 0 && idx % 5 == 0, idx % 2 == 1, idx) {
            if seen.insert(sc.desc.to_line()) {
                v.push(sc);
            }
        }
    };
    let mut keys: Vec<(usize, usize)> = vec![
        (2, 0),
        (2, 1),
        (4, 0),
        (4, 1),
        (4, 2),
        (4, 3),
        (n / 2, 0),
        (n / 2, 1),
        (n / 2, n / 4 + 1),
        (n / 2, n / 2 - 1),
        (n, 0),
        (n, 1),
        (n, n / 2),
        (n, n - 1),
    ];
    keys.sort();
    keys.dedup();
    // A
    for &(stride, first) in &keys {
        for k1 in KINDS {
            for k2 in KINDS {
                for layout in [0u8, 1, 2] {
                    push(&mut v, &[Sib::new(k1, stride, first), Sib::new(k2, stride, first)], layout);
                }
            }
        }
    }
    // B
    let strided = [SK::P, SK::Q];
    let mut diff: Vec<((usize, usize), (usize, usize))> = vec![
        ((2, 0), (2, 1)),
        ((2, 1), (2, 0)),
        ((4, 1), (4, 3)),
        ((4, 3), (4, 1)),
        ((4, 1), (4, 0)),
        ((n / 2, 1), (n / 2, 2)),
        ((n, 1), (n, 2)),
        ((n, 3), (n, 1)),
        ((2, 1), (4, 1)),
        ((4, 1), (2, 1)),
        ((4, 3), (n / 2, 3)),
        ((2, 1), (n, 1)),
        ((n, 0), (2, 0)),
        ((n / 2, 0), (4, 0)),
    ];
    diff.retain(|(a, b)| a != b);
    for &((s1, a1), (s2, a2)) in &diff {
        for k1 in strided {
            for k2 in strided {
                for layout in [0u8, 1, 2] {
                    push(&mut v, &[Sib::new(k1, s1, a1), Sib::new(k2, s2, a2)], layout);
                }
            }
        }
    }
    // C
    let mut tkeys: Vec<(usize, usize)> = vec![(2, 1), (4, 1), (4, 3), (n / 2, n / 2 - 1), (n, 1), (2, 0)];
    tkeys.sort();
    tkeys.dedup();
    let mut ti = 0usize;
    for &(stride, first) in &tkeys {
        for k1 in KINDS {
            for k2 in KINDS {
                for k3 in KINDS {
                    ti += 1;
                    for layout in [0u8, 1, 2] {
                        // quick tier, longer traces: every triple still occurs, on alternating layouts
                        if quick && n > 8 && (ti + layout as usize) % 3 != 0 {
                            continue;
                        }
                        push(&mut v, &[Sib::new(k1, stride, first), Sib::new(k2, stride, first), Sib::new(k3, stride, first)], layout);
                    }
                }
            }
        }
    }
    // D
    for &(stride, first) in &[(4usize, 1usize), (n / 2, n / 2 - 1), (2, 1)] {
        for ks in [[SK::P, SK::Q, SK::P, SK::Q], [SK::Q, SK::P, SK::Q, SK::P], [SK::P, SK::P, SK::Q, SK::Q], [SK::Q, SK::Q, SK::P, SK::P]] {
            for layout in [0u8, 1, 2] {
                let sibs: Vec<Sib> = ks.iter().map(|k| Sib::new(*k, stride, first)).collect();
                push(&mut v, &sibs, layout);
            }
        }
    }
    v
}

/// the op lines of one sibling configuration: the honest proof must verify (`stmt … none`); EVERY asserted cell of EVERY
/// sibling is violated individually (on the column carrying the main assertion; in the auxiliary layout also through the
/// source column — only the auxiliary assertion is violated — and in the committed auxiliary column itself); one
/// non-asserted cell per sibling column is changed (the trace stays valid: must be accepted); every sequence sibling
/// is attacked with the value polynomial under other domain offsets (no shift, shift in the wrong direction, the offset
/// of a sibling, neighbouring offsets)
fn emit_siblings(cfg: &Cfg, sc: &SibCase, idx: usize, rich: bool, emit: &mut dyn FnMut(String)) {
    let d = &cfg.desc;
    let n = d.trace_len;
    let ct = cfg_text(cfg);
    let has_aux = d.aux.is_some();
    emit(format!("stmt {} none", ct));
    let trace = gen_trace(d, cfg.field, cfg.seed);
    let pubs = pub_inputs(d, cfg.field, &trace);
    let small = n * d.width <= 128;
    let mut valid_line = |bad: &TraceData, emit: &mut dyn FnMut(String)| {
        if small {
            emit(format!("valid {} {} {} {}", cfg.field.name(), d.to_line(), csv(&pubs), trace_text(bad)));
        }
    };
    let m = cfg.field.modulus();
    for (i, s) in sc.sibs.iter().enumerate() {
        let a = s.assert_on(sc.main_cols[i]);
        let steps = a.steps(n);
        for (si, st) in steps.iter().enumerate() {
            let kinds: Vec<&str> = if rich { vec!["inc", "rnd"] } else { vec![if (idx + si + i) % 2 == 0 { "inc" } else { "rnd" }] };
            for kind in kinds {
                emit(format!("cell {} {} {} {}", ct, sc.main_cols[i], st, kind));
                if has_aux {
                    emit(format!("cell {} {} {} {}", ct, sc.src_cols[i], st, kind));
                }
            }
            if has_aux {
                emit(format!("auxcell {} {} {}", ct, i, st));
                emit(format!("auxcell {} {} {} {}", ct, i, st, ["ext", "two", "p32", "dec"][(idx + si + i) % 4]));
            }
            if si == 0 && i == 0 {
                if let Some(nv) = corrupt_value("inc", trace[sc.main_cols[i]][*st], m, 0) {
                    let mut bad = trace.clone();
                    bad[sc.main_cols[i]][*st] = nv;
                    valid_line(&bad, emit);
                }
            }
        }
        // a cell no assertion names, on a column no constraint reads
        let free = (s.first + 1) % n;
        if !steps.contains(&free) {
            emit(format!("cell {} {} {} inc", ct, sc.main_cols[i], free));
            if has_aux {
                emit(format!("cell {} {} {} rnd", ct, sc.src_cols[i], free));
            }
        }
        // the value polynomial under other offsets
        if s.kind == SK::Q && s.stride <= n / 2 {
            let mut ds: Vec<usize> = vec![s.first, (2 * s.first) % n, 1, n - 1, s.stride];
            for o in &sc.sibs {
                ds.push((s.first + n - o.first) % n);
                ds.push((s.first + o.first) % n);
            }
            ds.retain(|x| *x % n != 0);
            ds.sort();
            ds.dedup();
            for dd in ds {
                let spec = format!("{}.{}.{}", s.stride, sc.pub_pos[i], dd);
                emit(format!("cell {} {} {} shift.{}", ct, sc.main_cols[i], s.first, spec));
                if has_aux {
                    emit(format!("cell {} {} {} shift.{}", ct, sc.src_cols[i], s.first, spec));
                }
                if dd == s.first || dd == 1 {
                    if let Some(cells) = forge_shift(cfg, &pubs, s.first, &spec) {
                        let mut bad = trace.clone();
                        for (st, nv) in cells {
                            bad[sc.main_cols[i]][st] = nv;
                        }
                        valid_line(&bad, emit);
                    }
                }
            }
        }
    }
}

/// evidence label of a description with a boundary-constraint group (key (stride, first step); single assertions and
/// one-value sequences have stride 0) that has members of different kinds or more than two members: kinds of the
/// two lowest columns of the first such group (s single, u one-value sequence, p periodic, q sequence) and zero /
/// non-zero first step
fn group_sig(desc_line: &str) -> Option<String> {
    let mut n = 0usize;
    let mut segs: Vec<(char, Vec<&str>)> = vec![];
    for f in desc_line.split(';') {
        if let Some(v) = f.strip_prefix("l=") {
            n = v.parse().ok()?;
        } else if let Some(v) = f.strip_prefix("a=") {
            segs.push(('m', v.split(',').collect()));
        } else if let Some(v) = f.strip_prefix("b=") {
            segs.push(('x', v.split(',').map(|x| x.split('=').next().unwrap_or("")).collect()));
        }
    }
    let mut sigs: Vec<String> = vec![];
    for (seg, items) in segs {
        let mut groups: std::collections::BTreeMap<(usize, usize), Vec<(usize, char)>> = Default::default();
        for it in items {
            if it.is_empty() {
                continue;
            }
            let nums: Vec<usize> = it[1..].split('.').filter_map(|x| x.parse().ok()).collect();
            let kc = it.as_bytes()[0] as char;
            let (key, ch) = match (kc, nums.len()) {
                ('s', 2) => ((0, nums[1]), 's'),
                ('p', 3) => ((nums[2], nums[1]), 'p'),
                ('q', 3) if nums[2] == n => ((0, nums[1]), 'u'),
                ('q', 3) => ((nums[2], nums[1]), 'q'),
                _ => return None,
            };
            groups.entry(key).or_default().push((nums[0], ch));
        }
        for ((_, first), mut g) in groups {
            g.sort();
            let mixed = g.iter().any(|x| x.1 != g[0].1);
            if g.len() >= 2 && (mixed || g.len() > 2) {
                sigs.push(format!("{}{}.{}", g[0].1, g[1].1, if first == 0 { "0" } else { "nz" }));
                break;
            }
        }
        let _ = seg;
    }
    sigs.into_iter().next()
}

fn options_for(d: &AirDesc, field: FieldId, k: usize) -> OptSpec {
    let b = d.min_blowup().max(if k % 3 == 0 { 4 } else { 2 });
    let exts: Vec<u8> = (1..=3u8).filter(|x| field.supports_ext(*x)).collect();
    let x = exts[k % exts.len()];
    let (f, r) = [(2usize, 1usize), (4, 3), (2, 0), (8, 7), (4, 1)][k % 5];
    // keep the FRI schedule well-formed (the overshoot configurations are a recorded C15 finding)
    let lde = d.trace_len * b;
    let ok = |f: usize, r: usize| {
        let mut dsz = lde;
        let maxr = (r + 1) * b;
        while dsz > maxr {
            dsz /= f;
            if dsz < 2 {
                return false;
            }
        }
        dsz / b >= 1
    };
    let (f, r) = if ok(f, r) { (f, r) } else { (2, 1) };
    let q = [3usize, 1, 5, 8][k % 4].min(lde - 1);
    OptSpec::new(q, b, if k % 7 == 3 { 2 } else { 0 }, x, f, r)
}

fn trace_text(t: &TraceData) -> String {
    t.iter().map(|c| c.iter().map(|v| v.to_string()).collect::<Vec<_>>().join(",")).collect::<Vec<_>>().join(";")
}

fn csv(v: &[u128]) -> String {
    if v.is_empty() {
        "-".into()
    } else {
        v.iter().map(|x| x.to_string()).collect::<Vec<_>>().join(",")
    }
}

fn emit_config(rng: &mut Rng, cfg: &Cfg, all_cells: bool, kinds: &[&str], emit: &mut dyn FnMut(String)) {
    let d = &cfg.desc;
    let n = d.trace_len;
    let ct = cfg_text(cfg);
    // interesting steps: first, last non-exempt, both sides of the exemption boundary, last, asserted
    let mut steps: Vec<usize> = vec![0, 1, n - d.exemptions - 1, n - d.exemptions, (n - d.exemptions + 1).min(n - 1), n - 1];
    for a in &d.assertions {
        steps.extend(a.steps(n));
    }
    steps.sort();
    steps.dedup();
    let trace = gen_trace(d, cfg.field, cfg.seed);
    let pubs = pub_inputs(d, cfg.field, &trace);
    let m = cfg.field.modulus();
    for col in 0..d.width {
        for step in 0..n {
            if !all_cells && !steps.contains(&step) {
                continue;
            }
            for (ki, kind) in kinds.iter().enumerate() {
                emit(format!("cell {} {} {} {}", ct, col, step, kind));
                // the reference predicate on the same corrupted trace, for the model correspondence
                if ki == 0 && n * d.width <= 128 {
                    if let Some(nv) = corrupt_value(kind, trace[col][step], m, cfg.seed ^ ((col as u64) << 32) ^ step as u64) {
                        let mut bad = trace.clone();
                        bad[col][step] = nv;
                        emit(format!("valid {} {} {} {}", cfg.field.name(), d.to_line(), csv(&pubs), trace_text(&bad)));
                    }
                }
            }
        }
    }
    if let Some(x) = &d.aux {
        for col in 0..x.width {
            emit(format!("auxcell {} {} 0 scale", ct, col));
            for step in 0..n {
                if all_cells || steps.contains(&step) {
                    emit(format!("auxcell {} {} {}", ct, col, step));
                    // differences in the extension coordinates only, by small constants, by a power of two
                    if kinds.len() > 2 {
                        for mode in ["ext", "two", "p32", "dec"] {
                            emit(format!("auxcell {} {} {} {}", ct, col, step, mode));
                        }
                    } else {
                        emit(format!("auxcell {} {} {} {}", ct, col, step, ["ext", "two", "p32", "dec"][(col + step) % 4]));
                    }
                }
            }
        }
    }
    // statements
    emit(format!("stmt {} none", ct));
    // every single public value (all of them up to 24, then the last one), their order, their count
    for i in 0..pubs.len().min(24) {
        for kind in ["inc", "rnd", "zero", "dec", "p32"] {
            emit(format!("stmt {} pub:{}:{}", ct, i, kind));
        }
    }
    if pubs.len() > 24 {
        emit(format!("stmt {} pub:{}:inc", ct, pubs.len() - 1));
    }
    for i in 0..pubs.len().min(8) {
        for j in i + 1..pubs.len().min(8) {
            if pubs[i] != pubs[j] && (j == i + 1 || j == pubs.len().min(8) - 1) {
                emit(format!("stmt {} pubswap:{}:{}", ct, i, j));
            }
        }
    }
    for p in ["pubrot", "publen:z", "publen:d", "publen:f", "accset:with", "accset:without", "minprov:4000"] {
        emit(format!("stmt {} {}", ct, p));
    }
    for p in ["publen:p", "publen:m", "ctxlen:x2", "ctxlen:d2", "ctxwidth:p", "ctxwidth:m", "ctxmeta:00", "ctxmeta:01ff", "minsec:4000"] {
        emit(format!("stmt {} {}", ct, p));
    }
    let o = &cfg.opts;
    let alts: Vec<(&str, Vec<usize>)> = vec![
        ("q", vec![o.queries + 1, o.queries.saturating_sub(1).max(1), 255]),
        ("b", vec![o.blowup * 2, (o.blowup / 2).max(2)]),
        ("g", vec![o.grinding as usize + 1, 0, 3]),
        ("x", vec![1, 2, 3]),
        ("f", vec![2, 4, 8, 16]),
        ("r", vec![0, 1, 3, 7, 255]),
    ];
    for (w, vs) in alts {
        for v in vs {
            emit(format!("stmt {} accopt:{}:{}", ct, w, v));
            emit(format!("stmt {} ctxopt:{}:{}", ct, w, v));
        }
    }
    for f in FieldId::ALL {
        if f != cfg.field {
            emit(format!("stmt {} field:{}", ct, f.name()));
        }
    }
    for h in HashId::for_field(cfg.field) {
        if h != cfg.hash {
            emit(format!("stmt {} hasher:{}", ct, h.name()));
        }
    }
    for p in ["exempt_p", "exempt_m", "const", "assert"] {
        emit(format!("stmt {} desc:{}", ct, p));
    }
    let _ = rng;
}

impl Prop for P {
    fn id(&self) -> &'static str {
        "C02"
    }

    fn gen(&self, rng: &mut Rng, tier: Tier, n: usize, emit: &mut dyn FnMut(String)) {
        let quick = tier == Tier::Quick;
        let nrand = default_n(tier, 60, 700, n);
        let mut k = 0usize;
        // hand-made family x fields x hashers (rotating) x extensions/options (rotating)
        let lens: &[usize] = if quick { &[8, 16] } else { &[8, 16, 32] };
        for &len in lens {
            for d in family(len) {
                for field in FieldId::ALL {
                    let hashes = HashId::for_field(field);
                    let reps = if quick { 1 } else { hashes.len() };
                    for rep in 0..reps {
                        k += 1;
                        let hash = hashes[(k + rep) % hashes.len()];
                        let opts = options_for(&d, field, k);
                        let cfg = Cfg { field, hash, opts, seed: 1000 + k as u64, desc: Arc::new(d.clone()) };
                        let all = len <= 16 || !quick;
                        let kinds: &[&str] = if quick && len > 8 { &["inc", "rnd"] } else { &["inc", "rnd", "zero", "neg"] };
                        emit_config(rng, &cfg, all && (rep == 0 || len <= 16), kinds, emit);
                    }
                }
            }
        }
        // second family: #aux vs #main constraints, all assertion kinds on both segments, exemptions at the upper
        // bound, structured periodic columns, degree = blowup + 1; LDE blowup equal to AND above the ce blowup
        let lens2: &[usize] = if quick { &[8] } else { &[8, 16, 32] };
        for &len in lens2 {
            for field in FieldId::ALL {
                let hashes = HashId::for_field(field);
                for (di, d) in family2(len, field).into_iter().enumerate() {
                    let ce = d.min_blowup();
                    let blowups: Vec<usize> = if quick { vec![ce, 2 * ce] } else { vec![ce, 2 * ce, 4 * ce] };
                    for (bi, b) in blowups.into_iter().enumerate() {
                        if b > 128 || (quick && bi == 1 && (di + len) % 2 == 1 && field != FieldId::F64) {
                            continue;
                        }
                        k += 1;
                        let mut opts = options_for(&d, field, k);
                        opts.blowup = b;
                        // keep the schedule well-formed for the chosen blowup
                        if !(opts.accepted() && {
                            let lde = len * b;
                            let mut dsz = lde;
                            let maxr = (opts.remainder + 1) * b;
                            let mut ok = true;
                            while dsz > maxr {
                                dsz /= opts.folding;
                                if dsz < 2 {
                                    ok = false;
                                    break;
                                }
                            }
                            ok && dsz / b >= 1 && opts.queries < lde
                        }) {
                            opts = OptSpec::new(3.min(len * b - 1), b, 0, opts.ext, 2, 1);
                        }
                        // a constant trace with a single query: the opening has the same shape at every position,
                        // the proof is position-independent (recorded `.constant-trace` findings)
                        let tr = gen_trace(&d, field, 2000 + k as u64);
                        if bi == 0 && tr.iter().all(|col| col.iter().all(|v| *v == col[0])) {
                            opts.queries = 1;
                        }
                        let cfg = Cfg { field, hash: hashes[k % hashes.len()], opts, seed: 2000 + k as u64, desc: Arc::new(d.clone()) };
                        let kinds: &[&str] = if bi == 0 { &["inc", "rnd", "zero", "neg", "two", "dec", "p32", "dbl"] } else { &["inc", "dbl"] };
                        emit_config(rng, &cfg, true, kinds, emit);
                    }
                }
            }
        }
        // third family: strided assertions next to sibling assertions with colliding parameters; every asserted
        // cell violated individually on both segments
        let lens3: &[usize] = if quick { &[8, 16] } else { &[8, 16, 32] };
        for &len in lens3 {
            for (di, d) in family3(len).into_iter().enumerate() {
                for (fi, field) in FieldId::ALL.into_iter().enumerate() {
                    if quick && (di + fi) % 3 != 0 {
                        continue;
                    }
                    let hashes = HashId::for_field(field);
                    k += 1;
                    let mut opts = options_for(&d, field, k);
                    if opts.queries >= len * opts.blowup {
                        opts.queries = 3;
                    }
                    let cfg = Cfg { field, hash: hashes[k % hashes.len()], opts, seed: 4000 + k as u64, desc: Arc::new(d.clone()) };
                    emit_config(rng, &cfg, true, &["inc", "rnd"], emit);
                }
            }
        }
        // fourth family: the same, exhaustive in the step of the single sibling assertion and over trace widths;
        // only the asserted cells of the strided assertion are violated (one at a time), fields and hashers rotate
        let lens4: &[usize] = if quick { &[8, 16] } else { &[8, 16, 32] };
        for &len in lens4 {
            for (di, (d, asserted)) in family4(len).into_iter().enumerate() {
                let field = FieldId::ALL[di % 3];
                let hashes = HashId::for_field(field);
                k += 1;
                let mut opts = options_for(&d, field, k);
                if opts.queries >= len * opts.blowup {
                    opts.queries = 3;
                }
                let has_aux = d.aux.is_some();
                let cfg = Cfg { field, hash: hashes[(di / 3) % hashes.len()], opts, seed: 6000 + k as u64, desc: Arc::new(d) };
                let ct = cfg_text(&cfg);
                for s in &asserted {
                    emit(format!("cell {} 1 {} {}", ct, s, if (di + s) % 2 == 0 { "inc" } else { "rnd" }));
                    if has_aux {
                        emit(format!("auxcell {} 0 {}", ct, s));
                    }
                }
            }
        }
        // fifth family: sibling assertions of different kinds in one boundary-constraint group (and in groups that
        // differ in one key component), every asserted cell of every sibling violated individually on both segments,
        // offset forgeries of every sequence sibling, the honest proof verified first
        let lens5: &[usize] = if quick { &[8, 16] } else { &[8, 16, 32] };
        for &len in lens5 {
            for (di, sc) in family5(len, quick).into_iter().enumerate() {
                let field = FieldId::ALL[(di + di / 7) % 3];
                let hashes = HashId::for_field(field);
                k += 1;
                let mut opts = options_for(&sc.desc, field, k);
                if opts.queries >= len * opts.blowup {
                    opts.queries = 3;
                }
                let cfg = Cfg { field, hash: hashes[(di / 3) % hashes.len()], opts, seed: 8000 + k as u64, desc: Arc::new(sc.desc.clone()) };
                emit_siblings(&cfg, &sc, di, !quick || len == 8, emit);
            }
        }
        // random descriptions of the shared family
        for i in 0..nrand {
            let field = *rng.pick(&FieldId::ALL);
            let hash = *rng.pick(&HashId::for_field(field));
            let bud = Budget {
                min_log_len: 3,
                max_log_len: if quick { 4 } else { 5 },
                max_width: 4,
                max_degree: *rng.pick(&[1usize, 2, 2, 3]),
                aux_pct: 30,
                lagrange_pct: 30,
                exemptions: true,
                degenerate: i % 10 == 0,
                sequences: true,
            };
            let d = random_desc_for(rng, &bud, field);
            let opts = options_for(&d, field, rng.below(1000) as usize);
            let cfg = Cfg { field, hash, opts, seed: rng.u64() % 1_000_000, desc: Arc::new(d) };
            emit_config(rng, &cfg, cfg.desc.trace_len <= 8 || !quick, &["inc", "rnd"], emit);
        }
        // the coin seed of the context (model correspondence)
        for field in FieldId::ALL {
            for (mw, aw, nr) in [(1usize, 0usize, 0usize), (255, 0, 0), (3, 2, 1), (200, 55, 255), (1, 254, 0), (7, 1, 3)] {
                for loglen in [3usize, 4, 10, 20] {
                    for meta in ["-", "00", "01", "0100", "ff00ff", "0102030405060708090a0b0c0d0e0f101112"] {
                        let o = OptSpec::new(1 + (mw * 7 + loglen) % 255, 1 << (1 + loglen % 7), (aw % 33) as u32, 1 + (nr % 3) as u8, 2 << (loglen % 4), (1usize << (mw % 9)) - 1);
                        emit(format!("seed {} {} {} {} {} {} {}", field.name(), mw, aw, nr, loglen, meta, o.to_text()));
                    }
                }
            }
        }
        for _ in 0..(if quick { 300 } else { 3000 }) {
            let field = *rng.pick(&FieldId::ALL);
            let mw = rng.range(1, 255) as usize;
            let aw = if rng.chance(1, 2) { 0 } else { rng.range(1, (255 - mw).max(1) as u64) as usize }.min(255 - mw);
            let nr = if aw == 0 { 0 } else { rng.below(256) as usize };
            let ml = rng.below(40) as usize;
            let meta = hex(&rng.bytes(ml));
            let o = OptSpec::new(rng.range(1, 255) as usize, 1 << rng.range(1, 7), rng.below(33) as u32, rng.range(1, 3) as u8, 1 << rng.range(1, 4), (1usize << rng.below(9)) - 1);
            emit(format!("seed {} {} {} {} {} {} {}", field.name(), mw, aw, nr, rng.range(3, 20), meta, o.to_text()));
        }
        // malformed
        emit("cell f64".into());
        emit("stmt f64 blake3_256 4.4.0.1.4.3 1 garbage none".into());
        emit("valid f64 w=1;l=8;e=1;j=0;p=;g=R;t=1:-n0c0;a=s0.0 1 1,2,3".into());
        emit("valid f64 w=1;l=8;e=1;j=0;p=;g=R;t=1:-n0c0;a=s0.0 1,2 1,1,1,1,1,1,1,1".into());
        emit("valid f64 w=1;l=8;e=1;j=0;p=;g=R;t=1:-n0c0;a=s0.0 1 1,1,1,1,1,1,1,1;2,2,2,2,2,2,2,2".into());
    }

    fn exec(&self, line: &str) -> Outcome {
        let t: Vec<&str> = line.split(' ').filter(|x| !x.is_empty()).collect();
        match t.first().copied() {
            Some("cell") => exec_cell(&t[1..]),
            Some("auxcell") => exec_auxcell(&t[1..]),
            Some("stmt") => exec_stmt(&t[1..]),
            Some("valid") => exec_valid(&t[1..]),
            Some("seed") => exec_seed(&t[1..]),
            _ => Outcome::ok("bad-op"),
        }
    }

    fn timeout_ms(&self) -> u64 {
        120_000
    }

    fn nontrivial(&self, _line: &str, out: &str) -> bool {
        !out.starts_with("bad-op")
    }

    fn class(&self, line: &str, out: &str) -> String {
        let t: Vec<&str> = line.split(' ').collect();
        let op = t.first().copied().unwrap_or("");
        match op {
            "cell" | "auxcell" => {
                let r = out.split(' ').next().unwrap_or("");
                let rk = if r == "ref=ok" { "valid" } else if r.starts_with("ref=") { r[4..].split('[').next().unwrap_or("") } else { r };
                let v = out.split(' ').nth(1).unwrap_or("").split(|c| c == ':' || c == '@').next().unwrap_or("");
                // sibling assertions of different kinds in one boundary-constraint group; multi-cell offset forgeries
                let opn = if t.get(8).map(|x| x.starts_with("shift.")).unwrap_or(false) { "cell-shift" } else { op };
                match t.get(5).and_then(|d| group_sig(d)) {
                    Some(sig) => format!("{}.sib[{}]:{}+{}", opn, sig, rk, v),
                    None => format!("{}.{}:{}+{}", opn, t.get(1).unwrap_or(&""), rk, v),
                }
            },
            "stmt" => {
                let p = t.last().unwrap_or(&"").split(':').next().unwrap_or("");
                let mut it = out.split(' ');
                let ch = it.next().unwrap_or("");
                let v = it.next().unwrap_or("").split('@').next().unwrap_or("");
                format!("stmt.{}:{}+{}", p, ch, v)
            },
            _ => format!("{}:{}", op, if out == "bad-op" { "bad-op" } else if out == "ok" { "ok" } else if op == "valid" { out.split('[').next().unwrap_or("") } else { "ok" }),
        }
    }

    fn rule(&self) -> &'static str {
        "distinct op lines that are not bad-op; a cell op is one (configuration, corrupted cell, corruption value) proved by a prover that does not validate and verified (up to three prove/verify runs), a stmt op one honest proof checked against one perturbed statement, valid/seed ops one evaluation of the reference predicate / the context seed compared with the Lean model"
    }

    fn panic_site(&self, line: &str) -> Option<String> {
        if line.starts_with("seed") {
            None
        } else {
            Some("c02.harness.panic".into())
        }
    }
}

fn main() {
    main_for(&P);
}
