//! C04: Fiat–Shamir transcript — every challenge is drawn from a coin that has absorbed the context,
//! the public inputs and every earlier prover message (exactly the values carried in the proof); prover
//! and verifier absorb the same messages in the same order and derive identical used challenges.
//!
//! Observation point: a RECORDING COIN (`RecCoin<H>`, a wrapper around `DefaultRandomCoin<H>` that
//! implements `winter_crypto::RandomCoin` and logs every trait call with arguments and results into a
//! thread-local log) substituted through the `RandomCoin` type parameter of `GenericProver<B, H, R>` and
//! of `winter_verifier::verify::<AIR, H, R>`.
//!
//! Op line:
//!   run <aux> <lagrange> <gkr draws> <aux rands> <transition constraints> <assertions> <log2 n> <width>
//!       <composition columns> <FRI layers> <queries> <lde> <ext> <grinding>
//!       <field> <hasher> <q.b.g.x.f.r> <trace seed> <AirDesc line>
//!   The 14 numbers are the transcript configuration (`Cfg` of lean/Winter/Model/Transcript.lean); the
//!   generator computes them from the description and the options with the harness's own arithmetic, and
//!   `exec` refuses a line whose numbers do not belong to its description (`cfg-mismatch`).
//!   output: `P <observed prover script> V <observed verifier script>` in the canonical text form of the
//!   Lean driver: `new:ctx+pub`, `r:<message>` (message identified BY VALUE against what is recomputed from
//!   the proof object: main aux cons oodt oode fri<i> rem, `?` for a value the proof does not carry),
//!   `d<ext>x<count>` for a run of consecutive draws, `pow` (a run of check_leading_zeros calls), `nonce`,
//!   `ints:<n>:<domain>` (the two halves of draw_integers).
//!
//!   ctx <field> <A> <B>      A, B = `mw.aw.ar.log2len.meta.q.b.g.x.f.r` (meta: hex or `-`): two proof contexts;
//!   output: `Context::to_elements()` of both (canonical integers), compared with `ctxElems` of the Lean model;
//!   oracle: two DIFFERENT contexts must not seed the coin with the same elements
//!   (c04.seed.context-collision.<what differs>).
//!
//! Oracle (independent of the Lean model; sites):
//!   c04.prover-verifier-mismatch   the two logs differ (kinds, absorbed bytes, values of used challenges)
//!                                  after deleting the draws the verifier makes between the last FRI
//!                                  commitment and the proof-of-work check (never read by verify_generic)
//!   c04.unabsorbed.<msg>[.P|.V]    a message carried in the proof is not absorbed by that side
//!   c04.late-absorb.<msg>.<side>   absorbed, but after a challenge it has to precede
//!   c04.order.<side>               any other deviation from the protocol order written down in `expected`
//!   c04.foreign-absorb.<side>      an absorbed digest that is not carried in the proof
//!   c04.seed[.context-elements]    the seed is not context elements (recomputed from plain numbers, and
//!                                  from proof.context) followed by the public inputs
//!   c04.pow / c04.queries          nonce / grinding / positions inconsistent with the proof
//!   c04.provenance.<field>, c04.unbound.<field>, c04.insensitive.<field>
//!                                  tampering probes on the verifier: changing ONE proof field changes
//!                                  exactly the absorption that carries it (nothing before it), the absorbed
//!                                  value is the one recomputed from the tampered field, and the next
//!                                  challenge changes; a field the verifier uses but does not absorb
//!                                  (the FRI remainder polynomial) must be rejected by a binding check
#![allow(dead_code, unused_variables, unused_imports, unused_mut, clippy::too_many_arguments, clippy::type_complexity)]
use std::cell::RefCell;
use std::sync::Arc;

use wf_harness::core::*;
use wf_harness::genair::*;
use winter_air::proof::{Commitments, OodFrame, Proof};
use winter_crypto::{
    hashers::{Blake3_192, Blake3_256, Rp62_248, Rp64_256, RpJive64_256, Sha3_256},
    DefaultRandomCoin, Digest, ElementHasher, RandomCoin, RandomCoinError,
};
use winter_fri::FriProof;
use winter_math::{
    fields::{f128, f62, f64, CubeExtension, QuadExtension},
    FieldElement, StarkField, ToElements,
};
use winter_prover::Prover;
use winter_utils::{Deserializable, Serializable};
use winter_verifier::{AcceptableOptions, VerifierError};

pub struct P;

// ==================================================================================== recording coin
#[derive(Clone, Debug, PartialEq, Eq)]
enum Rec {
    /// `new(seed)`: the seed elements as canonical integers
    New(Vec<u128>),
    /// `reseed(digest)`: the serialized digest
    Reseed(Vec<u8>),
    /// `draw::<E>()`: extension degree of E, serialized result (None: error)
    Draw { deg: usize, val: Option<Vec<u8>> },
    /// a run of `check_leading_zeros` calls: number of calls, largest result before the last call,
    /// argument and result of the last call
    Pow { calls: u64, max_before: u32, nonce: u64, zeros: u32 },
    /// `draw_integers(n, domain, nonce)`
    Ints { n: usize, domain: usize, nonce: u64, vals: Option<Vec<usize>> },
}

thread_local! {
    static LOG: RefCell<Vec<Rec>> = const { RefCell::new(Vec::new()) };
}

fn log_push(r: Rec) {
    LOG.with(|l| l.borrow_mut().push(r));
}

fn log_take() -> Vec<Rec> {
    LOG.with(|l| std::mem::take(&mut *l.borrow_mut()))
}

fn le_u128(bytes: &[u8]) -> u128 {
    let mut v = 0u128;
    for (i, b) in bytes.iter().enumerate().take(16) {
        v |= (*b as u128) << (8 * i);
    }
    v
}

pub struct RecCoin<H: ElementHasher> {
    inner: DefaultRandomCoin<H>,
}

impl<B: StarkField, H: ElementHasher<BaseField = B>> RandomCoin for RecCoin<H> {
    type BaseField = B;
    type Hasher = H;

    fn new(seed: &[B]) -> Self {
        log_push(Rec::New(seed.iter().map(|e| le_u128(&e.to_bytes())).collect()));
        RecCoin { inner: DefaultRandomCoin::<H>::new(seed) }
    }

    fn reseed(&mut self, data: H::Digest) {
        log_push(Rec::Reseed(data.to_bytes()));
        self.inner.reseed(data)
    }

    fn check_leading_zeros(&self, value: u64) -> u32 {
        let z = self.inner.check_leading_zeros(value);
        LOG.with(|l| {
            let mut l = l.borrow_mut();
            if let Some(Rec::Pow { calls, max_before, nonce, zeros }) = l.last_mut() {
                *max_before = (*max_before).max(*zeros);
                *calls += 1;
                *nonce = value;
                *zeros = z;
            } else {
                l.push(Rec::Pow { calls: 1, max_before: 0, nonce: value, zeros: z });
            }
        });
        z
    }

    fn draw<E: FieldElement<BaseField = B>>(&mut self) -> Result<E, RandomCoinError> {
        let r = self.inner.draw::<E>();
        log_push(Rec::Draw { deg: E::EXTENSION_DEGREE, val: r.as_ref().ok().map(|e| e.to_bytes()) });
        r
    }

    fn draw_integers(&mut self, num_values: usize, domain_size: usize, nonce: u64) -> Result<Vec<usize>, RandomCoinError> {
        let r = self.inner.draw_integers(num_values, domain_size, nonce);
        log_push(Rec::Ints { n: num_values, domain: domain_size, nonce, vals: r.as_ref().ok().cloned() });
        r
    }
}

// ==================================================================================== configuration
/// FRI schedule by the harness's own arithmetic: number of layers
fn fri_layers(lde: usize, blowup: usize, folding: usize, remainder: usize) -> usize {
    let max_rem = (remainder + 1) * blowup;
    let mut d = lde;
    let mut k = 0;
    while d > max_rem {
        d /= folding;
        k += 1;
    }
    k
}

/// every folded layer keeps at least two rows and the remainder has at least one coefficient
fn fri_well_formed(lde: usize, blowup: usize, folding: usize, remainder: usize) -> bool {
    let max_rem = (remainder + 1) * blowup;
    let mut d = lde;
    while d > max_rem {
        d /= folding;
        if d < 2 {
            return false;
        }
    }
    d / blowup >= 1
}

/// the 14 numbers of the transcript configuration
fn cfg_of(d: &AirDesc, o: &OptSpec) -> [u64; 14] {
    let n = d.trace_len;
    let log_n = n.trailing_zeros() as u64;
    let (aux, lag, rands, atrans, aassert) = match &d.aux {
        None => (0, 0, 0, 0, 0),
        Some(x) => (1, x.lagrange as u64, x.num_rands as u64, x.constraints.len() as u64, x.assertions.len() as u64),
    };
    let highest = d.all_constraints().map(|c| c.degree.eval_degree(n)).max().unwrap_or(0);
    let tdd = n - d.exemptions;
    let cols = if highest >= tdd { ((highest - tdd) / n + 1).max(1) } else { 1 };
    let lde = n * o.blowup;
    [
        aux,
        lag,
        if lag == 1 { log_n } else { 0 },
        rands,
        d.constraints.len() as u64 + atrans,
        d.assertions.len() as u64 + aassert,
        log_n,
        d.total_width() as u64,
        cols as u64,
        fri_layers(lde, o.blowup, o.folding, o.remainder) as u64,
        o.queries as u64,
        lde as u64,
        o.ext as u64,
        o.grinding as u64,
    ]
}

/// the protocol order as observable tokens (written from the protocol, not from the code): side 'P' | 'V'
fn expected(c: &[u64; 14], side: char) -> Vec<String> {
    let (aux, lag, gkr, rands, nt, na, log_n, width, cols, layers, q, lde, ext) =
        (c[0] == 1, c[1] == 1, c[2], c[3], c[4], c[5], c[6], c[7], c[8], c[9], c[10], c[11], c[12]);
    let mut t: Vec<String> = vec![];
    let mut draw = |t: &mut Vec<String>, k: u64| {
        if k > 0 {
            t.push(format!("d{}x{}", ext, k));
        }
    };
    // statement
    t.push("new:ctx+pub".into());
    // main trace commitment
    t.push("r:main".into());
    if aux {
        // randomness for the auxiliary segment (Lagrange kernel randomness first), then its commitment
        draw(&mut t, if lag { gkr } else { 0 } + rands);
        t.push("r:aux".into());
    }
    // composition coefficients: one per transition constraint, one per assertion, Lagrange kernel: log n + 1
    draw(&mut t, nt + na + if lag { log_n + 1 } else { 0 });
    t.push("r:cons".into());
    // out-of-domain point
    draw(&mut t, 1);
    t.push("r:oodt".into());
    t.push("r:oode".into());
    // DEEP coefficients: one per trace column, one per composition column, one for the Lagrange kernel
    draw(&mut t, width + cols + lag as u64);
    for i in 0..layers {
        t.push(format!("r:fri{}", i));
        draw(&mut t, 1);
    }
    t.push("r:rem".into());
    if side == 'V' {
        // FriVerifier::new draws one α per commitment; the one after the remainder commitment is not used
        draw(&mut t, 1);
    }
    t.push("pow".into());
    t.push("nonce".into());
    t.push(format!("ints:{}:{}", q, lde));
    t
}

/// context elements from plain numbers (TraceInfo, modulus, ProofOptions as documented in
/// air/src/proof/context.rs), canonical integers
fn context_elements(d: &AirDesc, o: &OptSpec, field: FieldId) -> Vec<u128> {
    let mut buf = d.width as u128;
    match &d.aux {
        None => buf <<= 8,
        Some(x) => {
            buf = (buf << 8) | 1;
            buf = (buf << 8) | x.width as u128;
            buf = (buf << 8) | x.num_rands as u128;
        },
    }
    let m = field.modulus();
    let half_bits = if field == FieldId::F128 { 64 } else { 32 };
    let lo = m & ((1u128 << half_bits) - 1);
    let hi = m >> half_bits;
    let opt = ((o.ext as u128) << 16) | ((o.folding as u128) << 8) | o.remainder as u128;
    vec![buf, d.trace_len as u128, lo, hi, opt, o.grinding as u128, o.blowup as u128, o.queries as u128]
}

// ==================================================================================== op lines
struct RunOp {
    cfg: [u64; 14],
    field: FieldId,
    hash: HashId,
    opts: OptSpec,
    seed: u64,
    desc: Arc<AirDesc>,
}

fn parse_run(t: &[&str]) -> Result<RunOp, String> {
    if t.len() != 19 {
        return Err("arity".into());
    }
    let mut cfg = [0u64; 14];
    for i in 0..14 {
        cfg[i] = t[i].parse::<u64>().map_err(|_| "cfg")?;
    }
    let field = FieldId::parse(t[14]).ok_or("field")?;
    let hash = HashId::parse(t[15]).ok_or("hasher")?;
    let opts = OptSpec::parse(t[16]).ok_or("options")?;
    let seed = t[17].parse::<u64>().map_err(|_| "seed")?;
    let desc = AirDesc::parse(t[18])?;
    Ok(RunOp { cfg, field, hash, opts, seed, desc: Arc::new(desc) })
}

fn run_line(field: FieldId, hash: HashId, o: &OptSpec, seed: u64, d: &AirDesc) -> String {
    let c = cfg_of(d, o);
    let cs: Vec<String> = c.iter().map(|x| x.to_string()).collect();
    format!("run {} {} {} {} {} {}", cs.join(" "), field.name(), hash.name(), o.to_text(), seed, d.to_line())
}

fn admissible(op: &RunOp) -> bool {
    let n = op.desc.trace_len;
    op.opts.accepted()
        && op.opts.blowup >= op.desc.min_blowup()
        && fri_well_formed(n * op.opts.blowup, op.opts.blowup, op.opts.folding, op.opts.remainder)
        && op.opts.queries < n * op.opts.blowup
        && op.hash.compatible(op.field)
        && op.field.supports_ext(op.opts.ext)
        && op.opts.grinding <= 20
}

// ==================================================================================== analysis
fn read_elems<E: FieldElement>(bytes: &[u8]) -> Option<Vec<E>> {
    if bytes.len() % E::ELEMENT_BYTES != 0 {
        return None;
    }
    bytes.chunks(E::ELEMENT_BYTES).map(|c| E::read_from_bytes(c).ok()).collect()
}

/// the three byte strings of a serialized OodFrame: trace states, Lagrange kernel states, evaluations
fn split_ood(bytes: &[u8]) -> Option<(Vec<u8>, Vec<u8>, Vec<u8>, [usize; 3])> {
    let mut pos = 0;
    let mut parts = vec![];
    let mut offs = [0usize; 3];
    for k in 0..3 {
        if pos + 2 > bytes.len() {
            return None;
        }
        let len = u16::from_le_bytes([bytes[pos], bytes[pos + 1]]) as usize;
        pos += 2;
        if pos + len > bytes.len() {
            return None;
        }
        offs[k] = pos;
        parts.push(bytes[pos..pos + len].to_vec());
        pos += len;
    }
    if pos != bytes.len() {
        return None;
    }
    let c = parts.pop().unwrap();
    let b = parts.pop().unwrap();
    let a = parts.pop().unwrap();
    Some((a, b, c, offs))
}

/// the values a proof carries for the messages, in protocol order: (label, serialized digest)
struct Carried {
    msgs: Vec<(String, Vec<u8>)>,
    remainder_hash: Option<Vec<u8>>,
    digest_len: usize,
}

fn carried<E: FieldElement, H: ElementHasher<BaseField = E::BaseField>>(proof: &Proof, nseg: usize, layers: usize) -> Result<Carried, String> {
    // commitments: u16 length, then the digests back to back
    let cb = proof.commitments.to_bytes();
    if cb.len() < 2 {
        return Err("commitments too short".into());
    }
    let body = &cb[2..];
    let count = nseg + 1 + layers + 1;
    if body.is_empty() || body.len() % count != 0 {
        return Err(format!("{} commitment bytes do not split into {} digests", body.len(), count));
    }
    let dl = body.len() / count;
    let dig = |i: usize| body[i * dl..(i + 1) * dl].to_vec();
    // out-of-domain frame
    let ob = proof.ood_frame.to_bytes();
    let (ts, ls, ev, _) = split_ood(&ob).ok_or("ood frame layout")?;
    if ts.is_empty() || ls.is_empty() {
        return Err("ood frame parts empty".into());
    }
    let mut states: Vec<E> = read_elems::<E>(&ts[1..]).ok_or("ood trace states")?;
    let lag: Vec<E> = read_elems::<E>(&ls[1..]).ok_or("ood lagrange states")?;
    if lag.len() != ls[0] as usize {
        return Err("lagrange frame count".into());
    }
    states.extend(lag);
    let evals: Vec<E> = read_elems::<E>(&ev).ok_or("ood evaluations")?;
    let mut msgs = vec![("main".to_string(), dig(0))];
    if nseg == 2 {
        msgs.push(("aux".to_string(), dig(1)));
    }
    msgs.push(("cons".to_string(), dig(nseg)));
    msgs.push(("oodt".to_string(), H::hash_elements(&states).to_bytes()));
    msgs.push(("oode".to_string(), H::hash_elements(&evals).to_bytes()));
    for i in 0..layers {
        msgs.push((format!("fri{}", i), dig(nseg + 1 + i)));
    }
    msgs.push(("rem".to_string(), dig(nseg + 1 + layers)));
    let remainder_hash = proof.fri_proof.parse_remainder::<E>().ok().map(|r| H::hash_elements(&r).to_bytes());
    Ok(Carried { msgs, remainder_hash, digest_len: dl })
}

/// label the absorptions of a log by value; returns (tokens, index in the log of each token, labels found)
fn canon_log(log: &[Rec], car: &Carried, seed_ctx: &[u128], seed_pub: &[u128]) -> (Vec<String>, Vec<usize>) {
    let mut used = vec![false; car.msgs.len()];
    let mut toks: Vec<String> = vec![];
    let mut idx: Vec<usize> = vec![];
    let mut i = 0;
    while i < log.len() {
        match &log[i] {
            Rec::New(s) => {
                let mut full = seed_ctx.to_vec();
                full.extend_from_slice(seed_pub);
                let t = if *s == full {
                    "new:ctx+pub"
                } else if s.as_slice() == seed_ctx {
                    "new:ctx"
                } else if s.as_slice() == seed_pub {
                    "new:pub"
                } else {
                    "new:?"
                };
                toks.push(t.into());
                idx.push(i);
                i += 1;
            },
            Rec::Reseed(b) => {
                let mut label = "?".to_string();
                for (k, (l, v)) in car.msgs.iter().enumerate() {
                    if !used[k] && v == b {
                        used[k] = true;
                        label = l.clone();
                        break;
                    }
                }
                toks.push(format!("r:{}", label));
                idx.push(i);
                i += 1;
            },
            Rec::Draw { deg, val } => {
                let mut j = i;
                let mut ok = val.is_some();
                while j < log.len() {
                    match &log[j] {
                        Rec::Draw { deg: d2, val: v2 } if d2 == deg => {
                            ok &= v2.is_some();
                            j += 1;
                        },
                        _ => break,
                    }
                }
                toks.push(if ok { format!("d{}x{}", deg, j - i) } else { format!("d{}x{}err", deg, j - i) });
                idx.push(i);
                i = j;
            },
            Rec::Pow { .. } => {
                toks.push("pow".into());
                idx.push(i);
                i += 1;
            },
            Rec::Ints { n, domain, vals, .. } => {
                toks.push("nonce".into());
                idx.push(i);
                toks.push(if vals.is_some() { format!("ints:{}:{}", n, domain) } else { format!("ints:{}:{}err", n, domain) });
                idx.push(i);
                i += 1;
            },
        }
    }
    (toks, idx)
}

/// compare the observed tokens with the protocol order; classify the first deviation
fn judge_order(o: &mut Outcome, side: char, obs: &[String], exp: &[String], op_text: &str) {
    // every carried message must be absorbed at all
    for e in exp.iter().filter(|e| e.starts_with("r:")) {
        if !obs.contains(e) {
            o.fails.push((format!("c04.unabsorbed.{}.{}", &e[2..], side), format!("{} never absorbs the {} carried in the proof; observed {}", side, &e[2..], obs.join(","))));
        }
    }
    if obs == exp {
        return;
    }
    let k = obs.iter().zip(exp.iter()).position(|(a, b)| a != b).unwrap_or(obs.len().min(exp.len()));
    let want = exp.get(k).cloned().unwrap_or_else(|| "end".into());
    let got = obs.get(k).cloned().unwrap_or_else(|| "end".into());
    let next_want = exp.get(k + 1).cloned().unwrap_or_default();
    if want.starts_with('d') && got.starts_with('d') && next_want.starts_with("r:") && obs.contains(&next_want) && !want.ends_with("err") && !got.ends_with("err") {
        // more draws than the protocol allows before the next message: a challenge was drawn before that message was absorbed
        o.fails.push((format!("c04.late-absorb.{}.{}", &next_want[2..], side), format!("position {}: {} draws where the protocol has {} before {}: a challenge is drawn before {} is absorbed; observed {}", k, got, want, next_want, next_want, obs.join(","))));
    } else if want.starts_with("r:") && obs.contains(&want) {
        o.fails.push((format!("c04.late-absorb.{}.{}", &want[2..], side), format!("position {}: protocol order requires {} but {} comes first; observed {}", k, want, got, obs.join(","))));
    } else if got == "r:?" {
        o.fails.push((format!("c04.foreign-absorb.{}", side), format!("position {}: an absorbed digest is not carried in the proof (expected {}); observed {}", k, want, obs.join(","))));
    } else if !(want.starts_with("r:") && !obs.contains(&want)) {
        o.fails.push((format!("c04.order.{}", side), format!("position {}: expected {} observed {}; observed {}", k, want, got, obs.join(","))));
    }
}

fn verr_kind(r: &Result<(), VerifierError>) -> String {
    match r {
        Ok(()) => "ok".into(),
        Err(e) => verifier_error_kind(e),
    }
}

/// index (in the log) of the first challenge record after position `from`
fn next_challenge(log: &[Rec], from: usize) -> Option<&Rec> {
    log.iter().skip(from + 1).find(|r| matches!(r, Rec::Draw { .. } | Rec::Pow { .. } | Rec::Ints { .. }))
}

fn run_g<B, E, H>(op: &RunOp) -> Outcome
where
    B: GField,
    E: FieldElement<BaseField = B>,
    H: ElementHasher<BaseField = B> + Send + Sync,
{
    let mut o = Outcome::default();
    let desc = op.desc.clone();
    let c = &op.cfg;
    let (nseg, layers) = (if c[0] == 1 { 2 } else { 1 }, c[9] as usize);
    // ---- valid trace, public inputs
    let trace = gen_trace(&desc, op.field, op.seed);
    let pubs = pub_inputs(&desc, op.field, &trace);
    let values: Vec<B> = pubs.iter().map(|v| B::from_word(*v % B::MOD)).collect();
    // ---- prove with the recording coin
    log_take();
    let prover = GenericProver::<B, H, RecCoin<H>>::new(desc.clone(), op.opts.to_options());
    let proof = match guarded(|| prover.prove(GenTrace::<B>::new(&desc, &trace))) {
        Err(info) => {
            o.out = "prove-panic".into();
            return o.fail("c04.harness.prove-panic", info);
        },
        Ok(Err(e)) => {
            o.out = format!("prove-err:{}", prover_error_kind(&e));
            return o.fail("c04.harness.prove-err", format!("{:?}", e));
        },
        Ok(Ok(p)) => p,
    };
    let plog = log_take();
    // ---- verify with the recording coin
    let acceptable = AcceptableOptions::OptionSet(vec![op.opts.to_options()]);
    let verify_rec = |p: Proof, vals: Vec<B>| -> (Result<Result<(), VerifierError>, String>, Vec<Rec>) {
        log_take();
        let d2 = desc.clone();
        let acc = &acceptable;
        let r = guarded(move || winter_verifier::verify::<GenericAir<B>, H, RecCoin<H>>(p, GenPub { desc: d2, values: vals }, acc));
        (r, log_take())
    };
    let (vres, vlog) = verify_rec(proof.clone(), values.clone());
    match &vres {
        Ok(Ok(())) => {},
        Ok(Err(e)) => o.fails.push(("c04.harness.honest-proof-rejected".into(), format!("{:?}", e))),
        Err(info) => o.fails.push(("c04.harness.verify-panic".into(), info.clone())),
    }
    // ---- what the proof carries
    let car = match carried::<E, H>(&proof, nseg, layers) {
        Ok(c) => c,
        Err(e) => {
            o.out = "proof-layout".into();
            return o.fail("c04.harness.proof-layout", e);
        },
    };
    let seed_ctx = context_elements(&desc, &op.opts, op.field);
    let seed_pub = pubs.clone();
    // (d) the context part of the seed is a function of proof.context
    let lib_ctx: Vec<u128> = ToElements::<B>::to_elements(&proof.context).iter().map(|e| e.canon()).collect();
    if lib_ctx != seed_ctx {
        o.fails.push(("c04.seed.context-elements".into(), format!("proof.context.to_elements() = {:?}, context by the documented layout = {:?}", lib_ctx, seed_ctx)));
    }
    let (ptok, pidx) = canon_log(&plog, &car, &seed_ctx, &seed_pub);
    let (vtok, vidx) = canon_log(&vlog, &car, &seed_ctx, &seed_pub);
    o.out = format!("P {} V {}", ptok.join(","), vtok.join(","));
    // (d) seed
    for (side, tok) in [('P', &ptok), ('V', &vtok)] {
        if tok.first().map(|s| s.as_str()) != Some("new:ctx+pub") {
            o.fails.push(("c04.seed".into(), format!("{}: coin created with {:?}; expected context {:?} ++ public inputs {:?}", side, tok.first(), seed_ctx, seed_pub)));
        }
    }
    // (b') protocol order, independent of the Lean model
    judge_order(&mut o, 'P', &ptok, &expected(c, 'P'), "");
    judge_order(&mut o, 'V', &vtok, &expected(c, 'V'), "");
    // remainder commitment = hash of the remainder carried in the FRI proof
    if let (Some(h), Some((_, r))) = (&car.remainder_hash, car.msgs.last()) {
        if h != r {
            o.fails.push(("c04.remainder-commitment".into(), "the last commitment of an honest proof is not the hash of the remainder polynomial it carries".into()));
        }
    }
    // (a) prover log vs verifier log, after deleting the verifier's draws between the last commitment and the PoW check
    let mut v2 = vlog.clone();
    let mut deleted = 0;
    if let Some(pw) = v2.iter().position(|r| matches!(r, Rec::Pow { .. })) {
        let mut k = pw;
        while k > 0 && matches!(v2[k - 1], Rec::Draw { .. }) {
            k -= 1;
        }
        deleted = pw - k;
        v2.drain(k..pw);
    }
    let same = |a: &Rec, b: &Rec| match (a, b) {
        (Rec::Pow { nonce: n1, zeros: z1, .. }, Rec::Pow { nonce: n2, zeros: z2, .. }) => n1 == n2 && z1 == z2,
        _ => a == b,
    };
    if plog.len() != v2.len() || !plog.iter().zip(v2.iter()).all(|(a, b)| same(a, b)) {
        let k = plog.iter().zip(v2.iter()).position(|(a, b)| !same(a, b)).unwrap_or(plog.len().min(v2.len()));
        o.fails.push((
            "c04.prover-verifier-mismatch".into(),
            format!("record {}: prover {:?} verifier {:?} (lengths {} / {}, {} unused verifier draws deleted)", k, plog.get(k), v2.get(k), plog.len(), v2.len(), deleted),
        ));
    }
    // proof of work and query positions against the proof
    let g = op.opts.grinding;
    for (side, log) in [('P', &plog), ('V', &vlog)] {
        let pow = log.iter().find_map(|r| if let Rec::Pow { calls, max_before, nonce, zeros } = r { Some((*calls, *max_before, *nonce, *zeros)) } else { None });
        let ints = log.iter().find_map(|r| if let Rec::Ints { n, domain, nonce, vals } = r { Some((*n, *domain, *nonce, vals.clone())) } else { None });
        match pow {
            None => o.fails.push(("c04.pow".into(), format!("{}: no proof-of-work check", side))),
            Some((calls, maxb, nonce, zeros)) => {
                if nonce != proof.pow_nonce || zeros < g || (side == 'V' && calls != 1) || (side == 'P' && calls > 1 && maxb >= g) {
                    o.fails.push(("c04.pow".into(), format!("{}: {} calls, last nonce {} ({} zeros, earlier max {}), proof nonce {}, grinding {}", side, calls, nonce, zeros, maxb, proof.pow_nonce, g)));
                }
            },
        }
        match ints {
            None => o.fails.push(("c04.queries".into(), format!("{}: no query positions drawn", side))),
            Some((n, dom, nonce, vals)) => {
                let mut v = vals.clone().unwrap_or_default();
                v.sort_unstable();
                v.dedup();
                if nonce != proof.pow_nonce || n != op.opts.queries || dom != c[11] as usize || vals.is_none() || v.len() != proof.num_unique_queries as usize {
                    o.fails.push(("c04.queries".into(), format!("{}: draw_integers({}, {}, {}) -> {:?}; proof: nonce {} unique {}", side, n, dom, nonce, vals, proof.pow_nonce, proof.num_unique_queries)));
                }
            },
        }
    }
    // ---- tampering probes on the verifier (provenance: each absorbed value is a function of its proof field only)
    if vres.as_ref().map(|r| r.is_ok()).unwrap_or(false) && vtok == expected(c, 'V') {
        let pos_of = |label: &str| -> Option<usize> { vtok.iter().position(|t| t == &format!("r:{}", label)).map(|k| vidx[k]) };
        let mut probe = |o: &mut Outcome, name: &str, label: &str, tp: Proof, vals: Vec<B>, expect: Option<Vec<u8>>| {
            let at = match pos_of(label) {
                Some(a) => a,
                None => return,
            };
            let (r, tlog) = verify_rec(tp, vals);
            if tlog.len() <= at {
                // the verifier stopped before it reached the absorption (the tampered field no longer parses)
                return;
            }
            if tlog[..at] != vlog[..at] {
                let k = tlog.iter().zip(vlog.iter()).position(|(a, b)| a != b).unwrap_or(0);
                o.fails.push((format!("c04.provenance.{}", name), format!("only {} was changed but record {} of the verifier log changed: {:?} -> {:?}", name, k, vlog.get(k), tlog.get(k))));
                return;
            }
            match (&tlog[at], &expect) {
                (Rec::Reseed(b), Some(e)) if b == e && Rec::Reseed(b.clone()) != vlog[at] => {},
                (got, _) => {
                    o.fails.push((format!("c04.unbound.{}", name), format!("after changing {} the verifier absorbs {:?}; recomputed from the changed field: {:?}; honest: {:?}", name, got, expect.as_ref().map(|e| hex(e)), vlog[at])));
                    return;
                },
            }
            if let (Some(a), Some(b)) = (next_challenge(&tlog, at), next_challenge(&vlog, at)) {
                if a == b && !matches!(a, Rec::Draw { val: None, .. }) {
                    o.fails.push((format!("c04.insensitive.{}", name), format!("the challenge after the changed {} is unchanged: {:?}", name, a)));
                }
            }
        };
        // commitments: flip one bit in each digest
        let cb = proof.commitments.to_bytes();
        let dl = car.digest_len;
        let labels: Vec<String> = {
            let mut l = vec!["main".to_string()];
            if nseg == 2 {
                l.push("aux".into());
            }
            l.push("cons".into());
            for i in 0..layers {
                l.push(format!("fri{}", i));
            }
            l.push("rem".into());
            l
        };
        for (k, label) in labels.iter().enumerate() {
            let mut b = cb.clone();
            b[2 + k * dl] ^= 1;
            if let Ok(cm) = Commitments::read_from_bytes(&b) {
                let mut tp = proof.clone();
                tp.commitments = cm;
                let e = b[2 + k * dl..2 + (k + 1) * dl].to_vec();
                probe(&mut o, &format!("commitment.{}", label), label, tp, values.clone(), Some(e));
            }
        }
        // out-of-domain trace states / evaluations: change one element
        let ob = proof.ood_frame.to_bytes();
        if let Some((ts, ls, ev, offs)) = split_ood(&ob) {
            for (name, label, off) in [("ood-trace-states", "oodt", offs[0] + 1), ("ood-evaluations", "oode", offs[2])] {
                let mut b = ob.clone();
                b[off] ^= 1;
                if let (Ok(fr), Some((ts2, ls2, ev2, _))) = (OodFrame::read_from_bytes(&b), split_ood(&b)) {
                    let e = if label == "oodt" {
                        match (read_elems::<E>(&ts2[1..]), read_elems::<E>(&ls2[1..])) {
                            (Some(mut a), Some(l)) => {
                                a.extend(l);
                                Some(H::hash_elements(&a).to_bytes())
                            },
                            _ => None,
                        }
                    } else {
                        read_elems::<E>(&ev2).map(|a| H::hash_elements(&a).to_bytes())
                    };
                    if e.is_some() {
                        let mut tp = proof.clone();
                        tp.ood_frame = fr;
                        probe(&mut o, name, label, tp, values.clone(), e);
                    }
                }
            }
        }
        // FRI remainder polynomial: used by the verifier's last check, not absorbed itself: its commitment is.
        // A changed remainder must either change the transcript before the query positions or be refused by a
        // binding check (commitment mismatch); otherwise the positions do not depend on the remainder used.
        {
            let fb = proof.fri_proof.to_bytes();
            let rl = proof.fri_proof.num_remainder_elements::<E>() * E::ELEMENT_BYTES;
            if rl > 0 && fb.len() > rl + 1 {
                let mut b = fb.clone();
                let off = fb.len() - 1 - rl;
                b[off] ^= 1;
                if let Ok(fp) = FriProof::read_from_bytes(&b) {
                    if fp.parse_remainder::<E>().is_ok() {
                        let mut tp = proof.clone();
                        tp.fri_proof = fp;
                        let (r, tlog) = verify_rec(tp, values.clone());
                        let kind = match &r {
                            Ok(res) => verr_kind(res),
                            Err(_) => "panic".into(),
                        };
                        let upto = |l: &[Rec]| l.iter().position(|r| matches!(r, Rec::Ints { .. })).map(|k| l[..=k].to_vec());
                        let unchanged = upto(&tlog).is_some() && upto(&tlog) == upto(&vlog);
                        if unchanged && kind != "FriVerificationFailed.RemainderCommitmentMismatch" {
                            o.fails.push((
                                "c04.unbound.remainder".into(),
                                format!("the FRI remainder polynomial of the proof was changed (first coefficient): the verifier absorbs the same values and draws the same query positions {:?}, and no binding check refuses it (verdict {}): the positions do not depend on the remainder the verifier evaluates", tlog.iter().find_map(|r| if let Rec::Ints { vals, .. } = r { vals.clone() } else { None }), kind),
                            ));
                        }
                    }
                }
            }
        }
        // proof-of-work nonce
        {
            let mut tp = proof.clone();
            tp.pow_nonce ^= 1;
            let n2 = tp.pow_nonce;
            let (r, tlog) = verify_rec(tp, values.clone());
            if let Some(pw) = vlog.iter().position(|r| matches!(r, Rec::Pow { .. })) {
                if tlog.len() > pw {
                    let ok_prefix = tlog[..pw] == vlog[..pw];
                    let ok_pow = matches!(&tlog[pw], Rec::Pow { nonce, calls: 1, .. } if *nonce == n2);
                    let ok_ints = match tlog.get(pw + 1) {
                        None => true,
                        Some(Rec::Ints { nonce, vals, .. }) => *nonce == n2 && Some(&tlog[pw + 1]) != vlog.get(pw + 1),
                        _ => false,
                    };
                    if !ok_prefix {
                        o.fails.push(("c04.provenance.pow-nonce".into(), "changing the nonce changed an earlier record".into()));
                    } else if !ok_pow || !ok_ints {
                        o.fails.push(("c04.unbound.pow-nonce".into(), format!("changed nonce {}: verifier records {:?} {:?}", n2, tlog.get(pw), tlog.get(pw + 1))));
                    }
                }
            }
        }
        // public inputs
        if !values.is_empty() {
            let mut v2 = values.clone();
            v2[0] += B::ONE;
            let (r, tlog) = verify_rec(proof.clone(), v2.clone());
            let mut want = seed_ctx.clone();
            want.extend(v2.iter().map(|e| e.canon()));
            if tlog.first() != Some(&Rec::New(want.clone())) {
                o.fails.push(("c04.unbound.public-inputs".into(), format!("changed first public input: coin created with {:?}, expected {:?}", tlog.first(), want)));
            } else if let (Some(a), Some(b)) = (next_challenge(&tlog, 0), next_challenge(&vlog, 0)) {
                if a == b {
                    o.fails.push(("c04.insensitive.public-inputs".into(), "first challenge unchanged after changing a public input".into()));
                }
            }
        }
    }
    o
}

macro_rules! by_ext {
    ($ext:expr, $b:ty, $h:ty, $f:ident, ($($args:expr),*)) => {
        match $ext {
            1 => $f::<$b, $b, $h>($($args),*),
            2 => $f::<$b, QuadExtension<$b>, $h>($($args),*),
            _ => $f::<$b, CubeExtension<$b>, $h>($($args),*),
        }
    };
}

fn run_dispatch(op: &RunOp) -> Outcome {
    let x = op.opts.ext;
    match (op.field, op.hash) {
        (FieldId::F62, HashId::Blake3_256) => by_ext!(x, f62::BaseElement, Blake3_256<f62::BaseElement>, run_g, (op)),
        (FieldId::F62, HashId::Blake3_192) => by_ext!(x, f62::BaseElement, Blake3_192<f62::BaseElement>, run_g, (op)),
        (FieldId::F62, HashId::Sha3_256) => by_ext!(x, f62::BaseElement, Sha3_256<f62::BaseElement>, run_g, (op)),
        (FieldId::F62, HashId::Rp62_248) => by_ext!(x, f62::BaseElement, Rp62_248, run_g, (op)),
        (FieldId::F64, HashId::Blake3_256) => by_ext!(x, f64::BaseElement, Blake3_256<f64::BaseElement>, run_g, (op)),
        (FieldId::F64, HashId::Blake3_192) => by_ext!(x, f64::BaseElement, Blake3_192<f64::BaseElement>, run_g, (op)),
        (FieldId::F64, HashId::Sha3_256) => by_ext!(x, f64::BaseElement, Sha3_256<f64::BaseElement>, run_g, (op)),
        (FieldId::F64, HashId::Rp64_256) => by_ext!(x, f64::BaseElement, Rp64_256, run_g, (op)),
        (FieldId::F64, HashId::RpJive64_256) => by_ext!(x, f64::BaseElement, RpJive64_256, run_g, (op)),
        (FieldId::F128, HashId::Blake3_256) => by_ext!(x, f128::BaseElement, Blake3_256<f128::BaseElement>, run_g, (op)),
        (FieldId::F128, HashId::Blake3_192) => by_ext!(x, f128::BaseElement, Blake3_192<f128::BaseElement>, run_g, (op)),
        (FieldId::F128, HashId::Sha3_256) => by_ext!(x, f128::BaseElement, Sha3_256<f128::BaseElement>, run_g, (op)),
        _ => Outcome::ok("rejected"),
    }
}

fn exec_run(t: &[&str]) -> Outcome {
    let op = match parse_run(t) {
        Ok(op) => op,
        Err(e) => return Outcome::ok(format!("bad-op:{}", e.split(' ').next().unwrap_or(""))),
    };
    if op.desc.validate().is_err() {
        return Outcome::ok("bad-op:desc");
    }
    if !admissible(&op) {
        // outside the quantifier's domain (no proof exists / refused by the constructors): not run
        return Outcome::ok("bad-op:inadmissible");
    }
    if cfg_of(&op.desc, &op.opts) != op.cfg {
        return Outcome::ok("bad-op:cfg-mismatch").fail("c04.harness.cfg", format!("the configuration numbers of the line are not those of its description: {:?}", cfg_of(&op.desc, &op.opts)));
    }
    run_dispatch(&op)
}


// ==================================================================================== ctx op
#[derive(Clone, Debug, PartialEq, Eq)]
struct CtxSpec {
    mw: usize,
    aw: usize,
    ar: usize,
    log_len: u32,
    meta: Vec<u8>,
    opts: OptSpec,
}

fn parse_ctx(s: &str) -> Option<CtxSpec> {
    let p: Vec<&str> = s.split('.').collect();
    if p.len() != 11 {
        return None;
    }
    let num = |i: usize| p[i].parse::<u64>().ok().filter(|v| *v <= 1 << 20);
    let meta = if p[4] == "-" {
        vec![]
    } else {
        if p[4].len() % 2 != 0 || !p[4].bytes().all(|c| c.is_ascii_hexdigit()) {
            return None;
        }
        unhex(p[4])
    };
    let c = CtxSpec {
        mw: num(0)? as usize,
        aw: num(1)? as usize,
        ar: num(2)? as usize,
        log_len: num(3)? as u32,
        meta,
        opts: OptSpec::new(num(5)? as usize, num(6)? as usize, num(7)? as u32, num(8)? as u8, num(9)? as usize, num(10)? as usize),
    };
    // only what the documented constructor rules accept
    let ok = c.mw >= 1
        && c.mw + c.aw <= 255
        && c.ar <= 255
        && (c.aw != 0 || c.ar == 0)
        && (3..=31).contains(&c.log_len)
        && c.meta.len() <= 64
        && c.opts.accepted()
        && ((1u64 << c.log_len) * c.opts.blowup as u64) < (1u64 << 32);
    if ok {
        Some(c)
    } else {
        None
    }
}

fn ctx_text(c: &CtxSpec) -> String {
    let o = &c.opts;
    format!("{}.{}.{}.{}.{}.{}.{}.{}.{}.{}.{}", c.mw, c.aw, c.ar, c.log_len, hex(&c.meta), o.queries, o.blowup, o.grinding, o.ext, o.folding, o.remainder)
}

fn ctx_elems<B: GField>(c: &CtxSpec) -> Vec<u128> {
    let ti = winter_air::TraceInfo::new_multi_segment(c.mw, c.aw, c.ar, 1usize << c.log_len, c.meta.clone());
    let ctx = winter_air::proof::Context::new::<B>(ti, c.opts.to_options());
    ToElements::<B>::to_elements(&ctx).iter().map(|e| e.canon()).collect()
}

fn exec_ctx(t: &[&str]) -> Outcome {
    if t.len() != 3 {
        return Outcome::ok("bad-op");
    }
    let (field, a, b) = match (FieldId::parse(t[0]), parse_ctx(t[1]), parse_ctx(t[2])) {
        (Some(f), Some(a), Some(b)) => (f, a, b),
        _ => return Outcome::ok("bad-op"),
    };
    let (ea, eb) = match field {
        FieldId::F62 => (ctx_elems::<f62::BaseElement>(&a), ctx_elems::<f62::BaseElement>(&b)),
        FieldId::F64 => (ctx_elems::<f64::BaseElement>(&a), ctx_elems::<f64::BaseElement>(&b)),
        FieldId::F128 => (ctx_elems::<f128::BaseElement>(&a), ctx_elems::<f128::BaseElement>(&b)),
    };
    let show = |v: &[u128]| v.iter().map(|x| x.to_string()).collect::<Vec<_>>().join(",");
    let mut o = Outcome::ok(format!("{} {}", show(&ea), show(&eb)));
    if a != b && ea == eb {
        let only_meta = (CtxSpec { meta: vec![], ..a.clone() }) == (CtxSpec { meta: vec![], ..b.clone() });
        let what = if a.meta != b.meta && only_meta {
            "trace-meta"
        } else if a.opts != b.opts {
            "options"
        } else {
            "trace-info"
        };
        o = o.fail(
            format!("c04.seed.context-collision.{}", what),
            format!("the contexts {} and {} differ but Context::to_elements() gives the same seed elements {:?}: the coin does not absorb the difference", ctx_text(&a), ctx_text(&b), ea),
        );
    }
    o
}

fn random_ctx(rng: &mut Rng) -> CtxSpec {
    let aw = if rng.chance(1, 2) { 0 } else { rng.range(1, 40) as usize };
    let mw = rng.range(1, (255 - aw) as u64) as usize;
    let ar = if aw == 0 { 0 } else { rng.range(0, 255) as usize };
    let log_len = rng.range(3, 24) as u32;
    let meta_len = *rng.pick(&[0usize, 0, 0, 1, 2, 6, 7, 8, 14, 15, 16, 17, 30]);
    let meta = rng.bytes(meta_len);
    let b = *rng.pick(&[2usize, 4, 8, 16, 32, 64, 128]);
    let opts = OptSpec::new(rng.range(1, 255) as usize, b, rng.range(0, 32) as u32, rng.range(1, 3) as u8, *rng.pick(&[2usize, 4, 8, 16]), (1usize << rng.below(9)) - 1);
    CtxSpec { mw, aw, ar, log_len, meta, opts }
}

/// pairs of contexts differing in exactly one place
fn gen_ctx_ops(rng: &mut Rng, n: usize, emit: &mut dyn FnMut(String)) {
    for i in 0..n {
        let field = *rng.pick(&FieldId::ALL);
        let a = random_ctx(rng);
        let mut b = a.clone();
        match i % 12 {
            0 => b.mw = if a.mw + a.aw < 255 { a.mw + 1 } else { a.mw - 1 }.max(1),
            1 => {
                // auxiliary segment appears / changes
                if a.aw == 0 {
                    b.aw = 1;
                    b.mw = a.mw.min(254);
                } else {
                    b.aw = if a.mw + a.aw < 255 { a.aw + 1 } else { a.aw - 1 };
                    if b.aw == 0 {
                        b.ar = 0;
                    }
                }
            },
            2 => {
                if a.aw > 0 {
                    b.ar = (a.ar + 1) % 256;
                } else {
                    b.log_len = if a.log_len < 24 { a.log_len + 1 } else { a.log_len - 1 };
                }
            },
            3 => b.log_len = if a.log_len < 24 { a.log_len + 1 } else { a.log_len - 1 },
            4 => b.opts.queries = a.opts.queries % 255 + 1,
            5 => b.opts.blowup = if a.opts.blowup == 128 { 64 } else { a.opts.blowup * 2 },
            6 => b.opts.grinding = (a.opts.grinding + 1) % 33,
            7 => b.opts.ext = a.opts.ext % 3 + 1,
            8 => b.opts.folding = if a.opts.folding == 16 { 2 } else { a.opts.folding * 2 },
            9 => b.opts.remainder = if a.opts.remainder == 255 { 0 } else { a.opts.remainder * 2 + 1 },
            10 => {
                // metadata: a byte changed, or a non-zero byte appended
                if a.meta.is_empty() {
                    b.meta = vec![rng.range(1, 255) as u8];
                } else if rng.chance(1, 2) {
                    let k = rng.below(a.meta.len() as u64) as usize;
                    b.meta[k] ^= 1 << rng.below(8);
                } else {
                    b.meta.push(rng.range(1, 255) as u8);
                }
            },
            _ => {
                // metadata: zero bytes appended (the padding class), also across a chunk boundary
                let k = rng.range(1, 9) as usize;
                b.meta.extend(std::iter::repeat(0u8).take(k));
            },
        }
        if parse_ctx(&ctx_text(&b)).is_some() {
            emit(format!("ctx {} {} {}", field.name(), ctx_text(&a), ctx_text(&b)));
        }
    }
    emit("ctx f64 1.0.0.3.-.1.2.0.1.2.0".into());
    emit("ctx f64 0.0.0.3.-.1.2.0.1.2.0 1.0.0.3.-.1.2.0.1.2.0".into());
}

// ==================================================================================== generator
fn random_opts(rng: &mut Rng, d: &AirDesc, field: FieldId, max_lde: usize, want_layers: Option<usize>) -> OptSpec {
    let n = d.trace_len;
    let minb = d.min_blowup();
    for _ in 0..400 {
        let mut blowups: Vec<usize> = [2usize, 4, 8, 16, 32, 64, 128].into_iter().filter(|b| *b >= minb && n * b <= max_lde).collect();
        if blowups.is_empty() {
            blowups.push(minb);
        }
        let b = *rng.pick(&blowups);
        let f = *rng.pick(&[2usize, 2, 4, 4, 8, 16]);
        let r = (1usize << rng.below(9)) - 1;
        let lde = n * b;
        let q = if rng.chance(1, 8) { rng.range(1, (lde - 1).min(255) as u64) } else { rng.range(1, (lde - 1).min(12) as u64) } as usize;
        let g = match rng.below(20) {
            0..=9 => 0,
            10..=16 => rng.range(1, 8) as u32,
            17 | 18 => rng.range(9, 13) as u32,
            _ => rng.range(14, 16) as u32,
        };
        let exts: Vec<u8> = (1..=3u8).filter(|x| field.supports_ext(*x)).collect();
        let x = *rng.pick(&exts);
        let o = OptSpec::new(q, b, g, x, f, r);
        if !fri_well_formed(lde, b, f, r) {
            continue;
        }
        if let Some(l) = want_layers {
            if fri_layers(lde, b, f, r) != l {
                continue;
            }
        }
        return o;
    }
    OptSpec::new(1, minb, 0, 1, 2, 0)
}

fn budget(rng: &mut Rng, i: usize, tier: Tier) -> Budget {
    let big = if tier == Tier::Thorough { 9 } else { 7 };
    Budget {
        min_log_len: 3,
        max_log_len: if i % 16 == 0 { big } else if i % 4 == 0 { 6 } else { 4 },
        max_width: if i % 25 == 0 { 30 } else { 5 },
        max_degree: *rng.pick(&[1usize, 2, 2, 3, 3, 4]),
        aux_pct: 55,
        lagrange_pct: 45,
        exemptions: true,
        degenerate: i % 15 == 0,
        sequences: true,
    }
}

fn gen_ops(rng: &mut Rng, tier: Tier, n: usize, emit: &mut dyn FnMut(String)) {
    // boundary classes: every hasher x field x extension; FRI schedules with 0, 1, …, max layers
    for field in FieldId::ALL {
        for hash in HashId::for_field(field) {
            for ext in 1..=3u8 {
                if !field.supports_ext(ext) {
                    continue;
                }
                for k in 0..3 {
                    let mut b = budget(rng, 1, tier);
                    b.aux_pct = [0, 100, 100][k];
                    b.lagrange_pct = [0, 0, 100][k];
                    let d = random_desc(rng, &b);
                    let mut o = random_opts(rng, &d, field, 512, None);
                    o.ext = ext;
                    emit(run_line(field, hash, &o, rng.u64() % 1_000_000, &d));
                }
            }
        }
    }
    let max_log = if tier == Tier::Thorough { 10 } else { 7 };
    for log_n in 3..=max_log {
        for layers in 0..=(log_n + 1) as usize {
            let mut b = budget(rng, 1, tier);
            b.min_log_len = log_n;
            b.max_log_len = log_n;
            b.max_degree = 2;
            let d = random_desc(rng, &b);
            let field = *rng.pick(&FieldId::ALL);
            let hash = *rng.pick(&HashId::for_field(field));
            let o = random_opts(rng, &d, field, 1 << (log_n + 2), Some(layers));
            if fri_layers(d.trace_len * o.blowup, o.blowup, o.folding, o.remainder) == layers {
                emit(run_line(field, hash, &o, rng.u64() % 1_000_000, &d));
            }
        }
    }
    // grinding 0..16
    for g in 0..=16u32 {
        let bud = budget(rng, 1, tier);
        let d = random_desc(rng, &bud);
        let field = *rng.pick(&FieldId::ALL);
        let hash = *rng.pick(&HashId::for_field(field));
        let mut o = random_opts(rng, &d, field, 512, None);
        o.grinding = g;
        emit(run_line(field, hash, &o, rng.u64() % 1_000_000, &d));
    }
    // random descriptions x random admissible options x fields x hashers
    for i in 0..n {
        let field = *rng.pick(&FieldId::ALL);
        let hash = *rng.pick(&HashId::for_field(field));
        let bud = budget(rng, i, tier);
        let d = random_desc(rng, &bud);
        let o = random_opts(rng, &d, field, if i % 10 == 0 { 4096 } else { 512 }, None);
        emit(run_line(field, hash, &o, rng.u64() % 1_000_000, &d));
    }
    // malformed stream
    emit("run 1 2 3".into());
    emit("frobnicate".into());
    emit("run 0 0 0 0 1 1 3 1 1 1 1 16 1 0 f64 blake3_256 1.2.0.1.2.0 w=1;l=8".into());
}

impl Prop for P {
    fn id(&self) -> &'static str {
        "C04"
    }

    fn gen(&self, rng: &mut Rng, tier: Tier, n: usize, emit: &mut dyn FnMut(String)) {
        let n = default_n(tier, 2500, 60000, n);
        gen_ops(rng, tier, n, emit);
        gen_ctx_ops(rng, n, emit);
    }

    fn exec(&self, line: &str) -> Outcome {
        let t: Vec<&str> = line.split(' ').filter(|x| !x.is_empty()).collect();
        match t.first().copied() {
            Some("run") => exec_run(&t[1..]),
            Some("ctx") => exec_ctx(&t[1..]),
            _ => Outcome::ok("bad-op"),
        }
    }

    fn timeout_ms(&self) -> u64 {
        180_000
    }

    fn nontrivial(&self, _line: &str, out: &str) -> bool {
        out.starts_with("P ") || (_line.starts_with("ctx") && out != "bad-op")
    }

    fn class(&self, line: &str, out: &str) -> String {
        let t: Vec<&str> = line.split(' ').collect();
        if t.first() == Some(&"run") && t.len() >= 19 {
            let seg = match (t[1], t[2]) {
                ("0", _) => "single",
                (_, "0") => "aux",
                _ => "aux+lagrange",
            };
            let g = t[14].parse::<u32>().unwrap_or(0);
            let gc = if g == 0 { "g0" } else if g <= 8 { "g1-8" } else { "g9-16" };
            let verdict = if out.starts_with("P ") { "ok" } else { out.split(' ').next().unwrap_or("") };
            format!("run.{}.x{}.layers{}.{}:{}", seg, t[13], t[10], gc, verdict)
        } else if t.first() == Some(&"ctx") && out != "bad-op" && out != "panic" {
            let mut p = out.split(' ');
            let same = p.next() == p.next();
            format!("ctx.{}:{}", t.get(1).unwrap_or(&""), if same { "same-elements" } else { "different-elements" })
        } else {
            format!("{}:{}", t.first().unwrap_or(&""), if out == "panic" { "panic" } else { "bad-op" })
        }
    }

    fn rule(&self) -> &'static str {
        "distinct op lines for which a proof was generated and verified with the recording coin (output starts with `P `): one (description, trace seed, options, field, hasher) tuple each, its prover log and verifier log compared with each other, with the values recomputed from the proof object, with the protocol order, and (by the check) with the Lean scripts; plus the tampering probes on the verifier; a ctx op is one pair of proof contexts pushed through Context::to_elements and the Lean model"
    }

    fn panic_site(&self, line: &str) -> Option<String> {
        if line.starts_with("run") || line.starts_with("ctx") {
            Some("c04.harness.panic".into())
        } else {
            None
        }
    }
}

fn main() {
    main_for(&P);
}
