//! C04: Fiat–Shamir transcript — every challenge is drawn from a coin that has absorbed the context,
//! the public inputs and every earlier prover message (exactly the values carried in the proof); prover
//! and verifier absorb the same messages in the same order and derive identical used challenges.
//!
//! Observation point: a RECORDING COIN (`RecCoin<H>`, a wrapper around `DefaultRandomCoin<H>` that
//! implements `winter_crypto::RandomCoin` and logs every trait call with arguments and results into a
//! thread-local log) substituted through the `RandomCoin` type parameter of `GenericProver<B, H, R>` and
//! of `winter_verifier::verify::<AIR, H, R>`.
//!
//! Op line:
//!   run <aux> <lagrange> <gkr draws> <aux rands> <transition constraints> <assertions> <log2 n> <width>
//!       <composition columns> <FRI layers> <queries> <lde> <ext> <grinding>
//!       <field> <hasher> <q.b.g.x.f.r> <trace seed> <AirDesc line>
//!   The 14 numbers are the transcript configuration (`Cfg` of lean/Winter/Model/Transcript.lean); the
//!   generator computes them from the description and the options with the harness's own arithmetic, and
//!   `exec` refuses a line whose numbers do not belong to its description (`cfg-mismatch`).
//!   output: `P <observed prover script> V <observed verifier script>` in the canonical text form of the
//!   Lean driver: `new:ctx+pub`, `r:<message>` (message identified BY VALUE against what is recomputed from
//!   the proof object: main aux cons oodt oode fri<i> rem, `?` for a value the proof does not carry),
//!   `d<ext>x<count>` for a run of consecutive draws, `pow` (a run of check_leading_zeros calls), `nonce`,
//!   `ints:<n>:<domain>` (the two halves of draw_integers).
//!
//!   ctx <field> <A> <B>      A, B = `mw.aw.ar.log2len.meta.q.b.g.x.f.r` (meta: hex or `-`): two proof contexts;
//!   output: `Context::to_elements()` of both (canonical integers), compared with `ctxElems` of the Lean model;
//!   oracle: two DIFFERENT contexts must not seed the coin with the same elements
//!   (c04.seed.context-collision.<what differs>).
//!
//!   fri <layers> <ext> <queries> <domain> <field> <hasher> <blowup> <folding> <remainder> <seed>
//!       the FRI crate's own entry points (FriProver::build_layers over DefaultProverChannel, FriVerifier::new over
//!       DefaultVerifierChannel) with the recording coin, on evaluations of a random low-degree polynomial;
//!       output `P <script> V <script>` as for `run` (seed: `new:`, messages fri<i> rem); same oracles.
//!
//! Oracle (independent of the Lean model; sites):
//!   c04.prover-verifier-mismatch   the two logs differ (kinds, absorbed bytes, values of used challenges)
//!                                  after deleting the draws the verifier makes between the last FRI
//!                                  commitment and the proof-of-work check (never read by verify_generic)
//!   c04.unabsorbed.<msg>[.P|.V]    a message carried in the proof is not absorbed by that side
//!   c04.late-absorb.<msg>.<side>   absorbed, but after a challenge it has to precede
//!   c04.order.<side>               any other deviation from the protocol order written down in `expected`
//!   c04.foreign-absorb.<side>      an absorbed digest that is not carried in the proof
//!   c04.seed[.context-elements]    the seed is not context elements (recomputed from plain numbers, and
//!                                  from proof.context) followed by the public inputs
//!   c04.pow / c04.queries          nonce / grinding / positions inconsistent with the proof
//!   c04.provenance.<field>, c04.unbound.<field>, c04.insensitive.<field>
//!                                  tampering probes on the verifier: changing ONE proof field changes
//!                                  exactly the absorption that carries it (nothing before it), the absorbed
//!                                  value is the one recomputed from the tampered field, and the next
//!                                  challenge changes; a field the verifier uses but does not absorb
//!                                  (the FRI remainder polynomial) must be rejected by a binding check
#![allow(dead_code, unused_variables, unused_imports, unused_mut, clippy::too_many_arguments, clippy::type_complexity)]
use std::cell::RefCell;
use std::sync::Arc;

use wf_harness::core::*;
use wf_harness::genair::*;
use winter_air::proof::{Commitments, OodFrame, Proof};
use winter_crypto::{
    hashers::{Blake3_192, Blake3_256, Rp62_248, Rp64_256, RpJive64_256, Sha3_256},
    DefaultRandomCoin, Digest, ElementHasher, RandomCoin, RandomCoinError,
};
use winter_fri::FriProof;
use winter_math::{
    fields::{f128, f62, f64, CubeExtension, QuadExtension},
    FieldElement, StarkField, ToElements,
};
use winter_prover::Prover;
use winter_utils::{Deserializable, Serializable};
use winter_verifier::{AcceptableOptions, VerifierError};

pub struct P;

// ==================================================================================== recording coin
#[derive(Clone, Debug, PartialEq, Eq)]
enum Rec {
    /// `new(seed)`: the seed elements as canonical integers
    New(Vec<u128>),
    /// `reseed(digest)`: the serialized digest
    Reseed(Vec<u8>),
    /// `draw::<E>()`: extension degree of E, serialized result (None: error)
    Draw { deg: usize, val: Option<Vec<u8>> },
    /// a run of `check_leading_zeros` calls: number of calls, largest result before the last call,
    /// argument and result of the last call
    Pow { calls: u64, max_before: u32, nonce: u64, zeros: u32 },
    /// `draw_integers(n, domain, nonce)`
    Ints { n: usize, domain: usize, nonce: u64, vals: Option<Vec<usize>> },
}

thread_local! {
    static LOG: RefCell<Vec<Rec>> = const { RefCell::new(Vec::new()) };
}

fn log_push(r: Rec) {
    LOG.with(|l| l.borrow_mut().push(r));
}

fn log_take() -> Vec<Rec> {
    LOG.with(|l| std::mem::take(&mut *l.borrow_mut()))
}

fn le_u128(bytes: &[u8]) -> u128 {
    let mut v = 0u128;
    for (i, b) in bytes.iter().enumerate().take(16) {
        v |= (*b as u128) << (8 * i);
    }
    v
}

pub struct RecCoin<H: ElementHasher> {
    inner: DefaultRandomCoin<H>,
}

impl<B: StarkField, H: ElementHasher<BaseField = B>> RandomCoin for RecCoin<H> {
    type BaseField = B;
    type Hasher = H;

    fn new(seed: &[B]) -> Self {
        log_push(Rec::New(seed.iter().map(|e| le_u128(&e.to_bytes())).collect()));
        RecCoin { inner: DefaultRandomCoin::<H>::new(seed) }
    }

    fn reseed(&mut self, data: H::Digest) {
        log_push(Rec::Reseed(data.to_bytes()));
        self.inner.reseed(data)
    }

    fn check_leading_zeros(&self, value: u64) -> u32 {
        let z = self.inner.check_leading_zeros(value);
        LOG.with(|l| {
            let mut l = l.borrow_mut();
            if let Some(Rec::Pow { calls, max_before, nonce, zeros }) = l.last_mut() {
                *max_before = (*max_before).max(*zeros);
                *calls += 1;
                *nonce = value;
                *zeros = z;
            } else {
                l.push(Rec::Pow { calls: 1, max_before: 0, nonce: value, zeros: z });
            }
        });
        z
    }

    fn draw<E: FieldElement<BaseField = B>>(&mut self) -> Result<E, RandomCoinError> {
        let r = self.inner.draw::<E>();
        log_push(Rec::Draw { deg: E::EXTENSION_DEGREE, val: r.as_ref().ok().map(|e| e.to_bytes()) });
        r
    }

    fn draw_integers(&mut self, num_values: usize, domain_size: usize, nonce: u64) -> Result<Vec<usize>, RandomCoinError> {
        let r = self.inner.draw_integers(num_values, domain_size, nonce);
        log_push(Rec::Ints { n: num_values, domain: domain_size, nonce, vals: r.as_ref().ok().cloned() });
        r
    }
}

// ==================================================================================== configuration
/// FRI schedule by the harness's own arithmetic: number of layers
fn fri_layers(lde: usize, blowup: usize, folding: usize, remainder: usize) -> usize {
    let max_rem = (remainder + 1) * blowup;
    let mut d = lde;
    let mut k = 0;
    while d > max_rem {
        d /= folding;
        k += 1;
    }
    k
}

/// every folded layer keeps at least two rows and the remainder has at least one coefficient
fn fri_well_formed(lde: usize, blowup: usize, folding: usize, remainder: usize) -> bool {
    let max_rem = (remainder + 1) * blowup;
    let mut d = lde;
    while d > max_rem {
        d /= folding;
        if d < 2 {
            return false;
        }
    }
    d / blowup >= 1
}

/// the 14 numbers of the transcript configuration
fn cfg_of(d: &AirDesc, o: &OptSpec) -> [u64; 14] {
    let n = d.trace_len;
    let log_n = n.trailing_zeros() as u64;
    let (aux, lag, rands, atrans, aassert) = match &d.aux {
        None => (0, 0, 0, 0, 0),
        Some(x) => (1, x.lagrange as u64, x.num_rands as u64, x.constraints.len() as u64, x.assertions.len() as u64),
    };
    let highest = d.all_constraints().map(|c| c.degree.eval_degree(n)).max().unwrap_or(0);
    let tdd = n - d.exemptions;
    let cols = if highest >= tdd { ((highest - tdd) / n + 1).max(1) } else { 1 };
    let lde = n * o.blowup;
    [
        aux,
        lag,
        if lag == 1 { log_n } else { 0 },
        rands,
        d.constraints.len() as u64 + atrans,
        d.assertions.len() as u64 + aassert,
        log_n,
        d.total_width() as u64,
        cols as u64,
        fri_layers(lde, o.blowup, o.folding, o.remainder) as u64,
        o.queries as u64,
        lde as u64,
        o.ext as u64,
        o.grinding as u64,
    ]
}

/// the protocol order as observable tokens (written from the protocol, not from the code): side 'P' | 'V'
fn expected(c: &[u64; 14], side: char) -> Vec<String> {
    let (aux, lag, gkr, rands, nt, na, log_n, width, cols, layers, q, lde, ext) =
        (c[0] == 1, c[1] == 1, c[2], c[3], c[4], c[5], c[6], c[7], c[8], c[9], c[10], c[11], c[12]);
    let mut t: Vec<String> = vec![];
    let mut draw = |t: &mut Vec<String>, k: u64| {
        if k > 0 {
            t.push(format!("d{}x{}", ext, k));
        }
    };
    // statement
    t.push("new:ctx+pub".into());
    // main trace commitment
    t.push("r:main".into());
    if aux {
        // randomness for the auxiliary segment (Lagrange kernel randomness first), then its commitment
        draw(&mut t, if lag { gkr } else { 0 } + rands);
        t.push("r:aux".into());
    }
    // composition coefficients: one per transition constraint, one per assertion, Lagrange kernel: log n + 1
    draw(&mut t, nt + na + if lag { log_n + 1 } else { 0 });
    t.push("r:cons".into());
    // out-of-domain point
    draw(&mut t, 1);
    t.push("r:oodt".into());
    t.push("r:oode".into());
    // DEEP coefficients: one per trace column, one per composition column, one for the Lagrange kernel
    draw(&mut t, width + cols + lag as u64);
    for i in 0..layers {
        t.push(format!("r:fri{}", i));
        draw(&mut t, 1);
    }
    t.push("r:rem".into());
    if side == 'V' {
        // FriVerifier::new draws one α per commitment; the one after the remainder commitment is not used
        draw(&mut t, 1);
    }
    t.push("pow".into());
    t.push("nonce".into());
    t.push(format!("ints:{}:{}", q, lde));
    t
}

/// context elements from plain numbers (TraceInfo, modulus, ProofOptions as documented in
/// air/src/proof/context.rs), canonical integers
fn context_elements(d: &AirDesc, o: &OptSpec, field: FieldId) -> Vec<u128> {
    let mut buf = d.width as u128;
    match &d.aux {
        None => buf <<= 8,
        Some(x) => {
            buf = (buf << 8) | 1;
            buf = (buf << 8) | x.width as u128;
            buf = (buf << 8) | x.num_rands as u128;
        },
    }
    let m = field.modulus();
    let half_bits = if field == FieldId::F128 { 64 } else { 32 };
    let lo = m & ((1u128 << half_bits) - 1);
    let hi = m >> half_bits;
    let opt = ((o.ext as u128) << 16) | ((o.folding as u128) << 8) | o.remainder as u128;
    vec![buf, d.trace_len as u128, lo, hi, opt, o.grinding as u128, o.blowup as u128, o.queries as u128]
}

// ==================================================================================== op lines
struct RunOp {
    cfg: [u64; 14],
    field: FieldId,
    hash: HashId,
    opts: OptSpec,
    seed: u64,
    desc: Arc<AirDesc>,
}

fn parse_run(t: &[&str]) -> Result<RunOp, String> {
    if t.len() != 19 {
        return Err("arity".into());
    }
    let mut cfg = [0u64; 14];
    for i in 0..14 {
        cfg[i] = t[i].parse::<u64>().map_err(|_| "cfg")?;
    }
    let field = FieldId::parse(t[14]).ok_or("field")?;
    let hash = HashId::parse(t[15]).ok_or("hasher")?;
    let opts = OptSpec::parse(t[16]).ok_or("options")?;
    let seed = t[17].parse::<u64>().map_err(|_| "seed")?;
    let desc = AirDesc::parse(t[18])?;
    Ok(RunOp { cfg, field, hash, opts, seed, desc: Arc::new(desc) })
}

fn run_line(field: FieldId, hash: HashId, o: &OptSpec, seed: u64, d: &AirDesc) -> String {
    let c = cfg_of(d, o);
    let cs: Vec<String> = c.iter().map(|x| x.to_string()).collect();
    format!("run {} {} {} {} {} {}", cs.join(" "), field.name(), hash.name(), o.to_text(), seed, d.to_line())
}

fn admissible(op: &RunOp) -> bool {
    let n = op.desc.trace_len;
    op.opts.accepted()
        && op.opts.blowup >= op.desc.min_blowup()
        && fri_well_formed(n * op.opts.blowup, op.opts.blowup, op.opts.folding, op.opts.remainder)
        && op.opts.queries < n * op.opts.blowup
        && op.hash.compatible(op.field)
        && op.field.supports_ext(op.opts.ext)
        && op.opts.grinding <= 20
}

// ==================================================================================== analysis
fn read_elems<E: FieldElement>(bytes: &[u8]) -> Option<Vec<E>> {
    if bytes.len() % E::ELEMENT_BYTES != 0 {
        return None;
    }
    bytes.chunks(E::ELEMENT_BYTES).map(|c| E::read_from_bytes(c).ok()).collect()
}

/// the three byte strings of a serialized OodFrame: trace states, Lagrange kernel states, evaluations
fn split_ood(bytes: &[u8]) -> Option<(Vec<u8>, Vec<u8>, Vec<u8>, [usize; 3])> {
    let mut pos = 0;
    let mut parts = vec![];
    let mut offs = [0usize; 3];
    for k in 0..3 {
        if pos + 2 > bytes.len() {
            return None;
        }
        let len = u16::from_le_bytes([bytes[pos], bytes[pos + 1]]) as usize;
        pos += 2;
        if pos + len > bytes.len() {
            return None;
        }
        offs[k] = pos;
        parts.push(bytes[pos..pos + len].to_vec());
        pos += len;
    }
    if pos != bytes.len() {
        return None;
    }
    let c = parts.pop().unwrap();
    let b = parts.pop().unwrap();
    let a = parts.pop().unwrap();
    Some((a, b, c, offs))
}

/// the values a proof carries for the messages, in protocol order: (label, serialized digest)
struct Carried {
    msgs: Vec<(String, Vec<u8>)>,
    remainder_hash: Option<Vec<u8>>,
    digest_len: usize,
}

fn carried<E: FieldElement, H: ElementHasher<BaseField = E::BaseField>>(proof: &Proof, nseg: usize, layers: usize) -> Result<Carried, String> {
    // commitments: u16 length, then the digests back to back
    let cb = proof.commitments.to_bytes();
    if cb.len() < 2 {
        return Err("commitments too short".into());
    }
    let body = &cb[2..];
    let count = nseg + 1 + layers + 1;
    if body.is_empty() || body.len() % count != 0 {
        return Err(format!("{} commitment bytes do not split into {} digests", body.len(), count));
    }
    let dl = body.len() / count;
    let dig = |i: usize| body[i * dl..(i + 1) * dl].to_vec();
    // out-of-domain frame
    let ob = proof.ood_frame.to_bytes();
    let (ts, ls, ev, _) = split_ood(&ob).ok_or("ood frame layout")?;
    if ts.is_empty() || ls.is_empty() {
        return Err("ood frame parts empty".into());
    }
    let mut states: Vec<E> = read_elems::<E>(&ts[1..]).ok_or("ood trace states")?;
    let lag: Vec<E> = read_elems::<E>(&ls[1..]).ok_or("ood lagrange states")?;
    if lag.len() != ls[0] as usize {
        return Err("lagrange frame count".into());
    }
    states.extend(lag);
    let evals: Vec<E> = read_elems::<E>(&ev).ok_or("ood evaluations")?;
    let mut msgs = vec![("main".to_string(), dig(0))];
    if nseg == 2 {
        msgs.push(("aux".to_string(), dig(1)));
    }
    msgs.push(("cons".to_string(), dig(nseg)));
    msgs.push(("oodt".to_string(), H::hash_elements(&states).to_bytes()));
    msgs.push(("oode".to_string(), H::hash_elements(&evals).to_bytes()));
    for i in 0..layers {
        msgs.push((format!("fri{}", i), dig(nseg + 1 + i)));
    }
    msgs.push(("rem".to_string(), dig(nseg + 1 + layers)));
    let remainder_hash = proof.fri_proof.parse_remainder::<E>().ok().map(|r| H::hash_elements(&r).to_bytes());
    Ok(Carried { msgs, remainder_hash, digest_len: dl })
}

/// label the absorptions of a log by value; returns (tokens, index in the log of each token, labels found)
fn canon_log(log: &[Rec], car: &Carried, seed_ctx: &[u128], seed_pub: &[u128]) -> (Vec<String>, Vec<usize>) {
    let mut used = vec![false; car.msgs.len()];
    let mut toks: Vec<String> = vec![];
    let mut idx: Vec<usize> = vec![];
    let mut i = 0;
    while i < log.len() {
        match &log[i] {
            Rec::New(s) => {
                let mut full = seed_ctx.to_vec();
                full.extend_from_slice(seed_pub);
                let t = if *s == full {
                    "new:ctx+pub"
                } else if s.as_slice() == seed_ctx {
                    "new:ctx"
                } else if s.as_slice() == seed_pub {
                    "new:pub"
                } else {
                    "new:?"
                };
                toks.push(t.into());
                idx.push(i);
                i += 1;
            },
            Rec::Reseed(b) => {
                let mut label = "?".to_string();
                for (k, (l, v)) in car.msgs.iter().enumerate() {
                    if !used[k] && v == b {
                        used[k] = true;
                        label = l.clone();
                        break;
                    }
                }
                toks.push(format!("r:{}", label));
                idx.push(i);
                i += 1;
            },
            Rec::Draw { deg, val } => {
                let mut j = i;
                let mut ok = val.is_some();
                while j < log.len() {
                    match &log[j] {
                        Rec::Draw { deg: d2, val: v2 } if d2 == deg => {
                            ok &= v2.is_some();
                            j += 1;
                        },
                        _ => break,
                    }
                }
                toks.push(if ok { format!("d{}x{}", deg, j - i) } else { format!("d{}x{}err", deg, j - i) });
                idx.push(i);
                i = j;
            },
            Rec::Pow { .. } => {
                toks.push("pow".into());
                idx.push(i);
                i += 1;
            },
            Rec::Ints { n, domain, vals, .. } => {
                toks.push("nonce".into());
                idx.push(i);
                toks.push(if vals.is_some() { format!("ints:{}:{}", n, domain) } else { format!("ints:{}:{}err", n, domain) });
                idx.push(i);
                i += 1;
            },
        }
    }
    (toks, idx)
}

/// compare the observed tokens with the protocol order; classify the first deviation
fn judge_order(o: &mut Outcome, side: char, obs: &[String], exp: &[String], op_text: &str) {
    // every carried message must be absorbed at all
    for e in exp.iter().filter(|e| e.starts_with("r:")) {
        if !obs.contains(e) {
            o.fails.push((format!("c04.unabsorbed.{}.{}", &e[2..], side), format!("{} never absorbs the {} carried in the proof; observed {}", side, &e[2..], obs.join(","))));
        }
    }
    if obs == exp {
        return;
    }
    let k = obs.iter().zip(exp.iter()).position(|(a, b)| a != b).unwrap_or(obs.len().min(exp.len()));
    let want = exp.get(k).cloned().unwrap_or_else(|| "end".into());
    let got = obs.get(k).cloned().unwrap_or_else(|| "end".into());
    let next_want = exp.get(k + 1).cloned().unwrap_or_default();
    if want.starts_with('d') && got.starts_with('d') && next_want.starts_with("r:") && obs.contains(&next_want) && !want.ends_with("err") && !got.ends_with("err") {
        // more draws than the protocol allows before the next message: a challenge was drawn before that message was absorbed
        o.fails.push((format!("c04.late-absorb.{}.{}", &next_want[2..], side), format!("position {}: {} draws where the protocol has {} before {}: a challenge is drawn before {} is absorbed; observed {}", k, got, want, next_want, next_want, obs.join(","))));
    } else if want.starts_with("r:") && obs.contains(&want) {
        o.fails.push((format!("c04.late-absorb.{}.{}", &want[2..], side), format!("position {}: protocol order requires {} but {} comes first; observed {}", k, want, got, obs.join(","))));
    } else if got == "r:?" {
        o.fails.push((format!("c04.foreign-absorb.{}", side), format!("position {}: an absorbed digest is not carried in the proof (expected {}); observed {}", k, want, obs.join(","))));
    } else if !(want.starts_with("r:") && !obs.contains(&want)) {
        o.fails.push((format!("c04.order.{}", side), format!("position {}: expected {} observed {}; observed {}", k, want, got, obs.join(","))));
    }
}

fn verr_kind(r: &Result<(), VerifierError>) -> String {
    match r {
        Ok(()) => "ok".into(),
        Err(e) => verifier_error_kind(e),
    }
}

/// index (in the log) of the first challenge record after position `from`
fn next_challenge(log: &[Rec], from: usize) -> Option<&Rec> {
    log.iter().skip(from + 1).find(|r| matches!(r, Rec::Draw { .. } | Rec::Pow { .. } | Rec::Ints { .. }))
}

fn run_g<B, E, H>(op: &RunOp) -> Outcome
where
    B: GField,
    E: FieldElement<BaseField = B>,
    H: ElementHasher<BaseField = B> + Send + Sync,
{
    let mut o = Outcome::default();
    let desc = op.desc.clone();
    let c = &op.cfg;
    let (nseg, layers) = (if c[0] == 1 { 2 } else { 1 }, c[9] as usize);
    // ---- valid trace, public inputs
    let trace = gen_trace(&desc, op.field, op.seed);
    let pubs = pub_inputs(&desc, op.field, &trace);
    let values: Vec<B> = pubs.iter().map(|v| B::from_word(*v % B::MOD)).collect();
    // ---- prove with the recording coin
    log_take();
    let prover = GenericProver::<B, H, RecCoin<H>>::new(desc.clone(), op.opts.to_options());
    let proof = match guarded(|| prover.prove(GenTrace::<B>::new(&desc, &trace))) {
        Err(info) => {
            o.out = "prove-panic".into();
            return o.fail("c04.harness.prove-panic", info);
        },
        Ok(Err(e)) => {
            o.out = format!("prove-err:{}", prover_error_kind(&e));
            return o.fail("c04.harness.prove-err", format!("{:?}", e));
        },
        Ok(Ok(p)) => p,
    };
    let plog = log_take();
    // ---- verify with the recording coin
    let acceptable = AcceptableOptions::OptionSet(vec![op.opts.to_options()]);
    let verify_acc = |p: Proof, vals: Vec<B>, acc: &AcceptableOptions| -> (Result<Result<(), VerifierError>, String>, Vec<Rec>) {
        log_take();
        let d2 = desc.clone();
        let r = guarded(move || winter_verifier::verify::<GenericAir<B>, H, RecCoin<H>>(p, GenPub { desc: d2, values: vals }, acc));
        (r, log_take())
    };
    let verify_rec = |p: Proof, vals: Vec<B>| verify_acc(p, vals, &acceptable);
    let (vres, vlog) = verify_rec(proof.clone(), values.clone());
    match &vres {
        Ok(Ok(())) => {},
        Ok(Err(e)) => o.fails.push(("c04.harness.honest-proof-rejected".into(), format!("{:?}", e))),
        Err(info) => o.fails.push(("c04.harness.verify-panic".into(), info.clone())),
    }
    // ---- what the proof carries
    let car = match carried::<E, H>(&proof, nseg, layers) {
        Ok(c) => c,
        Err(e) => {
            o.out = "proof-layout".into();
            return o.fail("c04.harness.proof-layout", e);
        },
    };
    let seed_ctx = context_elements(&desc, &op.opts, op.field);
    let seed_pub = pubs.clone();
    // (d) the context part of the seed is a function of proof.context
    let lib_ctx: Vec<u128> = ToElements::<B>::to_elements(&proof.context).iter().map(|e| e.canon()).collect();
    if lib_ctx != seed_ctx {
        o.fails.push(("c04.seed.context-elements".into(), format!("proof.context.to_elements() = {:?}, context by the documented layout = {:?}", lib_ctx, seed_ctx)));
    }
    let (ptok, pidx) = canon_log(&plog, &car, &seed_ctx, &seed_pub);
    let (vtok, vidx) = canon_log(&vlog, &car, &seed_ctx, &seed_pub);
    o.out = format!("P {} V {}", ptok.join(","), vtok.join(","));
    // (d) seed
    for (side, tok) in [('P', &ptok), ('V', &vtok)] {
        if tok.first().map(|s| s.as_str()) != Some("new:ctx+pub") {
            o.fails.push(("c04.seed".into(), format!("{}: coin created with {:?}; expected context {:?} ++ public inputs {:?}", side, tok.first(), seed_ctx, seed_pub)));
        }
    }
    // (b') protocol order, independent of the Lean model
    judge_order(&mut o, 'P', &ptok, &expected(c, 'P'), "");
    judge_order(&mut o, 'V', &vtok, &expected(c, 'V'), "");
    // remainder commitment = hash of the remainder carried in the FRI proof
    if let (Some(h), Some((_, r))) = (&car.remainder_hash, car.msgs.last()) {
        if h != r {
            o.fails.push(("c04.remainder-commitment".into(), "the last commitment of an honest proof is not the hash of the remainder polynomial it carries".into()));
        }
    }
    // (a) prover log vs verifier log, after deleting the verifier's draws between the last commitment and the PoW check
    let mut v2 = vlog.clone();
    let mut deleted = 0;
    if let Some(pw) = v2.iter().position(|r| matches!(r, Rec::Pow { .. })) {
        let mut k = pw;
        while k > 0 && matches!(v2[k - 1], Rec::Draw { .. }) {
            k -= 1;
        }
        deleted = pw - k;
        v2.drain(k..pw);
    }
    let same = |a: &Rec, b: &Rec| match (a, b) {
        (Rec::Pow { nonce: n1, zeros: z1, .. }, Rec::Pow { nonce: n2, zeros: z2, .. }) => n1 == n2 && z1 == z2,
        _ => a == b,
    };
    if plog.len() != v2.len() || !plog.iter().zip(v2.iter()).all(|(a, b)| same(a, b)) {
        let k = plog.iter().zip(v2.iter()).position(|(a, b)| !same(a, b)).unwrap_or(plog.len().min(v2.len()));
        o.fails.push((
            "c04.prover-verifier-mismatch".into(),
            format!("record {}: prover {:?} verifier {:?} (lengths {} / {}, {} unused verifier draws deleted)", k, plog.get(k), v2.get(k), plog.len(), v2.len(), deleted),
        ));
    }
    // proof of work and query positions against the proof
    let g = op.opts.grinding;
    for (side, log) in [('P', &plog), ('V', &vlog)] {
        let pow = log.iter().find_map(|r| if let Rec::Pow { calls, max_before, nonce, zeros } = r { Some((*calls, *max_before, *nonce, *zeros)) } else { None });
        let ints = log.iter().find_map(|r| if let Rec::Ints { n, domain, nonce, vals } = r { Some((*n, *domain, *nonce, vals.clone())) } else { None });
        match pow {
            None => o.fails.push(("c04.pow".into(), format!("{}: no proof-of-work check", side))),
            Some((calls, maxb, nonce, zeros)) => {
                if nonce != proof.pow_nonce || zeros < g || (side == 'V' && calls != 1) || (side == 'P' && calls > 1 && maxb >= g) {
                    o.fails.push(("c04.pow".into(), format!("{}: {} calls, last nonce {} ({} zeros, earlier max {}), proof nonce {}, grinding {}", side, calls, nonce, zeros, maxb, proof.pow_nonce, g)));
                }
            },
        }
        match ints {
            None => o.fails.push(("c04.queries".into(), format!("{}: no query positions drawn", side))),
            Some((n, dom, nonce, vals)) => {
                let mut v = vals.clone().unwrap_or_default();
                v.sort_unstable();
                v.dedup();
                if nonce != proof.pow_nonce || n != op.opts.queries || dom != c[11] as usize || vals.is_none() || v.len() != proof.num_unique_queries as usize {
                    o.fails.push(("c04.queries".into(), format!("{}: draw_integers({}, {}, {}) -> {:?}; proof: nonce {} unique {}", side, n, dom, nonce, vals, proof.pow_nonce, proof.num_unique_queries)));
                }
            },
        }
    }
    // ---- other entry points / histories: the proof read back from its bytes gives the same verifier transcript; a
    // second proof by the same prover object gives the same prover transcript (no state carried over)
    match guarded(|| Proof::from_bytes(&proof.to_bytes())) {
        Ok(Ok(p2)) => {
            let (r2, l2) = verify_rec(p2, values.clone());
            if l2 != vlog {
                let k = l2.iter().zip(vlog.iter()).position(|(a, b)| a != b).unwrap_or(l2.len().min(vlog.len()));
                o.fails.push(("c04.provenance.serialization".into(), format!("verifier transcript of Proof::from_bytes(to_bytes) differs at record {}: {:?} vs {:?}", k, vlog.get(k), l2.get(k))));
            }
        },
        _ => o.fails.push(("c04.harness.proof-roundtrip".into(), "Proof::from_bytes(to_bytes) failed".into())),
    }
    if op.seed % 4 == 0 {
        log_take();
        let again = guarded(|| prover.prove(GenTrace::<B>::new(&desc, &trace)));
        let l2 = log_take();
        if !(l2.len() == plog.len() && l2.iter().zip(plog.iter()).all(|(a, b)| same(a, b))) {
            o.fails.push(("c04.prover-state-carried-over".into(), "a second prove() on the same prover object and trace gives a different coin transcript".into()));
        }
    }
    // ---- tampering probes on the verifier (provenance: each absorbed value is a function of its proof field only)
    if vres.as_ref().map(|r| r.is_ok()).unwrap_or(false) && vtok == expected(c, 'V') {
        let pos_of = |label: &str| -> Option<usize> { vtok.iter().position(|t| t == &format!("r:{}", label)).map(|k| vidx[k]) };
        let mut probe = |o: &mut Outcome, name: &str, label: &str, tp: Proof, vals: Vec<B>, expect: Option<Vec<u8>>| {
            let at = match pos_of(label) {
                Some(a) => a,
                None => return,
            };
            let (r, tlog) = verify_rec(tp, vals);
            if tlog.len() <= at {
                // the verifier stopped before it reached the absorption (the tampered field no longer parses)
                return;
            }
            if tlog[..at] != vlog[..at] {
                let k = tlog.iter().zip(vlog.iter()).position(|(a, b)| a != b).unwrap_or(0);
                o.fails.push((format!("c04.provenance.{}", name), format!("only {} was changed but record {} of the verifier log changed: {:?} -> {:?}", name, k, vlog.get(k), tlog.get(k))));
                return;
            }
            match (&tlog[at], &expect) {
                (Rec::Reseed(b), Some(e)) if b == e && Rec::Reseed(b.clone()) != vlog[at] => {},
                (got, _) => {
                    o.fails.push((format!("c04.unbound.{}", name), format!("after changing {} the verifier absorbs {:?}; recomputed from the changed field: {:?}; honest: {:?}", name, got, expect.as_ref().map(|e| hex(e)), vlog[at])));
                    return;
                },
            }
            if let (Some(a), Some(b)) = (next_challenge(&tlog, at), next_challenge(&vlog, at)) {
                if a == b && !matches!(a, Rec::Draw { val: None, .. }) {
                    o.fails.push((format!("c04.insensitive.{}", name), format!("the challenge after the changed {} is unchanged: {:?}", name, a)));
                }
            }
        };
        // commitments: flip one bit in each digest (first byte and a middle byte), each digest individually
        let cb = proof.commitments.to_bytes();
        let dl = car.digest_len;
        let labels: Vec<String> = {
            let mut l = vec!["main".to_string()];
            if nseg == 2 {
                l.push("aux".into());
            }
            l.push("cons".into());
            for i in 0..layers {
                l.push(format!("fri{}", i));
            }
            l.push("rem".into());
            l
        };
        for (k, label) in labels.iter().enumerate() {
            for off in [0, dl / 2] {
                let mut b = cb.clone();
                b[2 + k * dl + off] ^= 1;
                if let Ok(cm) = Commitments::read_from_bytes(&b) {
                    let mut tp = proof.clone();
                    tp.commitments = cm;
                    let e = b[2 + k * dl..2 + (k + 1) * dl].to_vec();
                    probe(&mut o, &format!("commitment.{}", label), label, tp, values.clone(), Some(e));
                }
            }
        }
        // out-of-domain frame, every sub-block: main current / next row, auxiliary columns, every row of the Lagrange
        // kernel frame, first and last constraint evaluation: change one element
        let ob = proof.ood_frame.to_bytes();
        if let Some((ts, ls, ev, offs)) = split_ood(&ob) {
            let eb = E::ELEMENT_BYTES;
            let n_states = (ts.len() - 1) / eb;
            let n_lag = (ls.len() - 1) / eb;
            let n_ev = ev.len() / eb;
            let main_w = op.desc.width;
            let mut targets: Vec<(String, &str, usize)> = vec![];
            let mut state_idx = vec![0usize, 1, 2 * main_w - 2, 2 * main_w - 1];
            if n_states > 2 * main_w {
                state_idx.extend([2 * main_w, 2 * main_w + 1, n_states - 2, n_states - 1]);
            }
            state_idx.sort_unstable();
            state_idx.dedup();
            for i in state_idx.into_iter().filter(|i| *i < n_states) {
                let block = if i < 2 * main_w { "main" } else { "aux" };
                targets.push((format!("ood-trace-states.{}.{}", block, if i % 2 == 0 { "current" } else { "next" }), "oodt", offs[0] + 1 + i * eb));
            }
            for i in 0..n_lag {
                targets.push(("ood-lagrange-frame".to_string(), "oodt", offs[1] + 1 + i * eb));
            }
            let mut ev_idx = vec![0usize, n_ev.saturating_sub(1)];
            ev_idx.dedup();
            for i in ev_idx.into_iter().filter(|i| *i < n_ev) {
                targets.push(("ood-evaluations".to_string(), "oode", offs[2] + i * eb));
            }
            for (name, label, off) in targets {
                let mut b = ob.clone();
                b[off] ^= 1;
                if let (Ok(fr), Some((ts2, ls2, ev2, _))) = (OodFrame::read_from_bytes(&b), split_ood(&b)) {
                    let e = if label == "oodt" {
                        match (read_elems::<E>(&ts2[1..]), read_elems::<E>(&ls2[1..])) {
                            (Some(mut a), Some(l)) => {
                                a.extend(l);
                                Some(H::hash_elements(&a).to_bytes())
                            },
                            _ => None,
                        }
                    } else {
                        read_elems::<E>(&ev2).map(|a| H::hash_elements(&a).to_bytes())
                    };
                    if e.is_some() {
                        let mut tp = proof.clone();
                        tp.ood_frame = fr;
                        probe(&mut o, &name, label, tp, values.clone(), e);
                    }
                }
            }
        }
        // FRI remainder polynomial: used by the verifier's last check, not absorbed itself: its commitment is.
        // A changed remainder must either change the transcript before the query positions or be refused by a
        // binding check (commitment mismatch); otherwise the positions do not depend on the remainder used.
        // Variants: first coefficient changed, last coefficient changed, a zero coefficient appended (the same
        // polynomial in another encoding; the length prefix is rewritten so that the proof still parses).
        {
            let fb = proof.fri_proof.to_bytes();
            let rl = proof.fri_proof.num_remainder_elements::<E>() * E::ELEMENT_BYTES;
            if rl > 0 && fb.len() > rl + 3 {
                let start = fb.len() - 1 - rl;
                let mut variants: Vec<(&str, Vec<u8>)> = vec![];
                let mut b = fb.clone();
                b[start] ^= 1;
                variants.push(("first coefficient changed", b));
                let mut b = fb.clone();
                b[start + rl - E::ELEMENT_BYTES] ^= 1;
                variants.push(("last coefficient changed", b));
                if rl + E::ELEMENT_BYTES <= u16::MAX as usize {
                    let mut b = fb[..start - 2].to_vec();
                    b.extend_from_slice(&((rl + E::ELEMENT_BYTES) as u16).to_le_bytes());
                    b.extend_from_slice(&fb[start..start + rl]);
                    b.extend(std::iter::repeat(0u8).take(E::ELEMENT_BYTES));
                    b.push(fb[fb.len() - 1]);
                    variants.push(("zero coefficient appended", b));
                }
                for (what, b) in variants {
                    if let Ok(fp) = FriProof::read_from_bytes(&b) {
                        if fp.parse_remainder::<E>().is_ok() {
                            let mut tp = proof.clone();
                            tp.fri_proof = fp;
                            let (r, tlog) = verify_rec(tp, values.clone());
                            let kind = match &r {
                                Ok(res) => verr_kind(res),
                                Err(_) => "panic".into(),
                            };
                            let upto = |l: &[Rec]| l.iter().position(|r| matches!(r, Rec::Ints { .. })).map(|k| l[..=k].to_vec());
                            let unchanged = upto(&tlog).is_some() && upto(&tlog) == upto(&vlog);
                            if unchanged && kind != "FriVerificationFailed.RemainderCommitmentMismatch" {
                                o.fails.push((
                                    "c04.unbound.remainder".into(),
                                    format!("the FRI remainder polynomial of the proof was changed ({}): the verifier absorbs the same values and draws the same query positions {:?}, and no binding check refuses it (verdict {}): the positions do not depend on the remainder the verifier evaluates", what, tlog.iter().find_map(|r| if let Rec::Ints { vals, .. } = r { vals.clone() } else { None }), kind),
                                ));
                            } else if !vlog.starts_with(&tlog) && !unchanged {
                                o.fails.push(("c04.provenance.remainder".into(), format!("only the remainder polynomial was changed ({}) but the verifier's transcript changed", what)));
                            }
                        }
                    }
                }
            }
        }
        // proof-of-work nonce: low bit flipped; nonce + 2^32; nonce + the 64-bit field modulus (the algebraic hashers
        // split an integer that does not fit into one element)
        for (what, n2) in [("bit 0", proof.pow_nonce ^ 1), ("+2^32", proof.pow_nonce.wrapping_add(1 << 32)), ("+M64", proof.pow_nonce.wrapping_add(0xFFFF_FFFF_0000_0001)), ("+M62", proof.pow_nonce.wrapping_add(4611624995532046337))] {
            let mut tp = proof.clone();
            tp.pow_nonce = n2;
            let (r, tlog) = verify_rec(tp, values.clone());
            if let Some(pw) = vlog.iter().position(|r| matches!(r, Rec::Pow { .. })) {
                if tlog.len() > pw {
                    let ok_prefix = tlog[..pw] == vlog[..pw];
                    let ok_pow = matches!(&tlog[pw], Rec::Pow { nonce, calls: 1, .. } if *nonce == n2);
                    let ok_ints = match tlog.get(pw + 1) {
                        None => true,
                        Some(Rec::Ints { nonce, vals, .. }) => *nonce == n2 && Some(&tlog[pw + 1]) != vlog.get(pw + 1),
                        _ => false,
                    };
                    if !ok_prefix {
                        o.fails.push(("c04.provenance.pow-nonce".into(), "changing the nonce changed an earlier record".into()));
                    } else if !ok_pow || !ok_ints {
                        o.fails.push(("c04.unbound.pow-nonce".into(), format!("changed nonce ({}) {}: verifier records {:?} {:?}; honest {:?}", what, n2, tlog.get(pw), tlog.get(pw + 1), vlog.get(pw + 1))));
                    }
                } else {
                    o.fails.push(("c04.provenance.pow-nonce".into(), "changing the nonce made the verifier stop before the proof-of-work check".into()));
                }
            }
        }
        // public inputs: first and last value
        if !values.is_empty() {
            let mut idxs = vec![0, values.len() - 1];
            idxs.dedup();
            for i in idxs {
                let mut v2 = values.clone();
                v2[i] += B::ONE;
                let (r, tlog) = verify_rec(proof.clone(), v2.clone());
                let mut want = seed_ctx.clone();
                want.extend(v2.iter().map(|e| e.canon()));
                if tlog.first() != Some(&Rec::New(want.clone())) {
                    o.fails.push(("c04.unbound.public-inputs".into(), format!("changed public input {}: coin created with {:?}, expected {:?}", i, tlog.first(), want)));
                } else if let (Some(a), Some(b)) = (next_challenge(&tlog, 0), next_challenge(&vlog, 0)) {
                    if a == b {
                        o.fails.push(("c04.insensitive.public-inputs".into(), "first challenge unchanged after changing a public input".into()));
                    }
                }
            }
        }
        // proof context: number of queries / grinding factor changed in the serialized context (the option bytes are
        // its last six: q b g x f r); the verifier is told to accept both option sets. The seed must be the
        // context elements of the CHANGED context followed by the public inputs.
        {
            let xb = proof.context.to_bytes();
            let n = xb.len();
            let lde = c[11] as usize;
            let mut variants: Vec<(&str, OptSpec)> = vec![];
            let mut o2 = op.opts;
            o2.queries = if op.opts.queries > 1 { op.opts.queries - 1 } else { 2 };
            if o2.queries < lde {
                variants.push(("queries", o2));
            }
            let mut o3 = op.opts;
            o3.grinding = if op.opts.grinding < 32 { op.opts.grinding + 1 } else { 31 };
            variants.push(("grinding", o3));
            for (what, ot) in variants {
                let mut b = xb.clone();
                b[n - 6] = ot.queries as u8;
                b[n - 4] = ot.grinding as u8;
                if let Ok(cx) = winter_air::proof::Context::read_from_bytes(&b) {
                    let mut tp = proof.clone();
                    tp.context = cx;
                    let acc2 = AcceptableOptions::OptionSet(vec![op.opts.to_options(), ot.to_options()]);
                    let (r, tlog) = verify_acc(tp, values.clone(), &acc2);
                    let mut want = context_elements(&desc, &ot, op.field);
                    want.extend_from_slice(&seed_pub);
                    if tlog.first() != Some(&Rec::New(want.clone())) || Some(&Rec::New(want.clone())) == vlog.first() {
                        o.fails.push((format!("c04.unbound.context.{}", what), format!("context with changed {}: coin created with {:?}, expected {:?}", what, tlog.first(), want)));
                    } else if let (Some(a), Some(b)) = (next_challenge(&tlog, 0), next_challenge(&vlog, 0)) {
                        if a == b {
                            o.fails.push((format!("c04.insensitive.context.{}", what), "first challenge unchanged after changing the context".into()));
                        }
                    }
                }
            }
        }
        // GKR proof (handed to the AIR's own verifier together with the coin; the library does not absorb it): a
        // changed or missing GKR proof must not change anything up to the main trace commitment, and must either be
        // refused or change the transcript after it
        if let (Some(g), Some(at)) = (proof.gkr_proof.clone(), pos_of("main")) {
            let mut variants: Vec<(&str, Option<Vec<u8>>)> = vec![("removed", None)];
            if !g.is_empty() {
                let mut g2 = g.clone();
                g2[0] ^= 1;
                variants.push(("first byte changed", Some(g2)));
                let mut g3 = g.clone();
                let k = g3.len() - 1;
                g3[k] ^= 0x80;
                variants.push(("last byte changed", Some(g3)));
            }
            for (what, gv) in variants {
                let mut tp = proof.clone();
                tp.gkr_proof = gv;
                let (r, tlog) = verify_rec(tp, values.clone());
                let accepted = matches!(r, Ok(Ok(())));
                if tlog.len() <= at || tlog[..=at] != vlog[..=at] {
                    o.fails.push(("c04.provenance.gkr-proof".into(), format!("GKR proof {}: the verifier's transcript changed at or before the main trace commitment", what)));
                } else if accepted && tlog == vlog {
                    o.fails.push(("c04.unbound.gkr-proof".into(), format!("GKR proof {}: accepted with an unchanged transcript", what)));
                }
            }
        }
        // fields that come after the last challenge (or are not messages at all): nothing the verifier absorbs or
        // draws may depend on them: the transcript must be the honest one, possibly cut short by a rejection
        {
            let mut later: Vec<(String, Proof)> = vec![];
            let mut tp = proof.clone();
            tp.num_unique_queries = tp.num_unique_queries.wrapping_add(1);
            later.push(("num-unique-queries".into(), tp));
            for (si, q) in proof.trace_queries.iter().enumerate() {
                let mut b = q.to_bytes();
                if b.len() > 5 {
                    b[4] ^= 1;
                    if let Ok(q2) = winter_air::proof::Queries::read_from_bytes(&b) {
                        let mut tp = proof.clone();
                        tp.trace_queries[si] = q2;
                        later.push((format!("trace-queries.{}", si), tp));
                    }
                }
            }
            {
                let mut b = proof.constraint_queries.to_bytes();
                if b.len() > 5 {
                    b[4] ^= 1;
                    if let Ok(q2) = winter_air::proof::Queries::read_from_bytes(&b) {
                        let mut tp = proof.clone();
                        tp.constraint_queries = q2;
                        later.push(("constraint-queries".into(), tp));
                    }
                }
            }
            {
                let fb = proof.fri_proof.to_bytes();
                if layers > 0 && fb.len() > 6 {
                    let mut b = fb.clone();
                    b[5] ^= 1;
                    if let Ok(fp) = FriProof::read_from_bytes(&b) {
                        let mut tp = proof.clone();
                        tp.fri_proof = fp;
                        later.push(("fri-layer-values".into(), tp));
                    }
                }
                let mut b = fb.clone();
                let k = b.len() - 1;
                b[k] ^= 1;
                if let Ok(fp) = FriProof::read_from_bytes(&b) {
                    let mut tp = proof.clone();
                    tp.fri_proof = fp;
                    later.push(("fri-num-partitions".into(), tp));
                }
            }
            for (name, tp) in later {
                let (r, tlog) = verify_rec(tp, values.clone());
                if !vlog.starts_with(&tlog) {
                    let k = tlog.iter().zip(vlog.iter()).position(|(a, b)| a != b).unwrap_or(vlog.len());
                    o.fails.push((format!("c04.provenance.{}", name), format!("only {} was changed (no message of the transcript) but record {} of the verifier log changed: {:?} -> {:?}", name, k, vlog.get(k), tlog.get(k))));
                }
            }
        }
    }
    o
}

macro_rules! by_ext {
    ($ext:expr, $b:ty, $h:ty, $f:ident, ($($args:expr),*)) => {
        match $ext {
            1 => $f::<$b, $b, $h>($($args),*),
            2 => $f::<$b, QuadExtension<$b>, $h>($($args),*),
            _ => $f::<$b, CubeExtension<$b>, $h>($($args),*),
        }
    };
}

fn run_dispatch(op: &RunOp) -> Outcome {
    let x = op.opts.ext;
    match (op.field, op.hash) {
        (FieldId::F62, HashId::Blake3_256) => by_ext!(x, f62::BaseElement, Blake3_256<f62::BaseElement>, run_g, (op)),
        (FieldId::F62, HashId::Blake3_192) => by_ext!(x, f62::BaseElement, Blake3_192<f62::BaseElement>, run_g, (op)),
        (FieldId::F62, HashId::Sha3_256) => by_ext!(x, f62::BaseElement, Sha3_256<f62::BaseElement>, run_g, (op)),
        (FieldId::F62, HashId::Rp62_248) => by_ext!(x, f62::BaseElement, Rp62_248, run_g, (op)),
        (FieldId::F64, HashId::Blake3_256) => by_ext!(x, f64::BaseElement, Blake3_256<f64::BaseElement>, run_g, (op)),
        (FieldId::F64, HashId::Blake3_192) => by_ext!(x, f64::BaseElement, Blake3_192<f64::BaseElement>, run_g, (op)),
        (FieldId::F64, HashId::Sha3_256) => by_ext!(x, f64::BaseElement, Sha3_256<f64::BaseElement>, run_g, (op)),
        (FieldId::F64, HashId::Rp64_256) => by_ext!(x, f64::BaseElement, Rp64_256, run_g, (op)),
        (FieldId::F64, HashId::RpJive64_256) => by_ext!(x, f64::BaseElement, RpJive64_256, run_g, (op)),
        (FieldId::F128, HashId::Blake3_256) => by_ext!(x, f128::BaseElement, Blake3_256<f128::BaseElement>, run_g, (op)),
        (FieldId::F128, HashId::Blake3_192) => by_ext!(x, f128::BaseElement, Blake3_192<f128::BaseElement>, run_g, (op)),
        (FieldId::F128, HashId::Sha3_256) => by_ext!(x, f128::BaseElement, Sha3_256<f128::BaseElement>, run_g, (op)),
        _ => Outcome::ok("rejected"),
    }
}

fn exec_run(t: &[&str]) -> Outcome {
    let op = match parse_run(t) {
        Ok(op) => op,
        Err(e) => return Outcome::ok(format!("bad-op:{}", e.split(' ').next().unwrap_or(""))),
    };
    if op.desc.validate().is_err() {
        return Outcome::ok("bad-op:desc");
    }
    if !admissible(&op) {
        // outside the quantifier's domain (no proof exists / refused by the constructors): not run
        return Outcome::ok("bad-op:inadmissible");
    }
    if cfg_of(&op.desc, &op.opts) != op.cfg {
        return Outcome::ok("bad-op:cfg-mismatch").fail("c04.harness.cfg", format!("the configuration numbers of the line are not those of its description: {:?}", cfg_of(&op.desc, &op.opts)));
    }
    run_dispatch(&op)
}


// ==================================================================================== ctx op
#[derive(Clone, Debug, PartialEq, Eq)]
struct CtxSpec {
    mw: usize,
    aw: usize,
    ar: usize,
    log_len: u32,
    meta: Vec<u8>,
    opts: OptSpec,
}

fn parse_ctx(s: &str) -> Option<CtxSpec> {
    let p: Vec<&str> = s.split('.').collect();
    if p.len() != 11 {
        return None;
    }
    let num = |i: usize| p[i].parse::<u64>().ok().filter(|v| *v <= 1 << 20);
    let meta = if p[4] == "-" {
        vec![]
    } else {
        if p[4].len() % 2 != 0 || !p[4].bytes().all(|c| c.is_ascii_hexdigit()) {
            return None;
        }
        unhex(p[4])
    };
    let c = CtxSpec {
        mw: num(0)? as usize,
        aw: num(1)? as usize,
        ar: num(2)? as usize,
        log_len: num(3)? as u32,
        meta,
        opts: OptSpec::new(num(5)? as usize, num(6)? as usize, num(7)? as u32, num(8)? as u8, num(9)? as usize, num(10)? as usize),
    };
    // only what the documented constructor rules accept
    let ok = c.mw >= 1
        && c.mw + c.aw <= 255
        && c.ar <= 255
        && (c.aw != 0 || c.ar == 0)
        && (3..=31).contains(&c.log_len)
        && c.meta.len() <= 200
        && c.opts.accepted()
        && ((1u64 << c.log_len) * c.opts.blowup as u64) < (1u64 << 32);
    if ok {
        Some(c)
    } else {
        None
    }
}

fn ctx_text(c: &CtxSpec) -> String {
    let o = &c.opts;
    format!("{}.{}.{}.{}.{}.{}.{}.{}.{}.{}.{}", c.mw, c.aw, c.ar, c.log_len, hex(&c.meta), o.queries, o.blowup, o.grinding, o.ext, o.folding, o.remainder)
}

fn ctx_elems<B: GField>(c: &CtxSpec) -> Vec<u128> {
    let ti = winter_air::TraceInfo::new_multi_segment(c.mw, c.aw, c.ar, 1usize << c.log_len, c.meta.clone());
    let ctx = winter_air::proof::Context::new::<B>(ti, c.opts.to_options());
    ToElements::<B>::to_elements(&ctx).iter().map(|e| e.canon()).collect()
}

fn exec_ctx(t: &[&str]) -> Outcome {
    if t.len() != 3 {
        return Outcome::ok("bad-op");
    }
    let (field, a, b) = match (FieldId::parse(t[0]), parse_ctx(t[1]), parse_ctx(t[2])) {
        (Some(f), Some(a), Some(b)) => (f, a, b),
        _ => return Outcome::ok("bad-op"),
    };
    let (ea, eb) = match field {
        FieldId::F62 => (ctx_elems::<f62::BaseElement>(&a), ctx_elems::<f62::BaseElement>(&b)),
        FieldId::F64 => (ctx_elems::<f64::BaseElement>(&a), ctx_elems::<f64::BaseElement>(&b)),
        FieldId::F128 => (ctx_elems::<f128::BaseElement>(&a), ctx_elems::<f128::BaseElement>(&b)),
    };
    let show = |v: &[u128]| v.iter().map(|x| x.to_string()).collect::<Vec<_>>().join(",");
    let mut o = Outcome::ok(format!("{} {}", show(&ea), show(&eb)));
    if a != b && ea == eb {
        let only_meta = (CtxSpec { meta: vec![], ..a.clone() }) == (CtxSpec { meta: vec![], ..b.clone() });
        let what = if a.meta != b.meta && only_meta {
            "trace-meta"
        } else if a.opts != b.opts {
            "options"
        } else {
            "trace-info"
        };
        o = o.fail(
            format!("c04.seed.context-collision.{}", what),
            format!("the contexts {} and {} differ but Context::to_elements() gives the same seed elements {:?}: the coin does not absorb the difference", ctx_text(&a), ctx_text(&b), ea),
        );
    }
    o
}

fn random_ctx(rng: &mut Rng) -> CtxSpec {
    let aw = if rng.chance(1, 2) { 0 } else { rng.range(1, 40) as usize };
    let mw = rng.range(1, (255 - aw) as u64) as usize;
    let ar = if aw == 0 { 0 } else { rng.range(0, 255) as usize };
    let log_len = rng.range(3, 24) as u32;
    let meta_len = *rng.pick(&[0usize, 0, 0, 1, 2, 6, 7, 8, 14, 15, 16, 17, 30]);
    let meta = rng.bytes(meta_len);
    let b = *rng.pick(&[2usize, 4, 8, 16, 32, 64, 128]);
    let opts = OptSpec::new(rng.range(1, 255) as usize, b, rng.range(0, 32) as u32, rng.range(1, 3) as u8, *rng.pick(&[2usize, 4, 8, 16]), (1usize << rng.below(9)) - 1);
    CtxSpec { mw, aw, ar, log_len, meta, opts }
}

/// pairs of contexts differing in exactly one place
fn gen_ctx_ops(rng: &mut Rng, n: usize, emit: &mut dyn FnMut(String)) {
    for i in 0..n {
        let field = *rng.pick(&FieldId::ALL);
        let a = random_ctx(rng);
        let mut b = a.clone();
        match i % 12 {
            0 => b.mw = if a.mw + a.aw < 255 { a.mw + 1 } else { a.mw - 1 }.max(1),
            1 => {
                // auxiliary segment appears / changes
                if a.aw == 0 {
                    b.aw = 1;
                    b.mw = a.mw.min(254);
                } else {
                    b.aw = if a.mw + a.aw < 255 { a.aw + 1 } else { a.aw - 1 };
                    if b.aw == 0 {
                        b.ar = 0;
                    }
                }
            },
            2 => {
                if a.aw > 0 {
                    b.ar = (a.ar + 1) % 256;
                } else {
                    b.log_len = if a.log_len < 24 { a.log_len + 1 } else { a.log_len - 1 };
                }
            },
            3 => b.log_len = if a.log_len < 24 { a.log_len + 1 } else { a.log_len - 1 },
            4 => b.opts.queries = a.opts.queries % 255 + 1,
            5 => b.opts.blowup = if a.opts.blowup == 128 { 64 } else { a.opts.blowup * 2 },
            6 => b.opts.grinding = (a.opts.grinding + 1) % 33,
            7 => b.opts.ext = a.opts.ext % 3 + 1,
            8 => b.opts.folding = if a.opts.folding == 16 { 2 } else { a.opts.folding * 2 },
            9 => b.opts.remainder = if a.opts.remainder == 255 { 0 } else { a.opts.remainder * 2 + 1 },
            10 => {
                // metadata: a byte changed, or a non-zero byte appended
                if a.meta.is_empty() {
                    b.meta = vec![rng.range(1, 255) as u8];
                } else if rng.chance(1, 2) {
                    let k = rng.below(a.meta.len() as u64) as usize;
                    b.meta[k] ^= 1 << rng.below(8);
                } else {
                    b.meta.push(rng.range(1, 255) as u8);
                }
            },
            _ => {
                // metadata: zero bytes appended (the padding class), also across a chunk boundary
                let k = rng.range(1, 9) as usize;
                b.meta.extend(std::iter::repeat(0u8).take(k));
            },
        }
        if parse_ctx(&ctx_text(&b)).is_some() {
            emit(format!("ctx {} {} {}", field.name(), ctx_text(&a), ctx_text(&b)));
        }
    }
    // the limits of every packed field, against its neighbour
    for field in FieldId::ALL {
        let base = CtxSpec { mw: 1, aw: 0, ar: 0, log_len: 3, meta: vec![], opts: OptSpec::new(1, 2, 0, 1, 2, 0) };
        let mut specs: Vec<CtxSpec> = vec![base.clone()];
        for (mw, aw, ar) in [(255usize, 0usize, 0usize), (254, 0, 0), (1, 254, 255), (1, 254, 0), (128, 127, 1), (127, 128, 255), (2, 1, 1), (1, 1, 2), (1, 2, 1)] {
            specs.push(CtxSpec { mw, aw, ar, ..base.clone() });
        }
        for (log_len, b) in [(30u32, 2usize), (29, 4), (24, 128), (24, 64), (31, 1), (8, 2), (16, 2)] {
            let mut c = base.clone();
            c.log_len = log_len;
            c.opts.blowup = b;
            specs.push(c);
        }
        for (q, g, x, f, r) in [(255usize, 32u32, 3u8, 16usize, 255usize), (254, 31, 2, 8, 127), (1, 1, 1, 4, 1), (2, 0, 2, 2, 0), (1, 2, 1, 2, 0), (1, 0, 2, 1, 0), (16, 0, 1, 2, 1), (1, 0, 1, 2, 16)] {
            let mut c = base.clone();
            c.opts = OptSpec::new(q, 2, g, x, f, r);
            specs.push(c);
        }
        let specs: Vec<CtxSpec> = specs.into_iter().filter(|c| parse_ctx(&ctx_text(c)).is_some()).collect();
        for i in 0..specs.len() {
            for j in [(i + 1) % specs.len(), (i + 7) % specs.len()] {
                if specs[i] != specs[j] {
                    emit(format!("ctx {} {} {}", field.name(), ctx_text(&specs[i]), ctx_text(&specs[j])));
                }
            }
        }
    }
    emit("ctx f64 1.0.0.3.-.1.2.0.1.2.0".into());
    emit("ctx f64 0.0.0.3.-.1.2.0.1.2.0 1.0.0.3.-.1.2.0.1.2.0".into());
}


/// hand-built descriptions with a prescribed shape: auxiliary segment yes/no, Lagrange kernel yes/no, auxiliary
/// random elements 0 / > 0, number of public inputs 1 / 2 / many
fn shape_desc(n: usize, aux: bool, lagrange: bool, rands: bool, pubs: usize) -> AirDesc {
    let main_assert = match pubs {
        1 => "s0.0".to_string(),
        2 => format!("s0.0,s0.{}", n - 1),
        _ => "q0.0.2".to_string(), // a sequence assertion on every second step: n / 2 public inputs
    };
    let mut t = format!("w=1;l={};e=1;j=0;p=;g=S?:+*c0c0k5;t=2:-n0+*c0c0k5;a={}", n, main_assert);
    if aux {
        let x = match (lagrange, rands) {
            (false, true) => "x=1.2.0;h=Ak1:*a0+c0r1;u=2:-b0*a0+c0r1;b=s0.0=k1",
            (false, false) => "x=1.0.0;h=F:+c0k1;u=1:-a0+c0k1;b=s0.0=+v0k1",
            (true, true) => "x=2.3.1;h=F:+*r1c0r2;u=1:-a0+*r1c0r2;b=s0.0=+*r1v0r2",
            (true, false) => "x=2.0.1;h=F:+c0k1;u=1:-a0+c0k1;b=s0.0=+v0k1",
        };
        t.push(';');
        t.push_str(x);
    }
    AirDesc::parse(&t).unwrap_or_else(|e| { eprintln!("shape_desc template does not parse: {} ({})", t, e); panic!("template") })
}

/// a wide description: `width` main columns, the first one constrained, the others free
fn wide_desc(n: usize, width: usize, aux_width: usize) -> AirDesc {
    let mut g = vec!["S?:+*c0c0k5".to_string()];
    for _ in 1..width {
        g.push("R".into());
    }
    let mut t = format!("w={};l={};e=1;j=0;p=;g={};t=2:-n0+*c0c0k5;a=s0.0,s{}.{}", width, n, g.join(","), width - 1, n - 1);
    if aux_width > 0 {
        let mut h = vec!["Ak1:*a0+c0r0".to_string()];
        for j in 1..aux_width {
            h.push(format!("F:+*r0c{}r1", j % width));
        }
        t.push_str(&format!(";x={}.2.0;h={};u=2:-b0*a0+c0r0;b=s0.0=k1", aux_width, h.join(",")));
    }
    AirDesc::parse(&t).unwrap_or_else(|e| { eprintln!("wide_desc template does not parse: {} ({})", t, e); panic!("template") })
}

/// options giving exactly `layers` FRI layers for a trace of `n` rows with folding factor 2 (layers <= log2 n)
fn opts_with_layers(n: usize, blowup: usize, layers: usize, q: usize, g: u32, x: u8) -> OptSpec {
    // layers = 0: remainder degree n - 1 (lde == (r + 1) * blowup exactly); k layers: r + 1 = n / 2^k
    let r = (n >> layers).max(1) - 1;
    OptSpec::new(q, blowup, g, x, 2, r)
}

/// THE PRODUCT required in every run: (aux, Lagrange, aux rands) shape x FRI layers {0, 1, max} x grinding {0, > 0}
/// x extension degree, over rotating fields / hashers / numbers of public inputs
fn product_ops(rng: &mut Rng, emit: &mut dyn FnMut(String)) {
    let shapes = [(false, false, false), (true, false, false), (true, false, true), (true, true, false), (true, true, true)];
    let mut k = 0usize;
    for (aux, lag, rands) in shapes {
        for layer_class in 0..3 {
            for g in [0u32, 3] {
                for x in 1..=3u8 {
                    let fields: Vec<FieldId> = FieldId::ALL.into_iter().filter(|f| f.supports_ext(x)).collect();
                    let field = fields[k % fields.len()];
                    let hashes = HashId::for_field(field);
                    let hash = hashes[(k / 3) % hashes.len()];
                    let n = [8usize, 16, 32][k % 3];
                    let layers = match layer_class {
                        0 => 0,
                        1 => 1,
                        _ => n.trailing_zeros() as usize,
                    };
                    let d = shape_desc(n, aux, lag, rands, [1, 2, 3][(k / 2) % 3]);
                    let b = [2usize, 4, 8][(k / 5) % 3].max(d.min_blowup());
                    let o = opts_with_layers(n, b, layers, 1 + k % 7, g, x);
                    emit(run_line(field, hash, &o, rng.u64() % 1_000_000, &d));
                    k += 1;
                }
            }
        }
    }
}

/// boundary values of the comparisons the anchored code makes
fn boundary_ops(rng: &mut Rng, tier: Tier, emit: &mut dyn FnMut(String)) {
    let f64b = (FieldId::F64, HashId::Blake3_256);
    // number of queries against the LDE size (draw_integers: num_values < domain_size) and the u8 limit
    for (n, b, q) in [(8usize, 2usize, 15usize), (8, 2, 14), (8, 2, 1), (8, 32, 255), (16, 32, 255), (64, 4, 255), (64, 4, 254)] {
        let d = shape_desc(n, q % 2 == 0, false, true, 1);
        emit(run_line(f64b.0, f64b.1, &OptSpec::new(q, b, 0, 1, 4, 7), rng.u64() % 1_000_000, &d));
    }
    // FRI schedule on and around domain == (remainder + 1) * blowup, for every folding factor
    for f in [2usize, 4, 8, 16] {
        for (n, r) in [(16usize, 15usize), (16, 7), (16, 31), (32, 15), (64, 3), (64, 0), (256, 0), (256, 255), (256, 127)] {
            let b = 4;
            if !fri_well_formed(n * b, b, f, r) {
                continue;
            }
            let field = *rng.pick(&FieldId::ALL);
            let hash = *rng.pick(&HashId::for_field(field));
            let d = shape_desc(n, rng.chance(1, 2), rng.chance(1, 2), rng.chance(1, 2), 1 + rng.below(3) as usize);
            let x = if field == FieldId::F128 { 1 + rng.below(2) as u8 } else { 1 + rng.below(3) as u8 };
            emit(run_line(field, hash, &OptSpec::new(3, b, rng.below(3) as u32, x, f, r), rng.u64() % 1_000_000, &d));
        }
    }
    // grinding 0, 1, ... 16 with every hasher family (the nonce goes through merge_with_int of the real hashers)
    for g in 0..=16u32 {
        for (field, hash) in [(FieldId::F64, HashId::Rp64_256), (FieldId::F64, HashId::RpJive64_256), (FieldId::F62, HashId::Rp62_248), (FieldId::F128, HashId::Sha3_256), (FieldId::F62, HashId::Blake3_192)] {
            if g > 12 && hash != HashId::Blake3_192 && tier == Tier::Quick && g % 2 == 1 {
                continue;
            }
            let d = shape_desc(8, g % 2 == 1, g % 4 == 3, g % 3 != 0, 1);
            emit(run_line(field, hash, &OptSpec::new(2, 4, g, 1 + (g % 2) as u8, 2, 3), rng.u64() % 1_000_000, &d));
        }
    }
    // widths: 1, 2, 254 + 1 auxiliary, 255 columns; auxiliary wider than main and main wider than auxiliary
    for (w, aw) in [(1usize, 0usize), (2, 0), (255, 0), (254, 1), (1, 254), (3, 7), (7, 3), (100, 100)] {
        let d = wide_desc(8, w, aw);
        let field = *rng.pick(&[FieldId::F64, FieldId::F128]);
        emit(run_line(field, HashId::Blake3_256, &OptSpec::new(2, 2, 0, 1 + (w % 2) as u8, 2, 1), rng.u64() % 1_000_000, &d));
    }
    // public inputs: 1, 2, n / 2 values; 256 and 512 values (beyond 2^8 seed elements)
    for (n, pubs) in [(8usize, 1usize), (8, 2), (8, 3), (512, 3), (1024, 3)] {
        let d = shape_desc(n, n == 8, false, true, pubs);
        emit(run_line(FieldId::F64, HashId::Rp64_256, &OptSpec::new(4, 2, 0, 2, 4, 31), rng.u64() % 1_000_000, &d));
    }
    // degenerate data: the all-zero trace (public inputs 0), constant columns
    for t in [
        "w=1;l=8;e=1;j=0;p=;g=S0:*c0c0;t=2:-n0*c0c0;a=s0.0",
        "w=2;l=8;e=1;j=0;p=;g=K0,K1;t=1:-n0c0,1:-n1c1;a=s0.0,s1.7",
        "w=2;l=16;e=1;j=0;p=;g=S0:c1,S0:+c0c1;t=1:-n0c1,1:-n1+c0c1;a=s0.0,s1.15;x=1.1.0;h=Ak1:*a0+c0r0;u=2:-b0*a0+c0r0;b=s0.0=k1",
    ] {
        if let Ok(d) = AirDesc::parse(t) {
            for x in 1..=2u8 {
                emit(run_line(FieldId::F64, HashId::Blake3_256, &OptSpec::new(3, 4, 1, x, 2, 1), rng.u64() % 1_000_000, &d));
            }
        }
    }
}

/// metadata of every length class relative to the chunk size, for all three fields, against: one more zero byte,
/// zero bytes up to the next chunk boundary and beyond, a changed byte in every chunk, structured contents
fn ctx_meta_ops(rng: &mut Rng, emit: &mut dyn FnMut(String)) {
    for field in FieldId::ALL {
        let chunk = if field == FieldId::F128 { 15 } else { 7 };
        for len in [0usize, 1, chunk - 1, chunk, chunk + 1, 2 * chunk - 1, 2 * chunk, 2 * chunk + 1, 5 * chunk + 3] {
            for content in 0..4 {
                let meta: Vec<u8> = match content {
                    0 => rng.bytes(len).into_iter().map(|b| b | 1).collect(), // no zero byte
                    1 => vec![0u8; len],                                        // all zero
                    2 => (0..len).map(|i| if i % 2 == 0 { 0xff } else { 0 }).collect(), // alternating, ends in 0 or ff
                    _ => (0..len).map(|i| if i + 1 == len { 7 } else { 0 }).collect(), // a single non-zero byte at the end
                };
                let mut a = random_ctx(rng);
                a.meta = meta.clone();
                let mut variants: Vec<Vec<u8>> = vec![];
                for extra in [1usize, 2, chunk - 1, chunk, chunk + 1] {
                    let mut m = meta.clone();
                    m.extend(std::iter::repeat(0u8).take(extra));
                    variants.push(m);
                }
                if len > 0 {
                    for pos in [0, len / 2, len - 1] {
                        let mut m = meta.clone();
                        m[pos] ^= 0x10;
                        variants.push(m);
                    }
                    variants.push(meta[..len - 1].to_vec());
                    let mut m = meta.clone();
                    m.rotate_left(1);
                    variants.push(m);
                }
                let mut m = meta.clone();
                m.push(1);
                variants.push(m);
                for m in variants {
                    if m == meta {
                        continue;
                    }
                    let mut b = a.clone();
                    b.meta = m;
                    emit(format!("ctx {} {} {}", field.name(), ctx_text(&a), ctx_text(&b)));
                }
            }
        }
    }
}


// ==================================================================================== fri op
struct FriOp {
    layers: usize,
    ext: u8,
    queries: usize,
    domain: usize,
    field: FieldId,
    hash: HashId,
    blowup: usize,
    folding: usize,
    remainder: usize,
    seed: u64,
}

fn parse_fri(t: &[&str]) -> Option<FriOp> {
    if t.len() != 10 {
        return None;
    }
    let num = |i: usize| t[i].parse::<u64>().ok().filter(|v| *v <= 1 << 24);
    let op = FriOp {
        layers: num(0)? as usize,
        ext: num(1)? as u8,
        queries: num(2)? as usize,
        domain: num(3)? as usize,
        field: FieldId::parse(t[4])?,
        hash: HashId::parse(t[5])?,
        blowup: num(6)? as usize,
        folding: num(7)? as usize,
        remainder: num(8)? as usize,
        seed: t[9].parse::<u64>().ok()?,
    };
    let ok = op.domain.is_power_of_two()
        && (8..=1 << 14).contains(&op.domain)
        && op.blowup.is_power_of_two()
        && (2..=128).contains(&op.blowup)
        && [2, 4, 8, 16].contains(&op.folding)
        && op.remainder <= 255
        && (op.remainder + 1).is_power_of_two()
        && op.domain / op.blowup >= 2
        && fri_well_formed(op.domain, op.blowup, op.folding, op.remainder)
        && op.layers == fri_layers(op.domain, op.blowup, op.folding, op.remainder)
        && (1..op.domain).contains(&op.queries)
        && op.queries <= 255
        && op.hash.compatible(op.field)
        && (1..=3).contains(&op.ext)
        && op.field.supports_ext(op.ext);
    if ok {
        Some(op)
    } else {
        None
    }
}

fn fri_line(field: FieldId, hash: HashId, ext: u8, q: usize, domain: usize, blowup: usize, folding: usize, remainder: usize, seed: u64) -> String {
    format!("fri {} {} {} {} {} {} {} {} {} {}", fri_layers(domain, blowup, folding, remainder), ext, q, domain, field.name(), hash.name(), blowup, folding, remainder, seed)
}

fn fri_g<B, E, H>(op: &FriOp) -> Outcome
where
    B: GField,
    E: FieldElement<BaseField = B>,
    H: ElementHasher<BaseField = B> + Send + Sync,
{
    use winter_fri::{DefaultProverChannel, DefaultVerifierChannel, FriOptions, FriProver, FriVerifier};
    let mut o = Outcome::default();
    let mut rng = Rng::new(op.seed);
    let d = op.domain / op.blowup;
    // a random polynomial of degree < d (sometimes with zero high coefficients), evaluated over offset * <g>
    let mut coeffs: Vec<E> = (0..d)
        .map(|_| {
            let cs: Vec<B> = (0..E::EXTENSION_DEGREE).map(|_| B::from_word(rng.u128() % B::MOD)).collect();
            E::slice_from_base_elements(&cs)[0]
        })
        .collect();
    if op.seed % 5 == 0 {
        let k = d / 2;
        for c in coeffs.iter_mut().skip(k.max(1)) {
            *c = E::ZERO;
        }
    }
    let options = FriOptions::new(op.blowup, op.folding, op.remainder);
    let g = B::get_root_of_unity(op.domain.trailing_zeros());
    let offset = options.domain_offset::<B>();
    let mut x = offset;
    let mut evals: Vec<E> = Vec::with_capacity(op.domain);
    for _ in 0..op.domain {
        evals.push(winter_math::polynom::eval(&coeffs, E::from(x)));
        x *= g;
    }
    // ---- prover
    log_take();
    let mut channel = DefaultProverChannel::<E, H, RecCoin<H>>::new(op.domain, op.queries);
    let mut prover = FriProver::<B, E, DefaultProverChannel<E, H, RecCoin<H>>, H>::new(options.clone());
    prover.build_layers(&mut channel, evals.clone());
    let positions = channel.draw_query_positions(0);
    let plog = log_take();
    let proof = prover.build_proof(&positions);
    let commitments: Vec<H::Digest> = channel.layer_commitments().to_vec();
    // ---- verifier
    let run_verifier = |proof: FriProof, commitments: Vec<H::Digest>| -> (String, Vec<Rec>) {
        log_take();
        let r = guarded(|| -> Result<(), String> {
            let mut coin = <RecCoin<H> as RandomCoin>::new(&[]);
            let mut vch = DefaultVerifierChannel::<E, H>::new(proof, commitments, op.domain, op.folding).map_err(|e| format!("channel:{:?}", e))?;
            let verifier = FriVerifier::new(&mut vch, &mut coin, options.clone(), d - 1).map_err(|e| format!("{:?}", e))?;
            let pos = coin.draw_integers(op.queries, op.domain, 0).map_err(|e| format!("{:?}", e))?;
            let qe: Vec<E> = pos.iter().map(|p| evals[*p]).collect();
            verifier.verify(&mut vch, &qe, &pos).map_err(|e| format!("{:?}", e))
        });
        let verdict = match r {
            Ok(Ok(())) => "ok".to_string(),
            Ok(Err(e)) => e.split(|c: char| !c.is_alphanumeric() && c != ':').next().unwrap_or("err").to_string(),
            Err(_) => "panic".to_string(),
        };
        (verdict, log_take())
    };
    let (verdict, vlog) = run_verifier(proof.clone(), commitments.clone());
    if verdict != "ok" {
        o.fails.push(("c04.harness.fri-honest-proof-rejected".into(), verdict.clone()));
    }
    // ---- labels: the commitments the prover handed over, in order
    let mut msgs: Vec<(String, Vec<u8>)> = vec![];
    for (i, c) in commitments.iter().enumerate() {
        msgs.push((if i + 1 == commitments.len() { "rem".to_string() } else { format!("fri{}", i) }, c.to_bytes()));
    }
    let remainder_hash = proof.parse_remainder::<E>().ok().map(|r| H::hash_elements(&r).to_bytes());
    let car = Carried { msgs, remainder_hash: remainder_hash.clone(), digest_len: 0 };
    let (ptok, _) = canon_log(&plog, &car, &[], &[]);
    let (vtok, vidx) = canon_log(&vlog, &car, &[], &[]);
    let fix = |t: Vec<String>| -> Vec<String> { t.into_iter().map(|x| if x == "new:ctx+pub" { "new:".to_string() } else { x }).collect() };
    let (ptok, vtok) = (fix(ptok), fix(vtok));
    o.out = format!("P {} V {}", ptok.join(","), vtok.join(","));
    // protocol order of the FRI commit phase
    let exp = |side: char| -> Vec<String> {
        let mut t = vec!["new:".to_string()];
        for i in 0..op.layers {
            t.push(format!("r:fri{}", i));
            t.push(format!("d{}x1", op.ext));
        }
        t.push("r:rem".into());
        if side == 'V' {
            t.push(format!("d{}x1", op.ext));
        }
        t.push("nonce".into());
        t.push(format!("ints:{}:{}", op.queries, op.domain));
        t
    };
    judge_order(&mut o, 'P', &ptok, &exp('P'), "");
    judge_order(&mut o, 'V', &vtok, &exp('V'), "");
    if commitments.len() != op.layers + 1 {
        o.fails.push(("c04.order.P".into(), format!("{} commitments for {} layers", commitments.len(), op.layers)));
    }
    if remainder_hash.as_ref() != commitments.last().map(|c| c.to_bytes()).as_ref() {
        o.fails.push(("c04.remainder-commitment".into(), "the last FRI commitment is not the hash of the remainder polynomial".into()));
    }
    // prover vs verifier after deleting the verifier's draw between the last commitment and the positions
    let mut v2 = vlog.clone();
    if let Some(pw) = v2.iter().position(|r| matches!(r, Rec::Ints { .. })) {
        let mut k = pw;
        while k > 0 && matches!(v2[k - 1], Rec::Draw { .. }) {
            k -= 1;
        }
        v2.drain(k..pw);
    }
    if plog != v2 {
        let k = plog.iter().zip(v2.iter()).position(|(a, b)| a != b).unwrap_or(plog.len().min(v2.len()));
        o.fails.push(("c04.prover-verifier-mismatch".into(), format!("fri: record {}: prover {:?} verifier {:?}", k, plog.get(k), v2.get(k))));
    }
    // probes: each commitment individually; the remainder polynomial
    if verdict == "ok" && vtok == exp('V') {
        for (k, c) in commitments.iter().enumerate() {
            let mut b = c.to_bytes();
            b[0] ^= 1;
            if let Ok(c2) = H::Digest::read_from_bytes(&b) {
                let mut cs = commitments.clone();
                cs[k] = c2;
                let (vd, tlog) = run_verifier(proof.clone(), cs);
                let at = vidx[vtok.iter().position(|t| *t == format!("r:{}", car.msgs[k].0)).unwrap()];
                if tlog.len() > at {
                    if tlog[..at] != vlog[..at] {
                        o.fails.push((format!("c04.provenance.commitment.{}", car.msgs[k].0), "fri: an earlier record changed".into()));
                    } else if tlog[at] != Rec::Reseed(b.clone()) {
                        o.fails.push((format!("c04.unbound.commitment.{}", car.msgs[k].0), format!("fri: after changing the commitment the verifier absorbs {:?}", tlog[at])));
                    } else if let (Some(a), Some(bb)) = (next_challenge(&tlog, at), next_challenge(&vlog, at)) {
                        if a == bb {
                            o.fails.push((format!("c04.insensitive.commitment.{}", car.msgs[k].0), "fri: next challenge unchanged".into()));
                        }
                    }
                }
            }
        }
        let fb = proof.to_bytes();
        let rl = proof.num_remainder_elements::<E>() * E::ELEMENT_BYTES;
        if rl > 0 && fb.len() > rl + 3 {
            let start = fb.len() - 1 - rl;
            for off in [start, start + rl - E::ELEMENT_BYTES] {
                let mut b = fb.clone();
                b[off] ^= 1;
                if let Ok(fp) = FriProof::read_from_bytes(&b) {
                    if fp.parse_remainder::<E>().is_ok() {
                        let (vd, tlog) = run_verifier(fp, commitments.clone());
                        if tlog == vlog && vd != "RemainderCommitmentMismatch" {
                            o.fails.push(("c04.unbound.remainder".into(), format!("fri: the remainder polynomial was changed; same transcript and positions, verdict {}", vd)));
                        }
                    }
                }
            }
        }
    }
    o
}

fn exec_fri(t: &[&str]) -> Outcome {
    let op = match parse_fri(t) {
        Some(op) => op,
        None => return Outcome::ok("bad-op"),
    };
    let x = op.ext;
    let op = &op;
    match (op.field, op.hash) {
        (FieldId::F62, HashId::Blake3_256) => by_ext!(x, f62::BaseElement, Blake3_256<f62::BaseElement>, fri_g, (op)),
        (FieldId::F62, HashId::Blake3_192) => by_ext!(x, f62::BaseElement, Blake3_192<f62::BaseElement>, fri_g, (op)),
        (FieldId::F62, HashId::Sha3_256) => by_ext!(x, f62::BaseElement, Sha3_256<f62::BaseElement>, fri_g, (op)),
        (FieldId::F62, HashId::Rp62_248) => by_ext!(x, f62::BaseElement, Rp62_248, fri_g, (op)),
        (FieldId::F64, HashId::Blake3_256) => by_ext!(x, f64::BaseElement, Blake3_256<f64::BaseElement>, fri_g, (op)),
        (FieldId::F64, HashId::Blake3_192) => by_ext!(x, f64::BaseElement, Blake3_192<f64::BaseElement>, fri_g, (op)),
        (FieldId::F64, HashId::Sha3_256) => by_ext!(x, f64::BaseElement, Sha3_256<f64::BaseElement>, fri_g, (op)),
        (FieldId::F64, HashId::Rp64_256) => by_ext!(x, f64::BaseElement, Rp64_256, fri_g, (op)),
        (FieldId::F64, HashId::RpJive64_256) => by_ext!(x, f64::BaseElement, RpJive64_256, fri_g, (op)),
        (FieldId::F128, HashId::Blake3_256) => by_ext!(x, f128::BaseElement, Blake3_256<f128::BaseElement>, fri_g, (op)),
        (FieldId::F128, HashId::Blake3_192) => by_ext!(x, f128::BaseElement, Blake3_192<f128::BaseElement>, fri_g, (op)),
        (FieldId::F128, HashId::Sha3_256) => by_ext!(x, f128::BaseElement, Sha3_256<f128::BaseElement>, fri_g, (op)),
        _ => Outcome::ok("bad-op"),
    }
}

/// FRI-only ops: every folding factor, 0 / 1 / max layers, boundary remainder sizes, every hasher family
fn gen_fri_ops(rng: &mut Rng, n: usize, emit: &mut dyn FnMut(String)) {
    for f in [2usize, 4, 8, 16] {
        for (log_dom, b, r) in [(4u32, 2usize, 7usize), (4, 2, 3), (4, 2, 0), (5, 4, 7), (6, 8, 0), (8, 4, 0), (8, 4, 63), (8, 4, 31), (9, 2, 255), (10, 2, 1)] {
            let dom = 1usize << log_dom;
            if dom / b < 2 || !fri_well_formed(dom, b, f, r) {
                continue;
            }
            let field = *rng.pick(&FieldId::ALL);
            let hash = *rng.pick(&HashId::for_field(field));
            let exts: Vec<u8> = (1..=3u8).filter(|x| field.supports_ext(*x)).collect();
            emit(fri_line(field, hash, *rng.pick(&exts), rng.range(1, 12) as usize, dom, b, f, r, rng.u64() % 1_000_000));
        }
    }
    for _ in 0..n {
        let field = *rng.pick(&FieldId::ALL);
        let hash = *rng.pick(&HashId::for_field(field));
        let exts: Vec<u8> = (1..=3u8).filter(|x| field.supports_ext(*x)).collect();
        let dom = 1usize << rng.range(3, 9);
        let b = *rng.pick(&[2usize, 4, 8, 16]);
        let f = *rng.pick(&[2usize, 4, 8, 16]);
        let r = (1usize << rng.below(9)) - 1;
        if dom / b < 2 || !fri_well_formed(dom, b, f, r) {
            continue;
        }
        let q = rng.range(1, (dom - 1).min(20) as u64) as usize;
        emit(fri_line(field, hash, *rng.pick(&exts), q, dom, b, f, r, rng.u64() % 1_000_000));
    }
    emit("fri 1 1 1 8".into());
}

// ==================================================================================== generator
fn random_opts(rng: &mut Rng, d: &AirDesc, field: FieldId, max_lde: usize, want_layers: Option<usize>) -> OptSpec {
    let n = d.trace_len;
    let minb = d.min_blowup();
    for _ in 0..400 {
        let mut blowups: Vec<usize> = [2usize, 4, 8, 16, 32, 64, 128].into_iter().filter(|b| *b >= minb && n * b <= max_lde).collect();
        if blowups.is_empty() {
            blowups.push(minb);
        }
        let b = *rng.pick(&blowups);
        let f = *rng.pick(&[2usize, 2, 4, 4, 8, 16]);
        let r = (1usize << rng.below(9)) - 1;
        let lde = n * b;
        let q = if rng.chance(1, 8) { rng.range(1, (lde - 1).min(255) as u64) } else { rng.range(1, (lde - 1).min(12) as u64) } as usize;
        let g = match rng.below(20) {
            0..=9 => 0,
            10..=16 => rng.range(1, 8) as u32,
            17 | 18 => rng.range(9, 13) as u32,
            _ => rng.range(14, 16) as u32,
        };
        let exts: Vec<u8> = (1..=3u8).filter(|x| field.supports_ext(*x)).collect();
        let x = *rng.pick(&exts);
        let o = OptSpec::new(q, b, g, x, f, r);
        if !fri_well_formed(lde, b, f, r) {
            continue;
        }
        if let Some(l) = want_layers {
            if fri_layers(lde, b, f, r) != l {
                continue;
            }
        }
        return o;
    }
    OptSpec::new(1, minb, 0, 1, 2, 0)
}

fn budget(rng: &mut Rng, i: usize, tier: Tier) -> Budget {
    let big = if tier == Tier::Thorough { 9 } else { 7 };
    Budget {
        min_log_len: 3,
        max_log_len: if i % 16 == 0 { big } else if i % 4 == 0 { 6 } else { 4 },
        max_width: if i % 25 == 0 { 30 } else { 5 },
        max_degree: *rng.pick(&[1usize, 2, 2, 3, 3, 4]),
        aux_pct: 55,
        lagrange_pct: 45,
        exemptions: true,
        degenerate: i % 15 == 0,
        sequences: true,
    }
}

fn gen_ops(rng: &mut Rng, tier: Tier, n: usize, emit: &mut dyn FnMut(String)) {
    product_ops(rng, emit);
    boundary_ops(rng, tier, emit);
    // boundary classes: every hasher x field x extension; FRI schedules with 0, 1, …, max layers
    for field in FieldId::ALL {
        for hash in HashId::for_field(field) {
            for ext in 1..=3u8 {
                if !field.supports_ext(ext) {
                    continue;
                }
                for k in 0..3 {
                    let mut b = budget(rng, 1, tier);
                    b.aux_pct = [0, 100, 100][k];
                    b.lagrange_pct = [0, 0, 100][k];
                    let d = random_desc(rng, &b);
                    let mut o = random_opts(rng, &d, field, 512, None);
                    o.ext = ext;
                    emit(run_line(field, hash, &o, rng.u64() % 1_000_000, &d));
                }
            }
        }
    }
    let max_log = if tier == Tier::Thorough { 10 } else { 7 };
    for log_n in 3..=max_log {
        for layers in 0..=(log_n + 1) as usize {
            let mut b = budget(rng, 1, tier);
            b.min_log_len = log_n;
            b.max_log_len = log_n;
            b.max_degree = 2;
            let d = random_desc(rng, &b);
            let field = *rng.pick(&FieldId::ALL);
            let hash = *rng.pick(&HashId::for_field(field));
            let o = random_opts(rng, &d, field, 1 << (log_n + 2), Some(layers));
            if fri_layers(d.trace_len * o.blowup, o.blowup, o.folding, o.remainder) == layers {
                emit(run_line(field, hash, &o, rng.u64() % 1_000_000, &d));
            }
        }
    }
    // grinding 0..16
    for g in 0..=16u32 {
        let bud = budget(rng, 1, tier);
        let d = random_desc(rng, &bud);
        let field = *rng.pick(&FieldId::ALL);
        let hash = *rng.pick(&HashId::for_field(field));
        let mut o = random_opts(rng, &d, field, 512, None);
        o.grinding = g;
        emit(run_line(field, hash, &o, rng.u64() % 1_000_000, &d));
    }
    // random descriptions x random admissible options x fields x hashers
    for i in 0..n {
        let field = *rng.pick(&FieldId::ALL);
        let hash = *rng.pick(&HashId::for_field(field));
        let bud = budget(rng, i, tier);
        let d = random_desc(rng, &bud);
        let o = random_opts(rng, &d, field, if i % 10 == 0 { 4096 } else { 512 }, None);
        emit(run_line(field, hash, &o, rng.u64() % 1_000_000, &d));
    }
    // malformed stream
    emit("run 1 2 3".into());
    emit("frobnicate".into());
    emit("run 0 0 0 0 1 1 3 1 1 1 1 16 1 0 f64 blake3_256 1.2.0.1.2.0 w=1;l=8".into());
}

impl Prop for P {
    fn id(&self) -> &'static str {
        "C04"
    }

    fn gen(&self, rng: &mut Rng, tier: Tier, n: usize, emit: &mut dyn FnMut(String)) {
        let n = default_n(tier, 2500, 40000, n);
        // collect, then spread the expensive boundary cases over the workers (the supervisor hands out contiguous
        // slices of the op file): a deterministic shuffle
        let mut lines: Vec<String> = vec![];
        gen_ops(rng, tier, n, &mut |l| lines.push(l));
        ctx_meta_ops(rng, &mut |l| lines.push(l));
        gen_ctx_ops(rng, n, &mut |l| lines.push(l));
        gen_fri_ops(rng, n / 4, &mut |l| lines.push(l));
        for i in (1..lines.len()).rev() {
            let j = rng.below(i as u64 + 1) as usize;
            lines.swap(i, j);
        }
        for l in lines {
            emit(l);
        }
    }

    fn exec(&self, line: &str) -> Outcome {
        let t: Vec<&str> = line.split(' ').filter(|x| !x.is_empty()).collect();
        match t.first().copied() {
            Some("run") => exec_run(&t[1..]),
            Some("ctx") => exec_ctx(&t[1..]),
            Some("fri") => exec_fri(&t[1..]),
            _ => Outcome::ok("bad-op"),
        }
    }

    fn timeout_ms(&self) -> u64 {
        180_000
    }

    fn nontrivial(&self, _line: &str, out: &str) -> bool {
        out.starts_with("P ") || (_line.starts_with("ctx") && out != "bad-op" && out != "panic")
    }

    fn class(&self, line: &str, out: &str) -> String {
        let t: Vec<&str> = line.split(' ').collect();
        if t.first() == Some(&"run") && t.len() >= 19 {
            let seg = match (t[1], t[2], t[4]) {
                ("0", _, _) => "single",
                (_, "0", "0") => "aux-norands",
                (_, "0", _) => "aux",
                (_, _, "0") => "aux-norands+lagrange",
                _ => "aux+lagrange",
            };
            let g = t[14].parse::<u32>().unwrap_or(0);
            let gc = if g == 0 { "g0" } else if g <= 8 { "g1-8" } else { "g9-16" };
            let verdict = if out.starts_with("P ") { "ok" } else { out.split(' ').next().unwrap_or("") };
            format!("run.{}.x{}.layers{}.{}:{}", seg, t[13], t[10], gc, verdict)
        } else if t.first() == Some(&"fri") && out.starts_with("P ") && t.len() >= 9 {
            format!("fri.x{}.layers{}.fold{}:ok", t[2], t[1], t[8])
        } else if t.first() == Some(&"ctx") && out != "bad-op" && out != "panic" {
            let mut p = out.split(' ');
            let same = p.next() == p.next();
            format!("ctx.{}:{}", t.get(1).unwrap_or(&""), if same { "same-elements" } else { "different-elements" })
        } else {
            format!("{}:{}", t.first().unwrap_or(&""), if out == "panic" { "panic" } else { "bad-op" })
        }
    }

    fn rule(&self) -> &'static str {
        "distinct op lines for which a proof was generated and verified with the recording coin (output starts with `P `): one (description, trace seed, options, field, hasher) tuple each, its prover log and verifier log compared with each other, with the values recomputed from the proof object, with the protocol order, and (by the check) with the Lean scripts; plus the tampering probes on the verifier; a ctx op is one pair of proof contexts pushed through Context::to_elements and the Lean model; a fri op is one FRI commit phase through the FRI crate's own channels"
    }

    fn panic_site(&self, line: &str) -> Option<String> {
        if line.starts_with("run") || line.starts_with("ctx") || line.starts_with("fri") {
            Some("c04.harness.panic".into())
        } else {
            None
        }
    }
}

fn main() {
    main_for(&P);
}
