//! C06: untrusted input — parsing arbitrary bytes as a proof, and verifying any parsed proof, ends
//! with success or an error value: no panic, abort, hang, or allocation out of proportion to the input.
//!
//! Op lines (all randomness comes from the harness `Rng` at generation time; a line is replayable):
//!   mut x <label> <cfg> <vcfg> <mode> <edits>
//!       take the valid proof of base configuration <cfg> (table `CFGS`: field, hasher, options, trace
//!       seed, AirDesc; the proof is regenerated deterministically and cached per process), apply the
//!       byte edits, then `Proof::from_bytes` and, when it parses and <vcfg> is not `-`, `verify`
//!       against the AIR / public inputs of configuration <vcfg> (the same one, or a different AIR).
//!       <mode>: c = MinConjecturedSecurity(0), p = MinProvenSecurity(0), o = OptionSet([options of vcfg]).
//!       <edits>: `-` or comma separated  s<off>:<hex> overwrite | x<off>:<hex> xor | t<len> truncate |
//!       a<hex> append | d<off>:<len> delete | i<off>:<hex> insert | r<off>:<len>:<hex> replace range.
//!       output `<parse> <front> <deep>` (the Lean driver answers `-`: exploration only).
//!   raw x <label> <vcfg> <field> <hasher> <e> <main degs> <aux degs> <#main asserts> <#aux asserts> <aux width of the AIR> <lagrange 0|1> <hex>
//!       the same on literal bytes, mode c; the AIR parameters on the line are those of <vcfg> (checked)
//!       and are what the Lean model (Winter/Model/Parse.lean) needs: output `<parse>[ <front>]`, compared
//!       with the model.
//!
//!   fri x <label> <log2 n> <blowup> <folding> <remainder degree> <queries> <edits>
//!       the stand-alone FRI entry points on an honest FRI proof (64-bit field, Blake3_256) after the edits:
//!       `FriProof::read_from_bytes`, `DefaultVerifierChannel::new`, `FriVerifier::new`, `verify`;
//!       output `<parse>[ <chan-err | new-err:.. | err:.. | ok | panic>]` (not modelled).
//!
//! Outcome classes
//!   parse: ok | err | eof | panic
//!   front (everything `verify` does up to and including `VerifierChannel::new`; the stage is observed
//!          through a wrapping RandomCoin: the coin is created right before the channel is built and is
//!          first reseeded right after): pass | field (InconsistentBaseField) | ext
//!          (UnsupportedFieldExtension) | opts (options / security level refused) | err
//!          (ProofDeserializationError) | airnew (the AIR constructor panicked on the proof's trace info /
//!          options: `Air::new` cannot return an error) | panic
//!   deep (the rest of `verify`): ok | err:<kind> | panic | air-mismatch (a panic while the generic AIR of
//!          the harness is used on a trace shape it was not written for — not attributed to the library)
//!
//! Oracle = the property itself: every outcome must be ok / err (no panic, abort, hang), and the bytes
//! requested from the allocator while parsing / verifying (peak growth, counted by a `#[global_allocator]`)
//! must stay below 64 MiB and below 1000 x |input| + 1 MiB. Workers run under a 2 GiB address-space cap,
//! so runaway allocation aborts the worker (outcome `abort`), not the machine.
#![allow(dead_code, unused_variables, unused_imports, unused_mut, clippy::too_many_arguments)]
use std::alloc::{GlobalAlloc, Layout, System};
use std::collections::HashMap;
use std::sync::atomic::{AtomicU32, AtomicUsize, Ordering};
use std::sync::{Arc, Mutex, OnceLock};

use wf_harness::core::*;
use wf_harness::genair::*;
use winter_air::{proof::Proof, Air, FieldExtension, ProofOptions, TraceInfo};
use winter_crypto::{
    hashers::{Blake3_192, Blake3_256, Rp62_248, Rp64_256, RpJive64_256, Sha3_256},
    DefaultRandomCoin, ElementHasher, Hasher, RandomCoin, RandomCoinError,
};
use winter_math::{
    fields::{f128, f62, f64},
    FieldElement, StarkField,
};
use winter_utils::DeserializationError;
use winter_verifier::{AcceptableOptions, VerifierError};

// ------------------------------------------------------------------------------------ allocator
struct Counting;
static CUR: AtomicUsize = AtomicUsize::new(0);
static PEAK: AtomicUsize = AtomicUsize::new(0);
static MAXREQ: AtomicUsize = AtomicUsize::new(0);

#[inline]
fn note_add(n: usize) {
    let c = CUR.fetch_add(n, Ordering::Relaxed) + n;
    PEAK.fetch_max(c, Ordering::Relaxed);
    MAXREQ.fetch_max(n, Ordering::Relaxed);
}

unsafe impl GlobalAlloc for Counting {
    unsafe fn alloc(&self, l: Layout) -> *mut u8 {
        MAXREQ.fetch_max(l.size(), Ordering::Relaxed);
        let p = System.alloc(l);
        if !p.is_null() {
            note_add(l.size());
        }
        p
    }
    unsafe fn alloc_zeroed(&self, l: Layout) -> *mut u8 {
        MAXREQ.fetch_max(l.size(), Ordering::Relaxed);
        let p = System.alloc_zeroed(l);
        if !p.is_null() {
            note_add(l.size());
        }
        p
    }
    unsafe fn dealloc(&self, p: *mut u8, l: Layout) {
        System.dealloc(p, l);
        CUR.fetch_sub(l.size(), Ordering::Relaxed);
    }
    unsafe fn realloc(&self, p: *mut u8, l: Layout, new: usize) -> *mut u8 {
        MAXREQ.fetch_max(new, Ordering::Relaxed);
        let q = System.realloc(p, l, new);
        if !q.is_null() {
            if new >= l.size() {
                note_add(new - l.size());
            } else {
                CUR.fetch_sub(l.size() - new, Ordering::Relaxed);
            }
        }
        q
    }
}

#[global_allocator]
static GLOBAL: Counting = Counting;

/// run `f`, return its result and the peak growth of live heap bytes while it ran
fn measured<T>(f: impl FnOnce() -> T) -> (T, usize) {
    let base = CUR.load(Ordering::Relaxed);
    PEAK.store(base, Ordering::Relaxed);
    let r = f();
    let peak = PEAK.load(Ordering::Relaxed);
    (r, peak.saturating_sub(base))
}

const ALLOC_ABS: usize = 64 << 20;
fn alloc_limit(input_len: usize) -> usize {
    ALLOC_ABS.min(1000 * input_len + (1 << 20))
}

// ------------------------------------------------------------------------------------ stage coin
/// 0: before the coin exists (field check, options check, context -> elements, Air::new);
/// 1: coin created (VerifierChannel::new runs next); 2: first reseed (the channel was built)
static STAGE: AtomicU32 = AtomicU32::new(0);

struct StageCoin<H: ElementHasher>(DefaultRandomCoin<H>);

impl<B: StarkField, H: ElementHasher<BaseField = B>> RandomCoin for StageCoin<H> {
    type BaseField = B;
    type Hasher = H;
    fn new(seed: &[B]) -> Self {
        STAGE.store(1, Ordering::Relaxed);
        StageCoin(DefaultRandomCoin::new(seed))
    }
    fn reseed(&mut self, data: H::Digest) {
        STAGE.store(2, Ordering::Relaxed);
        self.0.reseed(data)
    }
    fn check_leading_zeros(&self, value: u64) -> u32 {
        self.0.check_leading_zeros(value)
    }
    fn draw<E: FieldElement<BaseField = B>>(&mut self) -> Result<E, RandomCoinError> {
        self.0.draw()
    }
    fn draw_integers(&mut self, num_values: usize, domain_size: usize, nonce: u64) -> Result<Vec<usize>, RandomCoinError> {
        self.0.draw_integers(num_values, domain_size, nonce)
    }
}

/// Coin of a NON-STANDARD PROVER (used only to manufacture structurally valid proofs the honest prover
/// cannot produce): draws elements wider than a digest from several base-field draws, and draws
/// `num_values >= domain_size` integers by repeating positions instead of asserting.
struct LenientCoin<H: ElementHasher>(DefaultRandomCoin<H>);

impl<B: StarkField, H: ElementHasher<BaseField = B>> RandomCoin for LenientCoin<H> {
    type BaseField = B;
    type Hasher = H;
    fn new(seed: &[B]) -> Self {
        LenientCoin(DefaultRandomCoin::new(seed))
    }
    fn reseed(&mut self, data: H::Digest) {
        self.0.reseed(data)
    }
    fn check_leading_zeros(&self, value: u64) -> u32 {
        self.0.check_leading_zeros(value)
    }
    fn draw<E: FieldElement<BaseField = B>>(&mut self) -> Result<E, RandomCoinError> {
        match self.0.draw::<E>() {
            Ok(e) => Ok(e),
            Err(_) => {
                let mut v: Vec<B> = vec![];
                for _ in 0..E::EXTENSION_DEGREE {
                    v.push(self.0.draw::<B>()?);
                }
                Ok(E::slice_from_base_elements(&v)[0])
            },
        }
    }
    fn draw_integers(&mut self, num_values: usize, domain_size: usize, nonce: u64) -> Result<Vec<usize>, RandomCoinError> {
        if num_values < domain_size {
            return self.0.draw_integers(num_values, domain_size, nonce);
        }
        let mut v = self.0.draw_integers(domain_size - 1, domain_size, nonce)?;
        let k = v.len();
        while v.len() < num_values {
            v.push(v[v.len() % k]);
        }
        Ok(v)
    }
}

fn prove_lenient_g<B: GField, H: ElementHasher<BaseField = B> + Send + Sync>(
    desc: &Arc<AirDesc>,
    trace: &TraceData,
    opts: &OptSpec,
) -> Result<Proof, winter_prover::ProverError> {
    use winter_prover::Prover;
    let prover = GenericProver::<B, H, LenientCoin<H>>::new(desc.clone(), opts.to_options());
    prover.prove(GenTrace::<B>::new(desc, trace))
}

macro_rules! dispatch {
    ($field:expr, $hash:expr, $f:ident, ($($args:expr),*)) => {
        match ($field, $hash) {
            (FieldId::F62, HashId::Blake3_256) => $f::<f62::BaseElement, Blake3_256<f62::BaseElement>>($($args),*),
            (FieldId::F62, HashId::Blake3_192) => $f::<f62::BaseElement, Blake3_192<f62::BaseElement>>($($args),*),
            (FieldId::F62, HashId::Sha3_256) => $f::<f62::BaseElement, Sha3_256<f62::BaseElement>>($($args),*),
            (FieldId::F62, HashId::Rp62_248) => $f::<f62::BaseElement, Rp62_248>($($args),*),
            (FieldId::F64, HashId::Blake3_256) => $f::<f64::BaseElement, Blake3_256<f64::BaseElement>>($($args),*),
            (FieldId::F64, HashId::Blake3_192) => $f::<f64::BaseElement, Blake3_192<f64::BaseElement>>($($args),*),
            (FieldId::F64, HashId::Sha3_256) => $f::<f64::BaseElement, Sha3_256<f64::BaseElement>>($($args),*),
            (FieldId::F64, HashId::Rp64_256) => $f::<f64::BaseElement, Rp64_256>($($args),*),
            (FieldId::F64, HashId::RpJive64_256) => $f::<f64::BaseElement, RpJive64_256>($($args),*),
            (FieldId::F128, HashId::Blake3_256) => $f::<f128::BaseElement, Blake3_256<f128::BaseElement>>($($args),*),
            (FieldId::F128, HashId::Blake3_192) => $f::<f128::BaseElement, Blake3_192<f128::BaseElement>>($($args),*),
            (FieldId::F128, HashId::Sha3_256) => $f::<f128::BaseElement, Sha3_256<f128::BaseElement>>($($args),*),
            (f, h) => panic!("hasher {} cannot be used with field {}", h.name(), f.name()),
        }
    };
}

fn airnew_g<B: GField, H: ElementHasher<BaseField = B> + Send + Sync>(desc: &Arc<AirDesc>, pubs: &[u128], proof: &Proof) -> usize {
    let values: Vec<B> = pubs.iter().map(|v| B::from_word(*v % B::MOD)).collect();
    let air = GenericAir::<B>::new(proof.trace_info().clone(), GenPub { desc: desc.clone(), values }, proof.options().clone());
    air.context().num_constraint_composition_columns()
}

fn verify_g<B: GField, H: ElementHasher<BaseField = B> + Send + Sync>(
    desc: &Arc<AirDesc>,
    pubs: &[u128],
    proof: Proof,
    acceptable: &AcceptableOptions,
) -> Result<(), VerifierError> {
    let values: Vec<B> = pubs.iter().map(|v| B::from_word(*v % B::MOD)).collect();
    winter_verifier::verify::<GenericAir<B>, H, StageCoin<H>>(proof, GenPub { desc: desc.clone(), values }, acceptable)
}

fn modulus_bytes(field: FieldId) -> Vec<u8> {
    match field {
        FieldId::F62 => f62::BaseElement::get_modulus_le_bytes(),
        FieldId::F64 => f64::BaseElement::get_modulus_le_bytes(),
        FieldId::F128 => f128::BaseElement::get_modulus_le_bytes(),
    }
}

// ------------------------------------------------------------------------------------ base configurations
pub struct Cfg {
    pub name: &'static str,
    pub field: FieldId,
    pub hash: HashId,
    pub opts: &'static str,
    pub seed: u64,
    pub desc: &'static str,
    /// the proof comes from the non-standard prover (LenientCoin): the honest prover refuses the configuration
    pub lenient: bool,
}

const FIB8: &str = "w=2;l=8;e=1;j=0;p=;g=S1:c1,S1:+c0c1;t=1:-n0c1,1:-n1+c0c1;a=s0.0,s1.7";
const FIB8B: &str = "w=2;l=8;e=1;j=0;p=;g=S1:c1,S1:+c0*k2c1;t=1:-n0c1,1:-n1+c0*k2c1;a=s0.0,s1.7";
const FIB16: &str = "w=2;l=16;e=1;j=0;p=;g=S1:c1,S1:+c0c1;t=1:-n0c1,1:-n1+c0c1;a=s0.0,s1.15";
const SQ8: &str = "w=1;l=8;e=2;j=1;p=;g=S?:+^2c0k5;t=2:-n0+^2c0k5;a=s0.0";
const SQ8E1: &str = "w=1;l=8;e=1;j=0;p=;g=S?:+^2c0k5;t=2:-n0+^2c0k5;a=s0.0";
const CUBE8: &str = "w=1;l=8;e=1;j=0;p=;g=S?:+^3c0k5;t=3:-n0+^3c0k5;a=s0.0,s0.7";
const POW5: &str = "w=1;l=8;e=1;j=0;p=;g=S?:+^5c0k5;t=5:-n0+^5c0k5;a=s0.0";
const AUX16: &str = "w=2;l=16;e=7;j=0;p=;g=S?:+^2c0k2,S?:+^2c1k4;t=2:-n0+^2c0k2,2:-n1+^2c1k4;a=q1.0.16;x=2.2.0;h=F:+*r1c1r0,Ar1:/*a1++c0r0a0+c1r0;u=1:-a0+*r1c1r0,2:-*b1+c1r0*a1++c0r0a0;b=q0.0.16=+*r1w0r0,s1.0=r1";
const LAG8: &str = "w=4;l=8;e=1;j=0;p=;g=S?:+*c0c1k3,S?:+c1c0,S?:+*c2c3k3,S?:+c3c2;t=2:-n0+*c0c1k3,1:-n1+c1c0,2:-n2+*c2c3k3,1:-n3+c3c2;a=s0.0,s3.7;x=2.1.1;h=Ak1:*a0+c0r0;u=2:-b0*a0+c0r0;b=s0.0=k1";
const PER32: &str = "w=2;l=32;e=1;j=0;p=1.2.3.4|5.7;g=S?:+*c0p0p1,S1:+c1c0;t=1.4.2:-n0+*c0p0p1,1:-n1+c1c0;a=s0.0,s1.31";

pub const CFGS: &[Cfg] = &[
    Cfg { name: "fib8", field: FieldId::F64, hash: HashId::Blake3_256, opts: "2.4.0.1.2.1", seed: 1, desc: FIB8, lenient: false },
    Cfg { name: "fib8b", field: FieldId::F64, hash: HashId::Blake3_256, opts: "2.4.0.1.2.1", seed: 2, desc: FIB8B, lenient: false },
    Cfg { name: "sq8rp", field: FieldId::F64, hash: HashId::Rp64_256, opts: "3.4.0.1.4.3", seed: 3, desc: SQ8, lenient: false },
    Cfg { name: "sq8q", field: FieldId::F64, hash: HashId::Sha3_256, opts: "2.4.2.2.2.0", seed: 4, desc: SQ8E1, lenient: false },
    Cfg { name: "jive3", field: FieldId::F64, hash: HashId::RpJive64_256, opts: "2.4.0.3.2.1", seed: 5, desc: FIB8, lenient: false },
    Cfg { name: "pow5", field: FieldId::F64, hash: HashId::Blake3_256, opts: "2.8.0.1.2.3", seed: 11, desc: POW5, lenient: false },
    Cfg { name: "cube128", field: FieldId::F128, hash: HashId::Blake3_192, opts: "2.8.0.1.4.1", seed: 6, desc: CUBE8, lenient: false },
    Cfg { name: "aux16", field: FieldId::F128, hash: HashId::Sha3_256, opts: "3.8.0.2.8.1", seed: 424292, desc: AUX16, lenient: false },
    Cfg { name: "lag8", field: FieldId::F64, hash: HashId::Blake3_256, opts: "2.4.0.1.4.3", seed: 12, desc: LAG8, lenient: false },
    Cfg { name: "fib62", field: FieldId::F62, hash: HashId::Rp62_248, opts: "2.4.0.1.2.1", seed: 7, desc: FIB16, lenient: false },
    Cfg { name: "fib62q", field: FieldId::F62, hash: HashId::Blake3_256, opts: "1.2.3.2.2.0", seed: 8, desc: FIB8, lenient: false },
    // proofs only a non-standard prover can make
    Cfg { name: "q255", field: FieldId::F64, hash: HashId::Blake3_256, opts: "255.2.0.1.2.0", seed: 10, desc: FIB8, lenient: true },
    Cfg { name: "per32", field: FieldId::F64, hash: HashId::Blake3_192, opts: "4.2.0.1.4.7", seed: 9, desc: PER32, lenient: false },
];

pub struct Base {
    pub cfg: &'static Cfg,
    pub desc: Arc<AirDesc>,
    pub opts: OptSpec,
    pub pubs: Vec<u128>,
    pub bytes: Vec<u8>,
}

fn find_cfg(name: &str) -> Option<&'static Cfg> {
    CFGS.iter().find(|c| c.name == name)
}

fn build_base(cfg: &'static Cfg) -> Result<Base, String> {
    let desc = Arc::new(AirDesc::parse(cfg.desc)?);
    let opts = OptSpec::parse(cfg.opts).ok_or("options")?;
    let trace = gen_trace(&desc, cfg.field, cfg.seed);
    let pubs = pub_inputs(&desc, cfg.field, &trace);
    let proof = guarded(|| {
        if cfg.lenient {
            dispatch!(cfg.field, cfg.hash, prove_lenient_g, (&desc, &trace, &opts))
        } else {
            prove(&desc, &trace, cfg.field, &opts, cfg.hash)
        }
    })
        .map_err(|e| format!("prover panicked: {}", e))?
        .map_err(|e| format!("prover error: {:?}", e))?;
    let bytes = proof.to_bytes();
    Ok(Base { cfg, desc, opts, pubs, bytes })
}

static BASES: OnceLock<Mutex<HashMap<&'static str, Result<Arc<Base>, String>>>> = OnceLock::new();

fn base(name: &str) -> Result<Arc<Base>, String> {
    let cfg = find_cfg(name).ok_or_else(|| format!("unknown configuration {}", name))?;
    let m = BASES.get_or_init(|| Mutex::new(HashMap::new()));
    let mut g = m.lock().unwrap();
    g.entry(cfg.name).or_insert_with(|| build_base(cfg).map(Arc::new)).clone()
}

/// the AIR parameters the Lean model needs, as they appear on `raw` lines
fn air_params(b: &Base) -> String {
    fn degs(cs: &[Constraint]) -> String {
        if cs.is_empty() {
            return "-".into();
        }
        cs.iter()
            .map(|c| {
                let mut s = c.degree.base.to_string();
                for cy in &c.degree.cycles {
                    s.push_str(&format!(".{}", cy));
                }
                s
            })
            .collect::<Vec<_>>()
            .join(",")
    }
    let d = &b.desc;
    let (adegs, naa, aw, lag) = match &d.aux {
        None => ("-".to_string(), 0, 0, 0),
        Some(x) => (degs(&x.constraints), x.assertions.len(), x.width, x.lagrange as usize),
    };
    format!(
        "{} {} {} {} {} {} {} {} {}",
        b.cfg.field.name(),
        b.cfg.hash.name(),
        d.exemptions,
        degs(&d.constraints),
        adegs,
        d.assertions.len(),
        naa,
        aw,
        lag
    )
}

// ------------------------------------------------------------------------------------ edits
fn apply_edits(bytes: &mut Vec<u8>, edits: &str) -> Result<(), String> {
    if edits == "-" || edits.is_empty() {
        return Ok(());
    }
    for e in edits.split(',') {
        let (k, rest) = e.split_at(1);
        let parts: Vec<&str> = rest.split(':').collect();
        let num = |s: &str| s.parse::<usize>().map_err(|_| format!("bad number in edit {}", e));
        match k {
            "s" | "x" => {
                let off = num(parts.first().ok_or("edit")?)?;
                let v = unhex(parts.get(1).ok_or("edit")?);
                for (i, b) in v.iter().enumerate() {
                    if off + i < bytes.len() {
                        if k == "s" {
                            bytes[off + i] = *b;
                        } else {
                            bytes[off + i] ^= *b;
                        }
                    }
                }
            },
            "t" => {
                let n = num(parts.first().ok_or("edit")?)?;
                bytes.truncate(n);
            },
            "a" => bytes.extend_from_slice(&unhex(parts.first().ok_or("edit")?)),
            "d" => {
                let off = num(parts.first().ok_or("edit")?)?.min(bytes.len());
                let len = num(parts.get(1).ok_or("edit")?)?.min(bytes.len() - off);
                bytes.drain(off..off + len);
            },
            "i" => {
                let off = num(parts.first().ok_or("edit")?)?.min(bytes.len());
                let v = unhex(parts.get(1).ok_or("edit")?);
                bytes.splice(off..off, v);
            },
            "r" => {
                let off = num(parts.first().ok_or("edit")?)?.min(bytes.len());
                let len = num(parts.get(1).ok_or("edit")?)?.min(bytes.len() - off);
                let v = unhex(parts.get(2).ok_or("edit")?);
                bytes.splice(off..off + len, v);
            },
            _ => return Err(format!("unknown edit {}", e)),
        }
    }
    Ok(())
}

// ------------------------------------------------------------------------------------ layout of a valid proof
/// one field of the serialized proof, located by an independent walk over the format
#[derive(Clone, Debug)]
pub struct Fld {
    pub name: String,
    pub off: usize,
    pub len: usize,
    /// length / count / size fields (as opposed to payload and plain scalars)
    pub count: bool,
}

/// a component (byte range) of the serialized proof
#[derive(Clone, Debug)]
pub struct Comp {
    pub name: String,
    pub off: usize,
    pub len: usize,
}

struct Walk<'a> {
    b: &'a [u8],
    pos: usize,
    flds: Vec<Fld>,
    comps: Vec<Comp>,
}

impl<'a> Walk<'a> {
    fn le(&self, off: usize, len: usize) -> Option<usize> {
        if off + len > self.b.len() {
            return None;
        }
        let mut v = 0usize;
        for i in (0..len).rev() {
            v = (v << 8) | self.b[off + i] as usize;
        }
        Some(v)
    }
    fn fld(&mut self, name: &str, len: usize, count: bool) -> Option<usize> {
        let v = self.le(self.pos, len)?;
        self.flds.push(Fld { name: name.to_string(), off: self.pos, len, count });
        self.pos += len;
        Some(v)
    }
    fn skip(&mut self, n: usize) -> Option<()> {
        if self.pos + n > self.b.len() {
            return None;
        }
        self.pos += n;
        Some(())
    }
    /// `<prefix>` length field followed by that many payload bytes; returns (payload offset, length)
    fn block(&mut self, name: &str, prefix: usize) -> Option<(usize, usize)> {
        let n = self.fld(&format!("{}.len", name), prefix, true)?;
        let off = self.pos;
        self.skip(n)?;
        Some((off, n))
    }
    /// node vectors of a batch Merkle proof inside a paths block
    fn paths(&mut self, name: &str, off: usize, len: usize, digest: usize) {
        if len == 0 {
            return;
        }
        let mut p = off;
        let end = off + len;
        self.flds.push(Fld { name: format!("{}.nvec", name), off: p, len: 1, count: true });
        let n = self.b[p] as usize;
        p += 1;
        for k in 0..n {
            if p >= end {
                return;
            }
            // only the first two digest counts are listed as separate fields
            if k < 2 {
                self.flds.push(Fld { name: format!("{}.ndig{}", name, k), off: p, len: 1, count: true });
            }
            let d = self.b[p] as usize;
            p += 1 + d * digest;
        }
    }
    fn queries(&mut self, name: &str, digest: usize) -> Option<()> {
        let start = self.pos;
        self.block(&format!("{}.values", name), 4)?;
        let (po, pl) = self.block(&format!("{}.paths", name), 4)?;
        self.paths(&format!("{}.paths", name), po, pl, digest);
        self.comps.push(Comp { name: name.to_string(), off: start, len: self.pos - start });
        Some(())
    }
}

/// (fields, components) of valid proof bytes; `None` when the bytes do not have the expected structure
pub fn layout(b: &[u8], digest: usize) -> Option<(Vec<Fld>, Vec<Comp>)> {
    let mut w = Walk { b, pos: 0, flds: vec![], comps: vec![] };
    w.fld("ti.main", 1, true)?;
    let aux = w.fld("ti.aux", 1, true)?;
    w.fld("ti.rands", 1, true)?;
    w.fld("ti.loglen", 1, true)?;
    w.block("ti.meta", 2)?;
    w.comps.push(Comp { name: "traceinfo".into(), off: 0, len: w.pos });
    w.block("modulus", 1)?;
    let o = w.pos;
    for n in ["opt.queries", "opt.blowup", "opt.grinding", "opt.ext", "opt.folding", "opt.remdeg"] {
        w.fld(n, 1, true)?;
    }
    w.comps.push(Comp { name: "options".into(), off: o, len: 6 });
    w.comps.push(Comp { name: "context".into(), off: 0, len: w.pos });
    w.fld("uniq", 1, true)?;
    let c = w.pos;
    w.block("commitments", 2)?;
    w.comps.push(Comp { name: "commitments".into(), off: c, len: w.pos - c });
    w.queries("tq0", digest)?;
    if aux > 0 {
        w.queries("tq1", digest)?;
    }
    w.queries("cq", digest)?;
    let o = w.pos;
    let (to, tl) = w.block("ood.trace", 2)?;
    if tl > 0 {
        w.flds.push(Fld { name: "ood.trace.frame".into(), off: to, len: 1, count: true });
    }
    let (lo, ll) = w.block("ood.lagrange", 2)?;
    if ll > 0 {
        w.flds.push(Fld { name: "ood.lagrange.frame".into(), off: lo, len: 1, count: true });
    }
    w.block("ood.evals", 2)?;
    w.comps.push(Comp { name: "ood".into(), off: o, len: w.pos - o });
    let f = w.pos;
    let nl = w.fld("fri.nlayers", 1, true)?;
    for k in 0..nl {
        let s = w.pos;
        w.block(&format!("fri.l{}.values", k), 4)?;
        let (po, pl) = w.block(&format!("fri.l{}.paths", k), 4)?;
        w.paths(&format!("fri.l{}.paths", k), po, pl, digest);
        w.comps.push(Comp { name: format!("fri.l{}", k), off: s, len: w.pos - s });
    }
    w.block("fri.rem", 2)?;
    w.fld("fri.partitions", 1, true)?;
    w.comps.push(Comp { name: "fri".into(), off: f, len: w.pos - f });
    w.fld("nonce", 8, false)?;
    let g = w.pos;
    let some = w.fld("gkr.some", 1, true)?;
    if some == 1 {
        // vint64 length: trailing zeros of the first byte + 1 bytes
        let first = *b.get(w.pos)?;
        let l = (first.trailing_zeros() as usize + 1).min(9);
        let raw = w.fld("gkr.len", l, true)?;
        let n = if l == 9 { raw >> 8 } else { raw >> l };
        w.skip(n)?;
    }
    w.comps.push(Comp { name: "gkr".into(), off: g, len: w.pos - g });
    if w.pos != b.len() {
        return None;
    }
    Some((w.flds, w.comps))
}

// ------------------------------------------------------------------------------------ execution
fn panic_loc(info: &str) -> String {
    // "<file>:<line> <message>" -> "<file relative to the repository>:<line>"
    let loc = info.split(' ').next().unwrap_or("");
    for krate in ["/air/src/", "/prover/src/", "/verifier/src/", "/fri/src/", "/crypto/src/", "/math/src/", "/utils/core/src/"] {
        if let Some(i) = loc.rfind(krate) {
            return loc[i + 1..].to_string();
        }
    }
    if let Some(i) = loc.find("/harness/src/") {
        return format!("harness:{}", &loc[i + "/harness/src/".len()..]);
    }
    if loc.contains("/rustc/") || loc.contains("/library/") {
        // a panic raised inside std (capacity overflow, slice index, ...): keep the file name
        let f = loc.rsplit('/').next().unwrap_or(loc);
        return format!("std:{}", f);
    }
    loc.to_string()
}

struct CaseOut {
    parse: String,
    front: String,
    deep: String,
    fails: Vec<(String, String)>,
}

fn shape_matches(proof_ti: &TraceInfo, desc: &AirDesc) -> bool {
    let (aw, ar) = match &desc.aux {
        None => (0, 0),
        Some(x) => (x.width, x.num_rands),
    };
    proof_ti.main_trace_width() == desc.width
        && proof_ti.aux_segment_width() == aw
        && proof_ti.get_num_aux_segment_rand_elements() == ar
        && proof_ti.length() == desc.trace_len
}

fn short_hex(b: &[u8]) -> String {
    let h = hex(b);
    if h.len() > 6000 {
        format!("{}..({} bytes)", &h[..6000], b.len())
    } else {
        h
    }
}

fn run_case(bytes: &[u8], vb: Option<&Base>, mode: &str) -> CaseOut {
    let mut o = CaseOut { parse: String::new(), front: "-".into(), deep: "-".into(), fails: vec![] };
    let lim = alloc_limit(bytes.len());
    // ---- parse
    let (r, growth) = measured(|| guarded(|| Proof::from_bytes(bytes)));
    if growth > lim {
        o.fails.push(("c06.parse.alloc".into(), format!("parsing {} bytes requested {} bytes of heap (limit {}); input {}", bytes.len(), growth, lim, short_hex(bytes))));
    }
    let proof = match r {
        Err(info) => {
            o.parse = "panic".into();
            o.fails.push((format!("c06.parse.panic@{}", panic_loc(&info)), format!("Proof::from_bytes panicked: {}; input {}", info, short_hex(bytes))));
            return o;
        },
        Ok(Err(DeserializationError::UnexpectedEOF)) => {
            o.parse = "eof".into();
            return o;
        },
        Ok(Err(_)) => {
            o.parse = "err".into();
            return o;
        },
        Ok(Ok(p)) => p,
    };
    o.parse = "ok".into();
    let vb = match vb {
        None => return o,
        Some(v) => v,
    };
    let field = vb.cfg.field;
    let hash = vb.cfg.hash;
    let shape_ok = shape_matches(proof.trace_info(), &vb.desc);
    // ---- the AIR constructor on the proof's trace info and options (what verify() does after the
    // field and options checks); only meaningful when the field matches
    let acc = match mode {
        "p" => AcceptableOptions::MinProvenSecurity(0),
        "o" => AcceptableOptions::OptionSet(vec![vb.opts.to_options()]),
        _ => AcceptableOptions::MinConjecturedSecurity(0),
    };
    let field_ok = proof.context.field_modulus_bytes() == modulus_bytes(field).as_slice();
    let opts_ok = mode != "o" || *proof.options() == vb.opts.to_options();
    // verify() refuses options with at least as many queries as LDE domain points before it builds the AIR
    let queries_ok = proof.options().num_queries() < proof.lde_domain_size();
    if field_ok && opts_ok && queries_ok {
        // the security level is computed before the AIR is built; a panic there must not be
        // attributed to the AIR constructor, so the constructor is only probed when it returns
        let sec = guarded(|| acc.validate::<Blake3_256<f64::BaseElement>>(&proof));
        if matches!(sec, Ok(Ok(()))) {
            let r = guarded(|| dispatch!(field, hash, airnew_g, (&vb.desc, &vb.pubs, &proof)));
            if let Err(info) = r {
                o.front = "airnew".into();
                o.fails.push((
                    "c06.verify.air-new".into(),
                    format!("Air::new panicked on the trace info / options of the proof: {}; input {}", info, short_hex(bytes)),
                ));
                return o;
            }
        }
    }
    // ---- verify
    STAGE.store(0, Ordering::Relaxed);
    let (r, growth) = measured(|| guarded(|| dispatch!(field, hash, verify_g, (&vb.desc, &vb.pubs, proof, &acc))));
    let stage = STAGE.load(Ordering::Relaxed);
    if growth > lim {
        o.fails.push(("c06.verify.alloc".into(), format!("verifying a {}-byte proof requested {} bytes of heap (limit {}); input {}", bytes.len(), growth, lim, short_hex(bytes))));
    }
    match r {
        Ok(Ok(())) => {
            o.front = "pass".into();
            o.deep = "ok".into();
        },
        Ok(Err(e)) => {
            let kind = verifier_error_kind(&e);
            if stage >= 2 {
                o.front = "pass".into();
                o.deep = format!("err:{}", kind);
            } else {
                o.front = match kind.as_str() {
                    "InconsistentBaseField" => "field".into(),
                    "UnsupportedFieldExtension" => "ext".into(),
                    "ProofDeserializationError" => "err".into(),
                    "UnacceptableProofOptions" | "InsufficientConjecturedSecurity" | "InsufficientProvenSecurity" => "opts".into(),
                    k => format!("err:{}", k),
                };
            }
        },
        Err(info) => {
            let loc = panic_loc(&info);
            if stage >= 2 {
                o.front = "pass".into();
                if !shape_ok {
                    // the generic AIR of the harness is used on a trace shape it was not written for
                    o.deep = "air-mismatch".into();
                } else {
                    o.deep = "panic".into();
                    o.fails.push((format!("c06.verify.panic@{}", loc), format!("verify panicked: {}; input {}", info, short_hex(bytes))));
                }
            } else {
                o.front = "panic".into();
                o.fails.push((format!("c06.verify.panic@{}", loc), format!("verify panicked before / while building the channel: {}; input {}", info, short_hex(bytes))));
            }
        },
    }
    o
}

fn into_outcome(c: CaseOut, with_deep: bool) -> Outcome {
    let mut out = c.parse.clone();
    if c.front != "-" {
        out.push(' ');
        out.push_str(&c.front);
    }
    if with_deep && c.deep != "-" {
        out.push(' ');
        out.push_str(&c.deep);
    }
    Outcome { out, fails: c.fails }
}

fn exec_mut(t: &[&str]) -> Outcome {
    // x <label> <cfg> <vcfg> <mode> <edits>
    if t.len() != 6 {
        return Outcome::ok("bad-op");
    }
    let b = match base(t[2]) {
        Ok(b) => b,
        Err(e) => return Outcome::ok("bad-base").fail("c06.harness.base", e),
    };
    let vb = if t[3] == "-" {
        None
    } else {
        match base(t[3]) {
            Ok(b) => Some(b),
            Err(e) => return Outcome::ok("bad-base").fail("c06.harness.base", e),
        }
    };
    let mut bytes = b.bytes.clone();
    if let Err(e) = apply_edits(&mut bytes, t[5]) {
        return Outcome::ok("bad-op");
    }
    into_outcome(run_case(&bytes, vb.as_deref(), t[4]), true)
}

fn exec_raw(t: &[&str]) -> Outcome {
    // x <label> <vcfg> <field> <hash> <e> <mdegs> <adegs> <nma> <naa> <aux width> <lag> <hex>
    if t.len() != 13 {
        return Outcome::ok("bad-op");
    }
    let vb = match base(t[2]) {
        Ok(b) => b,
        Err(e) => return Outcome::ok("bad-base").fail("c06.harness.base", e),
    };
    if air_params(&vb) != t[3..12].join(" ") {
        return Outcome::ok("bad-op");
    }
    let bytes = unhex(t[12]);
    into_outcome(run_case(&bytes, Some(&vb), "c"), false)
}

// ------------------------------------------------------------------------------------ stand-alone FRI
/// an honest FRI proof over the 64-bit field with Blake3_256: (proof bytes, layer commitments, evaluations,
/// query positions)
fn fri_base(log_n: u32, blowup: usize, folding: usize, remdeg: usize, nq: usize) -> (Vec<u8>, Vec<<Blake3_256<f64::BaseElement> as Hasher>::Digest>, Vec<f64::BaseElement>, Vec<usize>) {
    use winter_fri::{DefaultProverChannel, FriOptions, FriProver};
    use winter_utils::Serializable;
    type B = f64::BaseElement;
    type H = Blake3_256<B>;
    let n = 1usize << log_n;
    let options = FriOptions::new(blowup, folding, remdeg);
    let mut p: Vec<B> = (0..n as u64).map(|i| B::new(i * i + 7)).collect();
    p.resize(n * blowup, B::ZERO);
    let tw = winter_math::fft::get_twiddles::<B>(n * blowup);
    winter_math::fft::evaluate_poly(&mut p, &tw);
    let mut channel = DefaultProverChannel::<B, H, DefaultRandomCoin<H>>::new(n * blowup, nq);
    let mut prover = FriProver::new(options);
    prover.build_layers(&mut channel, p.clone());
    let positions = channel.draw_query_positions(0);
    let proof = prover.build_proof(&positions);
    let mut bytes = vec![];
    proof.write_into(&mut bytes);
    (bytes, channel.layer_commitments().to_vec(), p, positions)
}

fn exec_fri(t: &[&str]) -> Outcome {
    // x <label> <log n> <blowup> <folding> <remdeg> <queries> <edits>
    use winter_fri::{DefaultVerifierChannel, FriOptions, FriProof, FriVerifier};
    use winter_utils::Deserializable;
    type B = f64::BaseElement;
    type H = Blake3_256<B>;
    if t.len() != 8 {
        return Outcome::ok("bad-op");
    }
    let nums: Vec<usize> = match t[2..7].iter().map(|x| x.parse::<usize>()).collect::<Result<Vec<_>, _>>() {
        Ok(v) => v,
        Err(_) => return Outcome::ok("bad-op"),
    };
    let (log_n, blowup, folding, remdeg, nq) = (nums[0] as u32, nums[1], nums[2], nums[3], nums[4]);
    let base = match guarded(|| fri_base(log_n, blowup, folding, remdeg, nq)) {
        Ok(b) => b,
        Err(e) => return Outcome::ok("bad-base").fail("c06.harness.base", e),
    };
    let (mut bytes, commitments, evals, positions) = base;
    if apply_edits(&mut bytes, t[7]).is_err() {
        return Outcome::ok("bad-op");
    }
    let n = 1usize << log_n;
    let lim = alloc_limit(bytes.len());
    let mut o = Outcome::default();
    let (r, growth) = measured(|| guarded(|| FriProof::read_from_bytes(&bytes)));
    if growth > lim {
        o = o.fail("c06.fri.parse.alloc", format!("FriProof::read_from_bytes on {} bytes requested {} bytes; input {}", bytes.len(), growth, short_hex(&bytes)));
    }
    let proof = match r {
        Err(info) => {
            o.out = "panic".into();
            return o.fail(format!("c06.fri.parse.panic@{}", panic_loc(&info)), format!("FriProof::read_from_bytes panicked: {}; input {}", info, short_hex(&bytes)));
        },
        Ok(Err(DeserializationError::UnexpectedEOF)) => {
            o.out = "eof".into();
            return o;
        },
        Ok(Err(_)) => {
            o.out = "err".into();
            return o;
        },
        Ok(Ok(p)) => p,
    };
    let options = FriOptions::new(blowup, folding, remdeg);
    let (r, growth) = measured(|| {
        guarded(|| -> Result<String, String> {
            let mut channel = DefaultVerifierChannel::<B, H>::new(proof, commitments.clone(), n * blowup, folding).map_err(|_| "chan-err".to_string())?;
            let mut coin = DefaultRandomCoin::<H>::new(&[]);
            let verifier = FriVerifier::new(&mut channel, &mut coin, options.clone(), n - 1).map_err(|e| format!("new-err:{:?}", e).split('(').next().unwrap_or("").to_string())?;
            let q: Vec<B> = positions.iter().map(|&p| evals[p]).collect();
            verifier.verify(&mut channel, &q, &positions).map_err(|e| format!("err:{:?}", e).split('(').next().unwrap_or("").to_string())?;
            Ok("ok".to_string())
        })
    });
    if growth > lim {
        o = o.fail("c06.fri.verify.alloc", format!("FRI verification of a {}-byte proof requested {} bytes; input {}", bytes.len(), growth, short_hex(&bytes)));
    }
    match r {
        Ok(Ok(s)) => o.out = format!("ok {}", s),
        Ok(Err(s)) => o.out = format!("ok {}", s),
        Err(info) => {
            o.out = "ok panic".into();
            o = o.fail(format!("c06.fri.panic@{}", panic_loc(&info)), format!("FRI verification panicked: {}; input {}", info, short_hex(&bytes)));
        },
    }
    o
}

fn gen_fri(emit: &mut dyn FnMut(String), rng: &mut Rng, tier: Tier) {
    let thorough = tier == Tier::Thorough;
    for (log_n, blowup, folding, remdeg, nq) in [(4u32, 4usize, 2usize, 1usize, 3usize), (5, 2, 4, 1, 2), (4, 8, 4, 3, 4), (6, 2, 2, 7, 2)] {
        let (bytes, _, _, _) = match guarded(|| fri_base(log_n, blowup, folding, remdeg, nq)) {
            Ok(b) => b,
            Err(_) => {
                emit(format!("fri x base-failed {} {} {} {} {} -", log_n, blowup, folding, remdeg, nq));
                continue;
            },
        };
        let pre = format!("{} {} {} {} {}", log_n, blowup, folding, remdeg, nq);
        let n = bytes.len();
        emit(format!("fri x valid {} -", pre));
        // the fields: layer count, value / path block lengths, node-vector counts, remainder length, partitions
        let mut offs: Vec<(usize, usize, String)> = vec![(0, 1, "nlayers".into())];
        let nl = bytes[0] as usize;
        let mut p = 1usize;
        let mut layer_ranges = vec![];
        for k in 0..nl {
            let s = p;
            let vl = u32::from_le_bytes(bytes[p..p + 4].try_into().unwrap()) as usize;
            offs.push((p, 4, "values.len".into()));
            p += 4 + vl;
            let pl = u32::from_le_bytes(bytes[p..p + 4].try_into().unwrap()) as usize;
            offs.push((p, 4, "paths.len".into()));
            if pl > 0 {
                offs.push((p + 4, 1, "paths.nvec".into()));
            }
            if pl > 1 {
                offs.push((p + 5, 1, "paths.ndig".into()));
            }
            p += 4 + pl;
            layer_ranges.push((s, p - s));
        }
        offs.push((p, 2, "rem.len".into()));
        let rl = u16::from_le_bytes(bytes[p..p + 2].try_into().unwrap()) as usize;
        p += 2 + rl;
        offs.push((p, 1, "partitions".into()));
        for (off, len, name) in &offs {
            let mut orig: u128 = 0;
            for i in (0..*len).rev() {
                orig = (orig << 8) | bytes[off + i] as u128;
            }
            let f = Fld { name: name.clone(), off: *off, len: *len, count: true };
            let all = *len == 1;
            for v in field_values(&f, orig, thorough || all && (name == "nlayers" || name == "partitions")) {
                emit(format!("fri x field:{} {} s{}:{}", name, pre, off, le_hex(v, *len)));
            }
        }
        // layers dropped / duplicated with a consistent count
        if let Some((s, l)) = layer_ranges.first() {
            emit(format!("fri x drop-layer {} s0:{:02x},d{}:{}", pre, nl - 1, s, l));
            emit(format!("fri x dup-layer {} s0:{:02x},i{}:{}", pre, nl + 1, s, hex(&bytes[*s..*s + *l])));
            let (ls, ll) = layer_ranges.last().unwrap();
            emit(format!("fri x no-layers {} s0:00,d{}:{}", pre, s, ls + ll - s));
            emit(format!("fri x drop-last-layer {} s0:{:02x},d{}:{}", pre, nl - 1, ls, ll));
        }
        for k in 0..n {
            emit(format!("fri x trunc {} t{}", pre, k));
        }
        emit(format!("fri x append {} a00", pre));
        emit(format!("fri x append {} a{}", pre, hex(&rng.bytes(9))));
        let boundary = [0u8, 1, 0x7f, 0x80, 0xfe, 0xff];
        for off in 0..n {
            if thorough {
                for v in boundary {
                    if v != bytes[off] {
                        emit(format!("fri x byte {} s{}:{:02x}", pre, off, v));
                    }
                }
                for bit in 0..8 {
                    emit(format!("fri x bit {} x{}:{:02x}", pre, off, 1u8 << bit));
                }
            } else {
                emit(format!("fri x byte {} s{}:{:02x}", pre, off, *rng.pick(&boundary)));
                emit(format!("fri x bit {} x{}:{:02x}", pre, off, 1u8 << rng.below(8)));
            }
        }
    }
}

// ------------------------------------------------------------------------------------ generation
fn le_hex(v: u128, len: usize) -> String {
    let mut s = String::new();
    for i in 0..len {
        s.push_str(&format!("{:02x}", (v >> (8 * i)) as u8));
    }
    s
}

struct Gen<'a> {
    emit: &'a mut dyn FnMut(String),
    raw_budget: usize,
}

impl<'a> Gen<'a> {
    /// emit a case; `raw` asks for the model-compared form (literal bytes) while the budget lasts
    fn case(&mut self, label: &str, b: &Base, vcfg: &str, mode: &str, edits: &str, raw: bool) {
        if raw && self.raw_budget > 0 && vcfg == b.cfg.name && mode == "c" {
            let mut bytes = b.bytes.clone();
            if apply_edits(&mut bytes, edits).is_ok() && bytes.len() <= 6000 {
                self.raw_budget -= 1;
                (self.emit)(format!("raw x {} {} {} {}", label, vcfg, air_params(b), hex(&bytes)));
                return;
            }
        }
        (self.emit)(format!("mut x {} {} {} {} {}", label, b.cfg.name, vcfg, mode, if edits.is_empty() { "-" } else { edits }));
    }
}

fn field_values(f: &Fld, orig: u128, thorough: bool) -> Vec<u128> {
    let bits = 8 * f.len as u32;
    let max: u128 = if bits >= 128 { u128::MAX } else { (1u128 << bits) - 1 };
    let mut v = vec![0, 1, 2, max - 1, max, orig.wrapping_add(1) & max, orig.wrapping_sub(1) & max, (orig * 2) & max, orig / 2, max / 2, max / 2 + 1, 3, 63, 64, 65];
    if f.len == 1 {
        if thorough || f.name.starts_with("opt.") || f.name.starts_with("ti.") || f.name == "fri.partitions" || f.name == "uniq" || f.name.ends_with(".frame") {
            v.extend(0..=255u128);
        } else {
            v.extend([7, 8, 16, 31, 32, 33, 56, 57, 127, 128, 129, 200, 254]);
        }
    } else {
        v.extend([255, 256, 257, 65535 & max, 65536 & max, (1u128 << (bits - 1)) - 1, 1u128 << (bits - 1), orig + 8, orig.saturating_sub(8), orig + 32]);
    }
    v.sort_unstable();
    v.dedup();
    v.retain(|x| *x != orig);
    v
}

fn gen_for(g: &mut Gen, rng: &mut Rng, b: &Base, tier: Tier, small: bool, others: &[Arc<Base>]) {
    let name = b.cfg.name;
    let n = b.bytes.len();
    let thorough = tier == Tier::Thorough;
    let (flds, comps) = match layout(&b.bytes, b.cfg.hash.digest_bytes()) {
        Some(x) => x,
        None => {
            (g.emit)(format!("mut x layout-failed {} - c -", name));
            return;
        },
    };
    // 0. the valid proof itself, all three modes, and against the other AIRs
    g.case("valid", b, name, "c", "-", true);
    g.case("valid", b, name, "p", "-", false);
    g.case("valid", b, name, "o", "-", false);
    for ob in others {
        if ob.cfg.name != name && ob.cfg.field == b.cfg.field && ob.cfg.hash == b.cfg.hash {
            g.case("other-air", b, ob.cfg.name, "c", "-", false);
            g.case("other-air", b, ob.cfg.name, "o", "-", false);
        }
    }
    // 1. every length / count / size field and scalar
    for f in &flds {
        let mut orig: u128 = 0;
        for i in (0..f.len).rev() {
            orig = (orig << 8) | b.bytes[f.off + i] as u128;
        }
        for v in field_values(f, orig, thorough) {
            let e = format!("s{}:{}", f.off, le_hex(v, f.len));
            let label = format!("field:{}", f.name.replace(|c: char| c.is_ascii_digit(), "#"));
            g.case(&label, b, name, "c", &e, f.len > 1 || v < 4 || v % 3 == 0 || v > 250);
            if v % 5 == 0 {
                g.case(&label, b, name, if v % 2 == 0 { "p" } else { "o" }, &e, false);
            }
        }
    }
    // 2. truncation at every offset (parse only needs no AIR, but verify is attempted when it parses)
    for k in 0..n {
        g.case("trunc", b, name, "c", &format!("t{}", k), small || k % 7 == 0);
    }
    // 3. trailing garbage
    for k in [1usize, 2, 7, 8, 9, 64, 300] {
        let junk = rng.bytes(k);
        g.case("append", b, name, "c", &format!("a{}", hex(&junk)), true);
        g.case("append", b, name, "c", &format!("a{}", hex(&vec![0u8; k])), true);
        g.case("append", b, name, "c", &format!("a{}", hex(&vec![0xffu8; k])), true);
    }
    // 4. single-byte changes and single-bit flips
    let boundary = [0u8, 1, 0x7f, 0x80, 0xfe, 0xff];
    for off in 0..n {
        let cur = b.bytes[off];
        if thorough && small {
            for v in 0..=255u8 {
                if v != cur {
                    g.case("byte", b, name, "c", &format!("s{}:{:02x}", off, v), false);
                }
            }
        } else if small || thorough {
            for v in boundary {
                if v != cur {
                    g.case("byte", b, name, "c", &format!("s{}:{:02x}", off, v), off % 16 == 0);
                }
            }
            for bit in 0..8 {
                g.case("bit", b, name, "c", &format!("x{}:{:02x}", off, 1u8 << bit), false);
            }
        } else {
            let v = *rng.pick(&boundary);
            if v != cur {
                g.case("byte", b, name, "c", &format!("s{}:{:02x}", off, v), false);
            }
            g.case("byte", b, name, "c", &format!("s{}:{:02x}", off, rng.u64() as u8), false);
            g.case("bit", b, name, "c", &format!("x{}:{:02x}", off, 1u8 << rng.below(8)), false);
        }
    }
    // 5. structure-aware inconsistencies
    let comp = |nm: &str| comps.iter().find(|c| c.name == nm).cloned();
    let fld = |nm: &str| flds.iter().find(|f| f.name == nm).cloned();
    // 5a. fewer / more FRI layers than the options imply (count adjusted so that the bytes still parse)
    if let (Some(nl), Some(l0)) = (fld("fri.nlayers"), comp("fri.l0")) {
        let cnt = b.bytes[nl.off];
        g.case("fri-drop-layer", b, name, "c", &format!("s{}:{:02x},d{}:{}", nl.off, cnt - 1, l0.off, l0.len), true);
        let dup = hex(&b.bytes[l0.off..l0.off + l0.len]);
        g.case("fri-dup-layer", b, name, "c", &format!("s{}:{:02x},i{}:{}", nl.off, cnt + 1, l0.off, dup), true);
        // all layers removed
        let fri = comp("fri").unwrap();
        let last = comps.iter().filter(|c| c.name.starts_with("fri.l")).last().unwrap();
        g.case("fri-no-layers", b, name, "c", &format!("s{}:00,d{}:{}", nl.off, l0.off, last.off + last.len - l0.off), true);
        // and the matching commitments removed as well
        if let Some(cm) = comp("commitments") {
            let d = b.cfg.hash.digest_bytes();
            let newlen = cm.len - 2 - d;
            g.case(
                "fri-drop-layer-and-root",
                b,
                name,
                "c",
                &format!("s{}:{:02x},d{}:{},r{}:{}:{}", nl.off, cnt - 1, l0.off, l0.len, cm.off, cm.len, format!("{}{}", le_hex(newlen as u128, 2), hex(&b.bytes[cm.off + 2..cm.off + 2 + newlen]))),
                true,
            );
        }
    }
    // 5b. OOD frame: frame sizes 0, 1, 3, 255 with a consistent amount of data; a Lagrange frame where
    // none is expected; the Lagrange frame removed
    if let (Some(tl), Some(ll)) = (fld("ood.trace.len"), fld("ood.lagrange.len")) {
        let tlen = (b.bytes[tl.off] as usize) | ((b.bytes[tl.off + 1] as usize) << 8);
        let data = &b.bytes[tl.off + 3..tl.off + 2 + tlen];
        for fs in [0usize, 1, 3, 4, 255] {
            let mut d: Vec<u8> = vec![];
            let per = data.len() / 2;
            for _ in 0..fs.min(8) {
                d.extend_from_slice(&data[..per.min(data.len())]);
            }
            let mut blk = vec![fs as u8];
            blk.extend_from_slice(&d);
            let e = format!("r{}:{}:{}{}", tl.off, 2 + tlen, le_hex(blk.len() as u128, 2), hex(&blk));
            g.case("ood-frame-size", b, name, "c", &e, true);
        }
        let llen = (b.bytes[ll.off] as usize) | ((b.bytes[ll.off + 1] as usize) << 8);
        let esz = if per_elem(b) == 0 { 8 } else { per_elem(b) };
        for k in [1usize, 2, 4, 255] {
            let mut blk = vec![k as u8];
            for i in 0..k {
                blk.extend_from_slice(&data[(i * esz) % data.len().max(1)..][..esz.min(data.len())]);
            }
            let e = format!("r{}:{}:{}{}", ll.off, 2 + llen, le_hex(blk.len() as u128, 2), hex(&blk));
            g.case("ood-lagrange-frame", b, name, "c", &e, true);
        }
        g.case("ood-lagrange-none", b, name, "c", &format!("r{}:{}:010000", ll.off, 2 + llen), true);
        g.case("ood-lagrange-empty", b, name, "c", &format!("r{}:{}:0000", ll.off, 2 + llen), true);
    }
    // 5c. GKR proof: absent / present with element counts up to 2^64 - 1
    if let Some(gk) = comp("gkr") {
        for tail in [
            "00", "01", "0100", "0102", "01030000", "0100ffffffffffffffff", "01000000000000010000", "0100ffffffff00000000", "0100ffffffffffffff7f",
            "010301", "010303", "010305", "010307", "010309", "01030b", "01037f", "0105fe00", "01050201", "010503ff", "01030700", "0105070000",
            "01fe", "01fdff", "0180ffffffffffffff", "0140ffffffffffff", "0104aa", "02", "ff", "0110", "01f0ffffff", "0100000000000000ff00",
        ] {
            g.case("gkr", b, name, "c", &format!("r{}:{}:{}", gk.off, gk.len, tail), true);
        }
    }
    // 5d. components of another valid proof of a different shape
    for ob in others {
        if ob.cfg.name == name {
            continue;
        }
        if let Some((_, oc)) = layout(&ob.bytes, ob.cfg.hash.digest_bytes()) {
            for cn in ["traceinfo", "options", "context", "commitments", "tq0", "cq", "ood", "fri", "gkr"] {
                if let (Some(a), Some(c)) = (comp(cn), oc.iter().find(|c| c.name == cn)) {
                    let e = format!("r{}:{}:{}", a.off, a.len, hex(&ob.bytes[c.off..c.off + c.len]));
                    g.case(&format!("swap:{}", cn), b, name, "c", &e, ob.bytes.len() < 3000 && n < 3000);
                }
            }
        }
    }
    // 5e. pairs of fields set together (inconsistent with the rest, consistent with each other or not)
    let counts: Vec<&Fld> = flds.iter().filter(|f| f.count).collect();
    let pairs = if thorough { 4000 } else { 400 };
    for _ in 0..pairs {
        let f1 = *rng.pick(&counts);
        let f2 = *rng.pick(&counts);
        if f1.off == f2.off {
            continue;
        }
        let pickv = |rng: &mut Rng, f: &Fld| -> u128 {
            let bits = 8 * f.len as u32;
            let max = (1u128 << bits) - 1;
            match rng.below(6) {
                0 => 0,
                1 => 1,
                2 => max,
                3 => max - 1,
                4 => rng.u64() as u128 & max,
                _ => rng.below(16) as u128,
            }
        };
        let e = format!("s{}:{},s{}:{}", f1.off, le_hex(pickv(rng, f1), f1.len), f2.off, le_hex(pickv(rng, f2), f2.len));
        g.case("pair", b, name, *rng.pick(&["c", "c", "c", "p", "o"]), &e, false);
    }
    // 5f. random multi-byte damage: insertions, deletions, overwritten runs
    let multi = if thorough { 3000 } else { 300 };
    for _ in 0..multi {
        let off = rng.below(n as u64) as usize;
        let len = 1 + rng.below(12) as usize;
        let e = match rng.below(4) {
            0 => format!("d{}:{}", off, len),
            1 => format!("i{}:{}", off, hex(&rng.bytes(len))),
            2 => format!("s{}:{}", off, hex(&rng.bytes(len))),
            _ => format!("s{}:{}", off, hex(&vec![*rng.pick(&boundary); len])),
        };
        g.case("multi", b, name, "c", &e, false);
    }
}

/// bytes of one element of the OOD frame (extension degree x base element bytes)
fn per_elem(b: &Base) -> usize {
    let base = match b.cfg.field {
        FieldId::F128 => 16,
        _ => 8,
    };
    base * b.opts.ext as usize
}

pub struct P;

impl Prop for P {
    fn id(&self) -> &'static str {
        "C06"
    }

    fn gen(&self, rng: &mut Rng, tier: Tier, n: usize, emit: &mut dyn FnMut(String)) {
        let mut bases = vec![];
        for c in CFGS {
            match base(c.name) {
                Ok(b) => bases.push(b),
                Err(e) => emit(format!("mut x base-failed {} - c -", c.name)),
            }
        }
        let per_cfg = if tier == Tier::Thorough { 8_000 } else { 1_600 };
        let mut g = Gen { emit, raw_budget: 200 };
        // purely hostile strings: empty, short, random, all-equal bytes
        for k in 0..64usize {
            let z = vec![0u8; k];
            let f = vec![0xffu8; k];
            if let Some(b) = bases.first() {
                let ap = air_params(b);
                (g.emit)(format!("raw x junk {} {} {}", b.cfg.name, ap, hex(&z)));
                (g.emit)(format!("raw x junk {} {} {}", b.cfg.name, ap, hex(&f)));
                (g.emit)(format!("raw x junk {} {} {}", b.cfg.name, ap, hex(&rng.bytes(k))));
            }
        }
        {
            let mut r = rng.fork();
            gen_fri(g.emit, &mut r, tier);
        }
        for (i, b) in bases.iter().enumerate() {
            // the two smallest configurations get the full single-byte treatment
            // (thorough: every proof of at most 1130 bytes, i.e. 8 of the 13)
            let small = b.cfg.name == "sq8rp" || b.cfg.name == "fib62q" || (tier == Tier::Thorough && b.bytes.len() <= 1130);
            let mut r = rng.fork();
            g.raw_budget = per_cfg;
            gen_for(&mut g, &mut r, b, tier, small, &bases);
        }
    }

    fn exec(&self, line: &str) -> Outcome {
        let t: Vec<&str> = line.split(' ').filter(|x| !x.is_empty()).collect();
        match t.first().copied() {
            Some("mut") => exec_mut(&t[1..]),
            Some("raw") => exec_raw(&t[1..]),
            Some("fri") => exec_fri(&t[1..]),
            _ => Outcome::ok("bad-op"),
        }
    }

    fn timeout_ms(&self) -> u64 {
        30_000
    }

    fn mem_cap(&self) -> u64 {
        2 << 30
    }

    fn nontrivial(&self, _line: &str, out: &str) -> bool {
        !out.starts_with("bad-")
    }

    fn class(&self, line: &str, out: &str) -> String {
        let t: Vec<&str> = line.split(' ').collect();
        let label = t.get(2).copied().unwrap_or("?");
        let label = label.split(':').next().unwrap_or(label);
        let o: Vec<&str> = out.split(' ').map(|x| x.split(':').next().unwrap_or(x)).collect();
        format!("{}.{}:{}", t.first().unwrap_or(&"?"), label, o.join("/"))
    }

    fn rule(&self) -> &'static str {
        "distinct op lines that are not bad-op: one byte string (a valid proof of one of the base configurations after the listed edits, or literal bytes) pushed through Proof::from_bytes and, when it parses, verify() against the named AIR and public inputs; judged by outcome class (ok/err vs panic/abort/hang) and by the heap bytes requested"
    }

    fn panic_site(&self, _line: &str) -> Option<String> {
        // panics of the code under test are caught per stage inside exec; anything that escapes is the harness's
        Some("c06.harness.panic".into())
    }
}

fn main() {
    main_for(&P);
}
