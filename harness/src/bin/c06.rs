//! C06: untrusted input — parsing arbitrary bytes as a proof, and verifying any parsed proof, ends
//! with success or an error value: no panic, abort, hang, or allocation out of proportion to the input.
//!
//! Op lines (all randomness comes from the harness `Rng` at generation time; a line is replayable):
//!   mut x <label> <cfg> <vcfg> <mode> <edits>
//!       take the valid proof of base configuration <cfg> (table `CFGS`: field, hasher, options, trace
//!       seed, AirDesc; the proof is regenerated deterministically and cached per process), apply the
//!       byte edits, then `Proof::from_bytes` and, when it parses and <vcfg> is not `-`, `verify`
//!       against the AIR / public inputs of configuration <vcfg> (the same one, or a different AIR).
//!       <mode>: c / p = MinConjecturedSecurity / MinProvenSecurity at level 0; c<N> / p<N> at level N; c= / p= at
//!       exactly the level the (mutated) proof has, c+ / p+ one above it; o = OptionSet([options of vcfg]),
//!       o2 = OptionSet([other options, options of vcfg]), oe = OptionSet([]), om = OptionSet([options of the mutant]).
//!       <edits>: `-` or comma separated  s<off>:<hex> overwrite | x<off>:<hex> xor | t<len> truncate |
//!       a<hex> append | d<off>:<len> delete | i<off>:<hex> insert | r<off>:<len>:<hex> replace range |
//!       f<off>:<len>:<count>:<byte> replace a range by <count> copies of a byte.
//!       output `<parse> <front> <deep>` (the Lean driver answers `-`: exploration only).
//!   raw x <label> <vcfg> <field> <hasher> <e> <main degs> <aux degs> <#main asserts> <#aux asserts> <aux width of the AIR> <lagrange 0|1> <hex>
//!       the same on literal bytes, mode c; the AIR parameters on the line are those of <vcfg> (checked)
//!       and are what the Lean model (Winter/Model/Parse.lean) needs: output `<parse>[ <front>]`, compared
//!       with the model.
//!
//!   refv <field> <hasher> <q.b.g.x.f.r> <trace seed> <AirDesc line> <acceptable> <public inputs> <label> <hex>
//!       (the format of the C03 harness) the same literal bytes as a sample of the `raw` lines of the base
//!       configurations the EXECUTABLE REFERENCE VERIFIER of Winter/Model/RefVerifier.lean is instantiated for (64-bit
//!       field with Rp64_256 / RpJive64_256, 62-bit field with Rp62_248; AIRs with or without auxiliary segment, with
//!       or without Lagrange kernel column / GKR proof): `Proof::from_bytes` + the real `verify` under MinConjecturedSecurity(0); output =
//!       verdict kind `ok | parse-err | err:<VerifierError kind> | panic`, compared with `refVerify` on the same
//!       bytes (the theorem `verify_whole_safe_partial` of WinterProofs/C06.lean is about that function).  The
//!       bytes are judged by the oracle on the `raw` line next to it; this line only ties the model to the code.
//!
//!   fri x <label> <log2 n> <blowup> <folding> <remainder degree> <queries> <edits>
//!       the stand-alone FRI entry points on an honest FRI proof (64-bit field, Blake3_256) after the edits:
//!       `FriProof::read_from_bytes`, `DefaultVerifierChannel::new`, `FriVerifier::new`, `verify`;
//!       output `<parse>[ <chan-err | new-err:.. | err:.. | ok | panic>]` (not modelled).
//!
//!   frih x <label> <log2 domain> <folding> <layers> <commitments> <rows>
//!       a hand-assembled FriProof (zero elements, empty node lists) with that many layers through
//!       `DefaultVerifierChannel::new` / `FriVerifier::new` with that many layer commitments: schedules no honest prover
//!       can produce (more layers than the domain can be folded; log2(domain) not a multiple of log2(folding)).
//!   mrk x <label> <hasher> <log2 leaves> <i.j.k opened indexes> <depth delta> <edits>
//!       the stand-alone batch Merkle entry points on the serialized nodes of an honest opening after the edits:
//!       `BatchMerkleProof::deserialize` (depth = log2 leaves + delta), `get_root`, `MerkleTree::verify_batch`,
//!       `into_paths`; output `eof | err | ok <root|other|e> <acc|rej> <pathsN|e>` (not modelled).
//!
//! Outcome classes
//!   parse: ok | err | eof | panic
//!   front (everything `verify` does up to and including `VerifierChannel::new`; the stage is observed
//!          through a wrapping RandomCoin: the coin is created right before the channel is built and is
//!          first reseeded right after): pass | field (InconsistentBaseField) | ext
//!          (UnsupportedFieldExtension) | opts (options / security level refused) | err
//!          (ProofDeserializationError) | airnew (the AIR constructor panicked on the proof's trace info /
//!          options: `Air::new` cannot return an error) | panic
//!   deep (the rest of `verify`): ok | err:<kind> | panic | air-mismatch (a panic while the generic AIR of
//!          the harness is used on a trace shape it was not written for — not attributed to the library)
//!
//! Oracle = the property itself: every outcome must be ok / err (no panic, abort, hang), and the bytes
//! requested from the allocator while parsing / verifying (peak growth, counted by a `#[global_allocator]`)
//! must stay below 64 MiB and below 1000 x |input| + 1 MiB.  Every byte string is parsed four more ways - `Proof::read_from`
//! over `std::io::Cursor` and over `ReadAdapter` with 1-, 3-, 300-byte and whole-input reads - under the same judgement,
//! and all readers must agree on the outcome kind (`c06.parse.reader-diff`). Workers run under a 2 GiB address-space cap,
//! so runaway allocation aborts the worker (outcome `abort`), not the machine.
#![allow(dead_code, unused_variables, unused_imports, unused_mut, clippy::too_many_arguments)]
use std::alloc::{GlobalAlloc, Layout, System};
use std::collections::HashMap;
use std::sync::atomic::{AtomicU32, AtomicUsize, Ordering};
use std::sync::{Arc, Mutex, OnceLock};

use wf_harness::core::*;
use wf_harness::genair::*;
use winter_air::{proof::Proof, Air, FieldExtension, ProofOptions, TraceInfo};
use winter_crypto::{
    hashers::{Blake3_192, Blake3_256, Rp62_248, Rp64_256, RpJive64_256, Sha3_256},
    DefaultRandomCoin, ElementHasher, Hasher, RandomCoin, RandomCoinError,
};
use winter_math::{
    fields::{f128, f62, f64},
    FieldElement, StarkField,
};
use winter_utils::DeserializationError;
use winter_verifier::{AcceptableOptions, VerifierError};

// ------------------------------------------------------------------------------------ allocator
struct Counting;
static CUR: AtomicUsize = AtomicUsize::new(0);
static PEAK: AtomicUsize = AtomicUsize::new(0);
static MAXREQ: AtomicUsize = AtomicUsize::new(0);

#[inline]
fn note_add(n: usize) {
    let c = CUR.fetch_add(n, Ordering::Relaxed) + n;
    PEAK.fetch_max(c, Ordering::Relaxed);
    MAXREQ.fetch_max(n, Ordering::Relaxed);
}

unsafe impl GlobalAlloc for Counting {
    unsafe fn alloc(&self, l: Layout) -> *mut u8 {
        MAXREQ.fetch_max(l.size(), Ordering::Relaxed);
        let p = System.alloc(l);
        if !p.is_null() {
            note_add(l.size());
        }
        p
    }
    unsafe fn alloc_zeroed(&self, l: Layout) -> *mut u8 {
        MAXREQ.fetch_max(l.size(), Ordering::Relaxed);
        let p = System.alloc_zeroed(l);
        if !p.is_null() {
            note_add(l.size());
        }
        p
    }
    unsafe fn dealloc(&self, p: *mut u8, l: Layout) {
        System.dealloc(p, l);
        CUR.fetch_sub(l.size(), Ordering::Relaxed);
    }
    unsafe fn realloc(&self, p: *mut u8, l: Layout, new: usize) -> *mut u8 {
        MAXREQ.fetch_max(new, Ordering::Relaxed);
        let q = System.realloc(p, l, new);
        if !q.is_null() {
            if new >= l.size() {
                note_add(new - l.size());
            } else {
                CUR.fetch_sub(l.size() - new, Ordering::Relaxed);
            }
        }
        q
    }
}

#[global_allocator]
static GLOBAL: Counting = Counting;

/// run `f`, return its result and the peak growth of live heap bytes while it ran
fn measured<T>(f: impl FnOnce() -> T) -> (T, usize) {
    let base = CUR.load(Ordering::Relaxed);
    PEAK.store(base, Ordering::Relaxed);
    let r = f();
    let peak = PEAK.load(Ordering::Relaxed);
    (r, peak.saturating_sub(base))
}

const ALLOC_ABS: usize = 64 << 20;
fn alloc_limit(input_len: usize) -> usize {
    ALLOC_ABS.min(1000 * input_len + (1 << 20))
}

// ------------------------------------------------------------------------------------ stage coin
/// 0: before the coin exists (field check, options check, context -> elements, Air::new);
/// 1: coin created (VerifierChannel::new runs next); 2: first reseed (the channel was built)
static STAGE: AtomicU32 = AtomicU32::new(0);

struct StageCoin<H: ElementHasher>(DefaultRandomCoin<H>);

impl<B: StarkField, H: ElementHasher<BaseField = B>> RandomCoin for StageCoin<H> {
    type BaseField = B;
    type Hasher = H;
    fn new(seed: &[B]) -> Self {
        STAGE.store(1, Ordering::Relaxed);
        StageCoin(DefaultRandomCoin::new(seed))
    }
    fn reseed(&mut self, data: H::Digest) {
        STAGE.store(2, Ordering::Relaxed);
        self.0.reseed(data)
    }
    fn check_leading_zeros(&self, value: u64) -> u32 {
        self.0.check_leading_zeros(value)
    }
    fn draw<E: FieldElement<BaseField = B>>(&mut self) -> Result<E, RandomCoinError> {
        self.0.draw()
    }
    fn draw_integers(&mut self, num_values: usize, domain_size: usize, nonce: u64) -> Result<Vec<usize>, RandomCoinError> {
        self.0.draw_integers(num_values, domain_size, nonce)
    }
}

/// Coin of a NON-STANDARD PROVER (used only to manufacture structurally valid proofs the honest prover
/// cannot produce): draws elements wider than a digest from several base-field draws, and draws
/// `num_values >= domain_size` integers by repeating positions instead of asserting.
struct LenientCoin<H: ElementHasher>(DefaultRandomCoin<H>);

impl<B: StarkField, H: ElementHasher<BaseField = B>> RandomCoin for LenientCoin<H> {
    type BaseField = B;
    type Hasher = H;
    fn new(seed: &[B]) -> Self {
        LenientCoin(DefaultRandomCoin::new(seed))
    }
    fn reseed(&mut self, data: H::Digest) {
        self.0.reseed(data)
    }
    fn check_leading_zeros(&self, value: u64) -> u32 {
        self.0.check_leading_zeros(value)
    }
    fn draw<E: FieldElement<BaseField = B>>(&mut self) -> Result<E, RandomCoinError> {
        match self.0.draw::<E>() {
            Ok(e) => Ok(e),
            Err(_) => {
                let mut v: Vec<B> = vec![];
                for _ in 0..E::EXTENSION_DEGREE {
                    v.push(self.0.draw::<B>()?);
                }
                Ok(E::slice_from_base_elements(&v)[0])
            },
        }
    }
    fn draw_integers(&mut self, num_values: usize, domain_size: usize, nonce: u64) -> Result<Vec<usize>, RandomCoinError> {
        if num_values < domain_size {
            return self.0.draw_integers(num_values, domain_size, nonce);
        }
        let mut v = self.0.draw_integers(domain_size - 1, domain_size, nonce)?;
        let k = v.len();
        while v.len() < num_values {
            v.push(v[v.len() % k]);
        }
        Ok(v)
    }
}

fn prove_lenient_g<B: GField, H: ElementHasher<BaseField = B> + Send + Sync>(
    desc: &Arc<AirDesc>,
    trace: &TraceData,
    opts: &OptSpec,
) -> Result<Proof, winter_prover::ProverError> {
    use winter_prover::Prover;
    let prover = GenericProver::<B, H, LenientCoin<H>>::new(desc.clone(), opts.to_options());
    prover.prove(GenTrace::<B>::new(desc, trace))
}

macro_rules! dispatch {
    ($field:expr, $hash:expr, $f:ident, ($($args:expr),*)) => {
        match ($field, $hash) {
            (FieldId::F62, HashId::Blake3_256) => $f::<f62::BaseElement, Blake3_256<f62::BaseElement>>($($args),*),
            (FieldId::F62, HashId::Blake3_192) => $f::<f62::BaseElement, Blake3_192<f62::BaseElement>>($($args),*),
            (FieldId::F62, HashId::Sha3_256) => $f::<f62::BaseElement, Sha3_256<f62::BaseElement>>($($args),*),
            (FieldId::F62, HashId::Rp62_248) => $f::<f62::BaseElement, Rp62_248>($($args),*),
            (FieldId::F64, HashId::Blake3_256) => $f::<f64::BaseElement, Blake3_256<f64::BaseElement>>($($args),*),
            (FieldId::F64, HashId::Blake3_192) => $f::<f64::BaseElement, Blake3_192<f64::BaseElement>>($($args),*),
            (FieldId::F64, HashId::Sha3_256) => $f::<f64::BaseElement, Sha3_256<f64::BaseElement>>($($args),*),
            (FieldId::F64, HashId::Rp64_256) => $f::<f64::BaseElement, Rp64_256>($($args),*),
            (FieldId::F64, HashId::RpJive64_256) => $f::<f64::BaseElement, RpJive64_256>($($args),*),
            (FieldId::F128, HashId::Blake3_256) => $f::<f128::BaseElement, Blake3_256<f128::BaseElement>>($($args),*),
            (FieldId::F128, HashId::Blake3_192) => $f::<f128::BaseElement, Blake3_192<f128::BaseElement>>($($args),*),
            (FieldId::F128, HashId::Sha3_256) => $f::<f128::BaseElement, Sha3_256<f128::BaseElement>>($($args),*),
            (f, h) => panic!("hasher {} cannot be used with field {}", h.name(), f.name()),
        }
    };
}

fn airnew_g<B: GField, H: ElementHasher<BaseField = B> + Send + Sync>(desc: &Arc<AirDesc>, pubs: &[u128], proof: &Proof) -> usize {
    let values: Vec<B> = pubs.iter().map(|v| B::from_word(*v % B::MOD)).collect();
    let air = GenericAir::<B>::new(proof.trace_info().clone(), GenPub { desc: desc.clone(), values }, proof.options().clone());
    air.context().num_constraint_composition_columns()
}

fn verify_g<B: GField, H: ElementHasher<BaseField = B> + Send + Sync>(
    desc: &Arc<AirDesc>,
    pubs: &[u128],
    proof: Proof,
    acceptable: &AcceptableOptions,
) -> Result<(), VerifierError> {
    let values: Vec<B> = pubs.iter().map(|v| B::from_word(*v % B::MOD)).collect();
    winter_verifier::verify::<GenericAir<B>, H, StageCoin<H>>(proof, GenPub { desc: desc.clone(), values }, acceptable)
}

fn sec_g<B: GField, H: ElementHasher<BaseField = B> + Send + Sync>(proof: &Proof, conjectured: bool) -> u32 {
    proof.security_level::<H>(conjectured)
}

fn validate_g<B: GField, H: ElementHasher<BaseField = B> + Send + Sync>(acc: &AcceptableOptions, proof: &Proof) -> bool {
    acc.validate::<H>(proof).is_ok()
}

/// the acceptance policy named by <mode> (see the head of the file); `Err` = the security level of the
/// mutant could not be computed (it panicked: reported by the caller through verify() itself)
fn acceptable(mode: &str, vb: &Base, proof: &Proof) -> AcceptableOptions {
    let level = |conj: bool, rest: &str| -> u32 {
        match rest {
            "" => 0,
            "=" | "+" => {
                let l = guarded(|| dispatch!(vb.cfg.field, vb.cfg.hash, sec_g, (proof, conj))).unwrap_or(0);
                if rest == "+" {
                    l.saturating_add(1)
                } else {
                    l
                }
            },
            n => n.parse::<u32>().unwrap_or(0),
        }
    };
    match mode {
        "o" => AcceptableOptions::OptionSet(vec![vb.opts.to_options()]),
        "o2" => AcceptableOptions::OptionSet(vec![ProofOptions::new(7, 16, 3, FieldExtension::Quadratic, 8, 15), vb.opts.to_options()]),
        "oe" => AcceptableOptions::OptionSet(vec![]),
        "om" => AcceptableOptions::OptionSet(vec![proof.options().clone()]),
        m if m.starts_with('p') => AcceptableOptions::MinProvenSecurity(level(false, &m[1..])),
        m if m.starts_with('c') => AcceptableOptions::MinConjecturedSecurity(level(true, &m[1..])),
        _ => AcceptableOptions::MinConjecturedSecurity(0),
    }
}

/// the policies every mutant family is run under (the first one is the model-compared one)
const POLICIES: &[&str] = &["c", "p", "o", "om", "c=", "c+", "p=", "p+", "c96", "p64", "c4294967295", "p4294967295", "o2", "oe"];

fn ncols_g<B: GField, H: ElementHasher<BaseField = B> + Send + Sync>(desc: &Arc<AirDesc>, pubs: &[u128], ti: &TraceInfo, opts: &ProofOptions) -> usize {
    let values: Vec<B> = pubs.iter().map(|v| B::from_word(*v % B::MOD)).collect();
    let air = GenericAir::<B>::new(ti.clone(), GenPub { desc: desc.clone(), values }, opts.clone());
    air.context().num_constraint_composition_columns()
}

fn modulus_bytes(field: FieldId) -> Vec<u8> {
    match field {
        FieldId::F62 => f62::BaseElement::get_modulus_le_bytes(),
        FieldId::F64 => f64::BaseElement::get_modulus_le_bytes(),
        FieldId::F128 => f128::BaseElement::get_modulus_le_bytes(),
    }
}

// ------------------------------------------------------------------------------------ base configurations
pub struct Cfg {
    pub name: &'static str,
    pub field: FieldId,
    pub hash: HashId,
    pub opts: &'static str,
    pub seed: u64,
    pub desc: &'static str,
    /// the proof comes from the non-standard prover (LenientCoin): the honest prover refuses the configuration
    pub lenient: bool,
}

const FIB8: &str = "w=2;l=8;e=1;j=0;p=;g=S1:c1,S1:+c0c1;t=1:-n0c1,1:-n1+c0c1;a=s0.0,s1.7";
const FIB8B: &str = "w=2;l=8;e=1;j=0;p=;g=S1:c1,S1:+c0*k2c1;t=1:-n0c1,1:-n1+c0*k2c1;a=s0.0,s1.7";
const FIB16: &str = "w=2;l=16;e=1;j=0;p=;g=S1:c1,S1:+c0c1;t=1:-n0c1,1:-n1+c0c1;a=s0.0,s1.15";
const SQ8: &str = "w=1;l=8;e=2;j=1;p=;g=S?:+^2c0k5;t=2:-n0+^2c0k5;a=s0.0";
const SQ8E1: &str = "w=1;l=8;e=1;j=0;p=;g=S?:+^2c0k5;t=2:-n0+^2c0k5;a=s0.0";
const CUBE8: &str = "w=1;l=8;e=1;j=0;p=;g=S?:+^3c0k5;t=3:-n0+^3c0k5;a=s0.0,s0.7";
const POW5: &str = "w=1;l=8;e=1;j=0;p=;g=S?:+^5c0k5;t=5:-n0+^5c0k5;a=s0.0";
const AUX16: &str = "w=2;l=16;e=7;j=0;p=;g=S?:+^2c0k2,S?:+^2c1k4;t=2:-n0+^2c0k2,2:-n1+^2c1k4;a=q1.0.16;x=2.2.0;h=F:+*r1c1r0,Ar1:/*a1++c0r0a0+c1r0;u=1:-a0+*r1c1r0,2:-*b1+c1r0*a1++c0r0a0;b=q0.0.16=+*r1w0r0,s1.0=r1";
const AUXW: &str = "w=1;l=16;e=1;j=0;p=;g=S?:+^2c0k3;t=2:-n0+^2c0k3;a=s0.0;x=3.2.0;h=F:+c0r0,F:*c0r1,F:+*c0r0r1;u=1:-a0+c0r0,1:-a1*c0r1,1:-a2+*c0r0r1;b=s0.0=+v0r0";
const LAG8: &str = "w=4;l=8;e=1;j=0;p=;g=S?:+*c0c1k3,S?:+c1c0,S?:+*c2c3k3,S?:+c3c2;t=2:-n0+*c0c1k3,1:-n1+c1c0,2:-n2+*c2c3k3,1:-n3+c3c2;a=s0.0,s3.7;x=2.1.1;h=Ak1:*a0+c0r0;u=2:-b0*a0+c0r0;b=s0.0=k1";
const AUXP8: &str = "w=2;l=8;e=1;j=0;p=;g=S?:+c0k7,R;t=1:-n0+c0k7;a=s0.0;x=1.1.0;h=Ak1:*a0+c0r0;u=2:-b0*a0+c0r0;b=s0.0=k1";
const LAGN16: &str = "w=1;l=16;e=1;j=0;p=;g=S?:+c0k7;t=1:-n0+c0k7;a=s0.0;x=2.0.1;h=Ak1:*a0+c0k3;u=2:-b0*a0+c0k3;b=s0.0=k1";
const PER32: &str = "w=2;l=32;e=1;j=0;p=1.2.3.4|5.7;g=S?:+*c0p0p1,S1:+c1c0;t=1.4.2:-n0+*c0p0p1,1:-n1+c1c0;a=s0.0,s1.31";

pub const CFGS: &[Cfg] = &[
    Cfg { name: "fib8", field: FieldId::F64, hash: HashId::Blake3_256, opts: "2.4.0.1.2.1", seed: 1, desc: FIB8, lenient: false },
    Cfg { name: "fib8b", field: FieldId::F64, hash: HashId::Blake3_256, opts: "2.4.0.1.2.1", seed: 2, desc: FIB8B, lenient: false },
    Cfg { name: "sq8rp", field: FieldId::F64, hash: HashId::Rp64_256, opts: "3.4.0.1.4.3", seed: 3, desc: SQ8, lenient: false },
    Cfg { name: "sq8q", field: FieldId::F64, hash: HashId::Sha3_256, opts: "2.4.2.2.2.0", seed: 4, desc: SQ8E1, lenient: false },
    Cfg { name: "jive3", field: FieldId::F64, hash: HashId::RpJive64_256, opts: "2.4.0.3.2.1", seed: 5, desc: FIB8, lenient: false },
    Cfg { name: "pow5", field: FieldId::F64, hash: HashId::Blake3_256, opts: "2.8.0.1.2.3", seed: 11, desc: POW5, lenient: false },
    Cfg { name: "cube128", field: FieldId::F128, hash: HashId::Blake3_192, opts: "2.8.0.1.4.1", seed: 6, desc: CUBE8, lenient: false },
    Cfg { name: "aux16", field: FieldId::F128, hash: HashId::Sha3_256, opts: "3.8.0.2.8.1", seed: 424292, desc: AUX16, lenient: false },
    Cfg { name: "auxw", field: FieldId::F64, hash: HashId::Sha3_256, opts: "3.2.1.2.2.3", seed: 13, desc: AUXW, lenient: false },
    Cfg { name: "lag8", field: FieldId::F64, hash: HashId::Blake3_256, opts: "2.4.0.1.4.3", seed: 12, desc: LAG8, lenient: false },
    Cfg { name: "fib62", field: FieldId::F62, hash: HashId::Rp62_248, opts: "2.4.0.1.2.1", seed: 7, desc: FIB16, lenient: false },
    Cfg { name: "fib62q", field: FieldId::F62, hash: HashId::Blake3_256, opts: "1.2.3.2.2.0", seed: 8, desc: FIB8, lenient: false },
    // auxiliary segments under the hashers the reference verifier is instantiated for
    Cfg { name: "auxrp", field: FieldId::F64, hash: HashId::Rp64_256, opts: "3.2.1.2.2.3", seed: 14, desc: AUXW, lenient: false },
    Cfg { name: "aux62", field: FieldId::F62, hash: HashId::Rp62_248, opts: "2.2.0.1.4.1", seed: 15, desc: AUXP8, lenient: false },
    // Lagrange kernel columns (GKR path of verify) under Rescue hashers: with one auxiliary random element, and with none
    Cfg { name: "lagrp", field: FieldId::F64, hash: HashId::Rp64_256, opts: "2.4.0.1.4.3", seed: 16, desc: LAG8, lenient: false },
    Cfg { name: "lagjv", field: FieldId::F64, hash: HashId::RpJive64_256, opts: "2.2.0.2.2.3", seed: 17, desc: LAGN16, lenient: false },
    // proofs only a non-standard prover can make
    Cfg { name: "q255", field: FieldId::F64, hash: HashId::Blake3_256, opts: "255.2.0.1.2.0", seed: 10, desc: FIB8, lenient: true },
    Cfg { name: "per32", field: FieldId::F64, hash: HashId::Blake3_192, opts: "4.2.0.1.4.7", seed: 9, desc: PER32, lenient: false },
];

pub struct Base {
    pub cfg: &'static Cfg,
    pub desc: Arc<AirDesc>,
    pub opts: OptSpec,
    pub pubs: Vec<u128>,
    pub bytes: Vec<u8>,
}

fn find_cfg(name: &str) -> Option<&'static Cfg> {
    CFGS.iter().find(|c| c.name == name)
}

fn build_base(cfg: &'static Cfg) -> Result<Base, String> {
    let desc = Arc::new(AirDesc::parse(cfg.desc)?);
    let opts = OptSpec::parse(cfg.opts).ok_or("options")?;
    let trace = gen_trace(&desc, cfg.field, cfg.seed);
    let pubs = pub_inputs(&desc, cfg.field, &trace);
    let proof = guarded(|| {
        if cfg.lenient {
            dispatch!(cfg.field, cfg.hash, prove_lenient_g, (&desc, &trace, &opts))
        } else {
            prove(&desc, &trace, cfg.field, &opts, cfg.hash)
        }
    })
        .map_err(|e| format!("prover panicked: {}", e))?
        .map_err(|e| format!("prover error: {:?}", e))?;
    let bytes = proof.to_bytes();
    Ok(Base { cfg, desc, opts, pubs, bytes })
}

static BASES: OnceLock<Mutex<HashMap<&'static str, Result<Arc<Base>, String>>>> = OnceLock::new();

fn base(name: &str) -> Result<Arc<Base>, String> {
    let cfg = find_cfg(name).ok_or_else(|| format!("unknown configuration {}", name))?;
    let m = BASES.get_or_init(|| Mutex::new(HashMap::new()));
    let mut g = m.lock().unwrap();
    g.entry(cfg.name).or_insert_with(|| build_base(cfg).map(Arc::new)).clone()
}

/// the AIR parameters the Lean model needs, as they appear on `raw` lines
fn air_params(b: &Base) -> String {
    fn degs(cs: &[Constraint]) -> String {
        if cs.is_empty() {
            return "-".into();
        }
        cs.iter()
            .map(|c| {
                let mut s = c.degree.base.to_string();
                for cy in &c.degree.cycles {
                    s.push_str(&format!(".{}", cy));
                }
                s
            })
            .collect::<Vec<_>>()
            .join(",")
    }
    let d = &b.desc;
    let (adegs, naa, aw, lag) = match &d.aux {
        None => ("-".to_string(), 0, 0, 0),
        Some(x) => (degs(&x.constraints), x.assertions.len(), x.width, x.lagrange as usize),
    };
    format!(
        "{} {} {} {} {} {} {} {} {}",
        b.cfg.field.name(),
        b.cfg.hash.name(),
        d.exemptions,
        degs(&d.constraints),
        adegs,
        d.assertions.len(),
        naa,
        aw,
        lag
    )
}

// ------------------------------------------------------------------------------------ edits
fn apply_edits(bytes: &mut Vec<u8>, edits: &str) -> Result<(), String> {
    if edits == "-" || edits.is_empty() {
        return Ok(());
    }
    for e in edits.split(',') {
        let (k, rest) = e.split_at(1);
        let parts: Vec<&str> = rest.split(':').collect();
        let num = |s: &str| s.parse::<usize>().map_err(|_| format!("bad number in edit {}", e));
        match k {
            "s" | "x" => {
                let off = num(parts.first().ok_or("edit")?)?;
                let v = unhex(parts.get(1).ok_or("edit")?);
                for (i, b) in v.iter().enumerate() {
                    if off + i < bytes.len() {
                        if k == "s" {
                            bytes[off + i] = *b;
                        } else {
                            bytes[off + i] ^= *b;
                        }
                    }
                }
            },
            "t" => {
                let n = num(parts.first().ok_or("edit")?)?;
                bytes.truncate(n);
            },
            "a" => bytes.extend_from_slice(&unhex(parts.first().ok_or("edit")?)),
            "d" => {
                let off = num(parts.first().ok_or("edit")?)?.min(bytes.len());
                let len = num(parts.get(1).ok_or("edit")?)?.min(bytes.len() - off);
                bytes.drain(off..off + len);
            },
            "i" => {
                let off = num(parts.first().ok_or("edit")?)?.min(bytes.len());
                let v = unhex(parts.get(1).ok_or("edit")?);
                bytes.splice(off..off, v);
            },
            "r" => {
                let off = num(parts.first().ok_or("edit")?)?.min(bytes.len());
                let len = num(parts.get(1).ok_or("edit")?)?.min(bytes.len() - off);
                let v = unhex(parts.get(2).ok_or("edit")?);
                bytes.splice(off..off + len, v);
            },
            "f" => {
                // f<off>:<len>:<count>:<byte>: replace a range by <count> copies of one byte
                let off = num(parts.first().ok_or("edit")?)?.min(bytes.len());
                let len = num(parts.get(1).ok_or("edit")?)?.min(bytes.len() - off);
                let cnt = num(parts.get(2).ok_or("edit")?)?;
                let b = unhex(parts.get(3).ok_or("edit")?);
                let v = vec![*b.first().unwrap_or(&0); cnt.min(1 << 24)];
                bytes.splice(off..off + len, v);
            },
            _ => return Err(format!("unknown edit {}", e)),
        }
    }
    Ok(())
}

// ------------------------------------------------------------------------------------ layout of a valid proof
/// one field of the serialized proof, located by an independent walk over the format
#[derive(Clone, Debug)]
pub struct Fld {
    pub name: String,
    pub off: usize,
    pub len: usize,
    /// length / count / size fields (as opposed to payload and plain scalars)
    pub count: bool,
}

/// a component (byte range) of the serialized proof
#[derive(Clone, Debug)]
pub struct Comp {
    pub name: String,
    pub off: usize,
    pub len: usize,
}

struct Walk<'a> {
    b: &'a [u8],
    pos: usize,
    flds: Vec<Fld>,
    comps: Vec<Comp>,
}

impl<'a> Walk<'a> {
    fn le(&self, off: usize, len: usize) -> Option<usize> {
        if off + len > self.b.len() {
            return None;
        }
        let mut v = 0usize;
        for i in (0..len).rev() {
            v = (v << 8) | self.b[off + i] as usize;
        }
        Some(v)
    }
    fn fld(&mut self, name: &str, len: usize, count: bool) -> Option<usize> {
        let v = self.le(self.pos, len)?;
        self.flds.push(Fld { name: name.to_string(), off: self.pos, len, count });
        self.pos += len;
        Some(v)
    }
    fn skip(&mut self, n: usize) -> Option<()> {
        if self.pos + n > self.b.len() {
            return None;
        }
        self.pos += n;
        Some(())
    }
    /// `<prefix>` length field followed by that many payload bytes; returns (payload offset, length)
    fn block(&mut self, name: &str, prefix: usize) -> Option<(usize, usize)> {
        let n = self.fld(&format!("{}.len", name), prefix, true)?;
        let off = self.pos;
        self.skip(n)?;
        Some((off, n))
    }
    /// node vectors of a batch Merkle proof inside a paths block
    fn paths(&mut self, name: &str, off: usize, len: usize, digest: usize) {
        if len == 0 {
            return;
        }
        let mut p = off;
        let end = off + len;
        self.flds.push(Fld { name: format!("{}.nvec", name), off: p, len: 1, count: true });
        let n = self.b[p] as usize;
        p += 1;
        for k in 0..n {
            if p >= end {
                return;
            }
            // only the first two digest counts are listed as separate fields
            if k < 2 {
                self.flds.push(Fld { name: format!("{}.ndig{}", name, k), off: p, len: 1, count: true });
            }
            let d = self.b[p] as usize;
            p += 1 + d * digest;
        }
    }
    fn queries(&mut self, name: &str, digest: usize) -> Option<()> {
        let start = self.pos;
        self.block(&format!("{}.values", name), 4)?;
        let (po, pl) = self.block(&format!("{}.paths", name), 4)?;
        self.paths(&format!("{}.paths", name), po, pl, digest);
        self.comps.push(Comp { name: name.to_string(), off: start, len: self.pos - start });
        Some(())
    }
}

/// (fields, components) of valid proof bytes; `None` when the bytes do not have the expected structure
pub fn layout(b: &[u8], digest: usize) -> Option<(Vec<Fld>, Vec<Comp>)> {
    let mut w = Walk { b, pos: 0, flds: vec![], comps: vec![] };
    w.fld("ti.main", 1, true)?;
    let aux = w.fld("ti.aux", 1, true)?;
    w.fld("ti.rands", 1, true)?;
    w.fld("ti.loglen", 1, true)?;
    w.block("ti.meta", 2)?;
    w.comps.push(Comp { name: "traceinfo".into(), off: 0, len: w.pos });
    w.block("modulus", 1)?;
    let o = w.pos;
    for n in ["opt.queries", "opt.blowup", "opt.grinding", "opt.ext", "opt.folding", "opt.remdeg"] {
        w.fld(n, 1, true)?;
    }
    w.comps.push(Comp { name: "options".into(), off: o, len: 6 });
    w.comps.push(Comp { name: "context".into(), off: 0, len: w.pos });
    w.fld("uniq", 1, true)?;
    let c = w.pos;
    w.block("commitments", 2)?;
    w.comps.push(Comp { name: "commitments".into(), off: c, len: w.pos - c });
    w.queries("tq0", digest)?;
    if aux > 0 {
        w.queries("tq1", digest)?;
    }
    w.queries("cq", digest)?;
    let o = w.pos;
    let (to, tl) = w.block("ood.trace", 2)?;
    if tl > 0 {
        w.flds.push(Fld { name: "ood.trace.frame".into(), off: to, len: 1, count: true });
    }
    let (lo, ll) = w.block("ood.lagrange", 2)?;
    if ll > 0 {
        w.flds.push(Fld { name: "ood.lagrange.frame".into(), off: lo, len: 1, count: true });
    }
    w.block("ood.evals", 2)?;
    w.comps.push(Comp { name: "ood".into(), off: o, len: w.pos - o });
    let f = w.pos;
    let nl = w.fld("fri.nlayers", 1, true)?;
    for k in 0..nl {
        let s = w.pos;
        w.block(&format!("fri.l{}.values", k), 4)?;
        let (po, pl) = w.block(&format!("fri.l{}.paths", k), 4)?;
        w.paths(&format!("fri.l{}.paths", k), po, pl, digest);
        w.comps.push(Comp { name: format!("fri.l{}", k), off: s, len: w.pos - s });
    }
    w.block("fri.rem", 2)?;
    w.fld("fri.partitions", 1, true)?;
    w.comps.push(Comp { name: "fri".into(), off: f, len: w.pos - f });
    w.fld("nonce", 8, false)?;
    let g = w.pos;
    let some = w.fld("gkr.some", 1, true)?;
    if some == 1 {
        // vint64 length: trailing zeros of the first byte + 1 bytes
        let first = *b.get(w.pos)?;
        let l = (first.trailing_zeros() as usize + 1).min(9);
        let raw = w.fld("gkr.len", l, true)?;
        let n = if l == 9 { raw >> 8 } else { raw >> l };
        w.skip(n)?;
    }
    w.comps.push(Comp { name: "gkr".into(), off: g, len: w.pos - g });
    if w.pos != b.len() {
        return None;
    }
    Some((w.flds, w.comps))
}

// ------------------------------------------------------------------------------------ structured proofs
/// a length-prefixed pair of blocks (`Queries`, `FriProofLayer`)
#[derive(Clone, Debug, PartialEq)]
pub struct QS {
    pub values: Vec<u8>,
    pub paths: Vec<u8>,
}

/// a serialized proof taken apart by an independent walk over the format; `to_bytes` writes every length /
/// count prefix from the actual contents, so structural mutants stay parseable
#[derive(Clone, Debug, PartialEq)]
pub struct SP {
    pub ti: [u8; 4],
    pub meta: Vec<u8>,
    pub modulus: Vec<u8>,
    pub opts: [u8; 6],
    pub uniq: u8,
    pub commitments: Vec<u8>,
    pub tq: Vec<QS>,
    pub cq: QS,
    pub ood_trace: Vec<u8>,
    pub ood_lagrange: Vec<u8>,
    pub ood_evals: Vec<u8>,
    pub layers: Vec<QS>,
    pub remainder: Vec<u8>,
    pub partitions: u8,
    pub nonce: [u8; 8],
    pub gkr: Option<Vec<u8>>,
}

/// vint64 encoding of `write_usize` (written from the format description, not from the library)
pub fn vint(v: u64) -> Vec<u8> {
    let bits = 64 - v.leading_zeros() as usize;
    let len = if bits <= 7 { 1 } else if bits > 56 { 9 } else { (bits + 6) / 7 };
    if len == 9 {
        let mut o = vec![0u8];
        o.extend_from_slice(&v.to_le_bytes());
        return o;
    }
    let x: u64 = ((v << 1) | 1) << (len - 1);
    x.to_le_bytes()[..len].to_vec()
}

struct Rd<'a> {
    b: &'a [u8],
    p: usize,
}

impl<'a> Rd<'a> {
    fn take(&mut self, n: usize) -> Option<&'a [u8]> {
        if self.p + n > self.b.len() {
            return None;
        }
        let r = &self.b[self.p..self.p + n];
        self.p += n;
        Some(r)
    }
    fn le(&mut self, n: usize) -> Option<usize> {
        let s = self.take(n)?;
        let mut v = 0usize;
        for i in (0..n).rev() {
            v = (v << 8) | s[i] as usize;
        }
        Some(v)
    }
    fn block(&mut self, prefix: usize) -> Option<Vec<u8>> {
        let n = self.le(prefix)?;
        Some(self.take(n)?.to_vec())
    }
    fn qs(&mut self) -> Option<QS> {
        Some(QS { values: self.block(4)?, paths: self.block(4)? })
    }
}

impl SP {
    pub fn parse(b: &[u8]) -> Option<SP> {
        let mut r = Rd { b, p: 0 };
        let ti: [u8; 4] = r.take(4)?.try_into().ok()?;
        let meta = r.block(2)?;
        let modulus = r.block(1)?;
        let opts: [u8; 6] = r.take(6)?.try_into().ok()?;
        let uniq = r.le(1)? as u8;
        let commitments = r.block(2)?;
        let mut tq = vec![r.qs()?];
        if ti[1] > 0 {
            tq.push(r.qs()?);
        }
        let cq = r.qs()?;
        let ood_trace = r.block(2)?;
        let ood_lagrange = r.block(2)?;
        let ood_evals = r.block(2)?;
        let nl = r.le(1)?;
        let mut layers = vec![];
        for _ in 0..nl {
            layers.push(r.qs()?);
        }
        let remainder = r.block(2)?;
        let partitions = r.le(1)? as u8;
        let nonce: [u8; 8] = r.take(8)?.try_into().ok()?;
        let gkr = match r.le(1)? {
            0 => None,
            _ => {
                let first = *b.get(r.p)?;
                let l = (first.trailing_zeros() as usize + 1).min(9);
                let raw = r.le(l)?;
                let n = if l == 9 { raw >> 8 } else { raw >> l };
                Some(r.take(n)?.to_vec())
            },
        };
        if r.p != b.len() {
            return None;
        }
        Some(SP { ti, meta, modulus, opts, uniq, commitments, tq, cq, ood_trace, ood_lagrange, ood_evals, layers, remainder, partitions, nonce, gkr })
    }

    pub fn to_bytes(&self) -> Vec<u8> {
        fn blk(o: &mut Vec<u8>, prefix: usize, d: &[u8]) {
            o.extend_from_slice(&(d.len() as u64).to_le_bytes()[..prefix]);
            o.extend_from_slice(d);
        }
        let mut o = vec![];
        o.extend_from_slice(&self.ti);
        blk(&mut o, 2, &self.meta);
        blk(&mut o, 1, &self.modulus);
        o.extend_from_slice(&self.opts);
        o.push(self.uniq);
        blk(&mut o, 2, &self.commitments);
        for q in &self.tq {
            blk(&mut o, 4, &q.values);
            blk(&mut o, 4, &q.paths);
        }
        blk(&mut o, 4, &self.cq.values);
        blk(&mut o, 4, &self.cq.paths);
        blk(&mut o, 2, &self.ood_trace);
        blk(&mut o, 2, &self.ood_lagrange);
        blk(&mut o, 2, &self.ood_evals);
        o.push(self.layers.len() as u8);
        for q in &self.layers {
            blk(&mut o, 4, &q.values);
            blk(&mut o, 4, &q.paths);
        }
        blk(&mut o, 2, &self.remainder);
        o.push(self.partitions);
        o.extend_from_slice(&self.nonce);
        match &self.gkr {
            None => o.push(0),
            Some(g) => {
                o.push(1);
                o.extend_from_slice(&vint(g.len() as u64));
                o.extend_from_slice(g);
            },
        }
        o
    }
}

/// node vectors of a serialized batch Merkle proof
pub fn nodes_parse(paths: &[u8], digest: usize) -> Option<Vec<Vec<Vec<u8>>>> {
    let mut r = Rd { b: paths, p: 0 };
    let n = r.le(1)?;
    let mut out = vec![];
    for _ in 0..n {
        let k = r.le(1)?;
        let mut v = vec![];
        for _ in 0..k {
            v.push(r.take(digest)?.to_vec());
        }
        out.push(v);
    }
    if r.p != paths.len() {
        return None;
    }
    Some(out)
}

pub fn nodes_bytes(nodes: &[Vec<Vec<u8>>]) -> Vec<u8> {
    let mut o = vec![nodes.len() as u8];
    for v in nodes {
        o.push(v.len() as u8);
        for d in v {
            o.extend_from_slice(d);
        }
    }
    o
}

/// structural mutants of the node vectors of one batch Merkle proof, every count consistent with the data
pub fn nodes_mutants(paths: &[u8], digest: usize) -> Vec<(String, Vec<u8>)> {
    let mut out: Vec<(String, Vec<u8>)> = vec![];
    let nodes = match nodes_parse(paths, digest) {
        Some(n) => n,
        None => return out,
    };
    let nv = nodes.len();
    let mut ks: Vec<usize> = vec![0, 1, 2, nv / 2, nv.saturating_sub(2), nv.saturating_sub(1)];
    ks.retain(|k| *k < nv);
    ks.sort_unstable();
    ks.dedup();
    for &k in &ks {
        if !nodes[k].is_empty() {
            let mut m = nodes.clone();
            m[k].pop();
            out.push((format!("vec{}-drop-last-node", if k + 1 == nv { "L".into() } else { k.to_string() }), nodes_bytes(&m)));
            let mut m = nodes.clone();
            m[k].remove(0);
            out.push(("vec-drop-first-node".into(), nodes_bytes(&m)));
            let mut m = nodes.clone();
            let d = m[k][0].clone();
            m[k].push(d);
            out.push(("vec-extra-node".into(), nodes_bytes(&m)));
            let mut m = nodes.clone();
            m[k].clear();
            out.push(("vec-emptied".into(), nodes_bytes(&m)));
            if nodes[k].len() > 1 {
                let mut m = nodes.clone();
                m[k].swap(0, 1);
                out.push(("vec-swap-nodes".into(), nodes_bytes(&m)));
            }
            let mut m = nodes.clone();
            let l = m[k][0].len();
            m[k][0] = vec![0u8; l];
            out.push(("node-zero".into(), nodes_bytes(&m)));
        }
        let mut m = nodes.clone();
        m.remove(k);
        out.push(("drop-vec".into(), nodes_bytes(&m)));
        let mut m = nodes.clone();
        m.insert(k, vec![]);
        out.push(("extra-empty-vec".into(), nodes_bytes(&m)));
    }
    if nv > 1 {
        let mut m = nodes.clone();
        m.swap(0, nv - 1);
        out.push(("swap-vecs".into(), nodes_bytes(&m)));
    }
    out.push(("no-vecs".into(), vec![0u8]));
    out.push(("all-vecs-empty".into(), nodes_bytes(&vec![vec![]; nv])));
    let mut m = nodes.clone();
    m.push(nodes.last().cloned().unwrap_or_default());
    out.push(("dup-last-vec".into(), nodes_bytes(&m)));
    out
}

/// structural mutants of a block of fixed-size records (rows of elements, digests): record dropped / duplicated /
/// swapped, patterns, values at the modulus boundary
pub fn records_mutants(data: &[u8], rec: usize, elem: usize, modulus: u128) -> Vec<(String, Vec<u8>)> {
    let mut out: Vec<(String, Vec<u8>)> = vec![];
    if rec == 0 || data.len() < rec {
        return out;
    }
    let n = data.len() / rec;
    out.push(("drop-last-record".into(), data[..data.len() - rec].to_vec()));
    out.push(("drop-first-record".into(), data[rec..].to_vec()));
    let mut m = data.to_vec();
    m.extend_from_slice(&data[data.len() - rec..]);
    out.push(("dup-last-record".into(), m));
    if n > 1 {
        let mut m = data.to_vec();
        for i in 0..rec {
            m.swap(i, (n - 1) * rec + i);
        }
        out.push(("swap-records".into(), m));
        let mut m = data.to_vec();
        for k in 1..n {
            for i in 0..rec {
                m[k * rec + i] = data[i];
            }
        }
        out.push(("all-records-equal".into(), m));
    }
    out.push(("drop-last-byte".into(), data[..data.len() - 1].to_vec()));
    out.push(("extra-byte".into(), [data, &[0u8][..]].concat()));
    if elem > 0 && elem <= rec {
        out.push(("drop-last-element".into(), data[..data.len() - elem].to_vec()));
        out.push(("extra-element".into(), [data, &vec![0u8; elem][..]].concat()));
    }
    out.push(("all-zero".into(), vec![0u8; data.len()]));
    out.push(("all-ff".into(), vec![0xffu8; data.len()]));
    let alt: Vec<u8> = (0..data.len()).map(|i| if (i / elem.max(1)) % 2 == 0 { data[i % rec.min(data.len())] } else { 0 }).collect();
    out.push(("alternating-zero".into(), alt));
    let mut m = vec![0u8; data.len()];
    m[..elem.min(data.len())].copy_from_slice(&data[..elem.min(data.len())]);
    out.push(("single-nonzero".into(), m));
    out.push(("empty".into(), vec![]));
    // values at the modulus boundary in the first, an interior and the last element
    if elem == 8 || elem == 16 {
        let ne = data.len() / elem;
        for (nm, v) in [("M-1", modulus - 1), ("M", modulus), ("M+1", modulus + 1), ("maxword", if elem == 8 { u64::MAX as u128 } else { u128::MAX }), ("one", 1), ("2^32", 1u128 << 32), ("2^63", 1u128 << 63)] {
            for pos in [0usize, ne / 2, ne.saturating_sub(1)] {
                let mut m = data.to_vec();
                m[pos * elem..(pos + 1) * elem].copy_from_slice(&v.to_le_bytes()[..elem]);
                out.push((format!("element={}", nm), m));
            }
        }
    }
    out
}

// ------------------------------------------------------------------------------------ execution
fn panic_loc(info: &str) -> String {
    // "<file>:<line> <message>" -> "<file relative to the repository>:<line>"
    let loc = info.split(' ').next().unwrap_or("");
    for krate in ["/air/src/", "/prover/src/", "/verifier/src/", "/fri/src/", "/crypto/src/", "/math/src/", "/utils/core/src/"] {
        if let Some(i) = loc.rfind(krate) {
            return loc[i + 1..].to_string();
        }
    }
    if let Some(i) = loc.find("/harness/src/") {
        return format!("harness:{}", &loc[i + "/harness/src/".len()..]);
    }
    if loc.contains("/rustc/") || loc.contains("/library/") {
        // a panic raised inside std (capacity overflow, slice index, ...): keep the file name
        let f = loc.rsplit('/').next().unwrap_or(loc);
        return format!("std:{}", f);
    }
    loc.to_string()
}

struct CaseOut {
    parse: String,
    front: String,
    deep: String,
    fails: Vec<(String, String)>,
}

fn shape_matches(proof_ti: &TraceInfo, desc: &AirDesc) -> bool {
    let (aw, ar) = match &desc.aux {
        None => (0, 0),
        Some(x) => (x.width, x.num_rands),
    };
    proof_ti.main_trace_width() == desc.width
        && proof_ti.aux_segment_width() == aw
        && proof_ti.get_num_aux_segment_rand_elements() == ar
        && proof_ti.length() == desc.trace_len
}

fn short_hex(b: &[u8]) -> String {
    let h = hex(b);
    if h.len() > 6000 {
        format!("{}..({} bytes)", &h[..6000], b.len())
    } else {
        h
    }
}

fn run_case(bytes: &[u8], vb: Option<&Base>, mode: &str) -> CaseOut {
    let mut o = CaseOut { parse: String::new(), front: "-".into(), deep: "-".into(), fails: vec![] };
    let lim = alloc_limit(bytes.len());
    // ---- parse
    let (r, growth) = measured(|| guarded(|| Proof::from_bytes(bytes)));
    if growth > lim {
        o.fails.push(("c06.parse.alloc".into(), format!("parsing {} bytes requested {} bytes of heap (limit {}); input {}", bytes.len(), growth, lim, short_hex(bytes))));
    }
    let proof = match r {
        Err(info) => {
            o.parse = "panic".into();
            o.fails.push((format!("c06.parse.panic@{}", panic_loc(&info)), format!("Proof::from_bytes panicked: {}; input {}", info, short_hex(bytes))));
            return o;
        },
        Ok(Err(DeserializationError::UnexpectedEOF)) => {
            o.parse = "eof".into();
            return o;
        },
        Ok(Err(_)) => {
            o.parse = "err".into();
            return o;
        },
        Ok(Ok(p)) => p,
    };
    o.parse = "ok".into();
    let vb = match vb {
        None => return o,
        Some(v) => v,
    };
    let field = vb.cfg.field;
    let hash = vb.cfg.hash;
    let shape_ok = shape_matches(proof.trace_info(), &vb.desc);
    // ---- the AIR constructor on the proof's trace info and options (what verify() does after the
    // field and options checks); only meaningful when the field matches
    let acc = acceptable(mode, vb, &proof);
    let field_ok = proof.context.field_modulus_bytes() == modulus_bytes(field).as_slice();
    // verify() refuses options with at least as many queries as LDE domain points before it builds the AIR
    let queries_ok = proof.options().num_queries() < proof.lde_domain_size();
    if field_ok && queries_ok {
        // the acceptance policy is applied before the AIR is built; a panic there must not be attributed to
        // the AIR constructor, so the constructor is only probed when the policy accepts
        let sec = guarded(|| dispatch!(field, hash, validate_g, (&acc, &proof)));
        if matches!(sec, Ok(true)) {
            let r = guarded(|| dispatch!(field, hash, airnew_g, (&vb.desc, &vb.pubs, &proof)));
            if let Err(info) = r {
                o.front = "airnew".into();
                o.fails.push((
                    "c06.verify.air-new".into(),
                    format!("Air::new panicked on the trace info / options of the proof: {}; input {}", info, short_hex(bytes)),
                ));
                return o;
            }
        }
    }
    // ---- verify
    STAGE.store(0, Ordering::Relaxed);
    let (r, growth) = measured(|| guarded(|| dispatch!(field, hash, verify_g, (&vb.desc, &vb.pubs, proof, &acc))));
    let stage = STAGE.load(Ordering::Relaxed);
    if growth > lim {
        o.fails.push(("c06.verify.alloc".into(), format!("verifying a {}-byte proof requested {} bytes of heap (limit {}); input {}", bytes.len(), growth, lim, short_hex(bytes))));
    }
    match r {
        Ok(Ok(())) => {
            o.front = "pass".into();
            o.deep = "ok".into();
        },
        Ok(Err(e)) => {
            let kind = verifier_error_kind(&e);
            if stage >= 2 {
                o.front = "pass".into();
                o.deep = format!("err:{}", kind);
            } else {
                o.front = match kind.as_str() {
                    "InconsistentBaseField" => "field".into(),
                    "UnsupportedFieldExtension" => "ext".into(),
                    "ProofDeserializationError" => "err".into(),
                    "UnacceptableProofOptions" | "InsufficientConjecturedSecurity" | "InsufficientProvenSecurity" => "opts".into(),
                    k => format!("err:{}", k),
                };
            }
        },
        Err(info) => {
            let loc = panic_loc(&info);
            if stage >= 2 {
                o.front = "pass".into();
                if !shape_ok {
                    // the generic AIR of the harness is used on a trace shape it was not written for
                    o.deep = "air-mismatch".into();
                } else {
                    o.deep = "panic".into();
                    o.fails.push((format!("c06.verify.panic@{}", loc), format!("verify panicked: {}; input {}", info, short_hex(bytes))));
                }
            } else {
                o.front = "panic".into();
                o.fails.push((format!("c06.verify.panic@{}", loc), format!("verify panicked before / while building the channel: {}; input {}", info, short_hex(bytes))));
            }
        },
    }
    o
}

fn into_outcome(c: CaseOut, with_deep: bool) -> Outcome {
    let mut out = c.parse.clone();
    if c.front != "-" {
        out.push(' ');
        out.push_str(&c.front);
    }
    if with_deep && c.deep != "-" {
        out.push(' ');
        out.push_str(&c.deep);
    }
    Outcome { out, fails: c.fails }
}

fn exec_mut(t: &[&str]) -> Outcome {
    // x <label> <cfg> <vcfg> <mode> <edits>
    if t.len() != 6 {
        return Outcome::ok("bad-op");
    }
    let b = match base(t[2]) {
        Ok(b) => b,
        Err(e) => return Outcome::ok("bad-base").fail("c06.harness.base", e),
    };
    let vb = if t[3] == "-" {
        None
    } else {
        match base(t[3]) {
            Ok(b) => Some(b),
            Err(e) => return Outcome::ok("bad-base").fail("c06.harness.base", e),
        }
    };
    let mut bytes = b.bytes.clone();
    if let Err(e) = apply_edits(&mut bytes, t[5]) {
        return Outcome::ok("bad-op");
    }
    let mut c = run_case(&bytes, vb.as_deref(), t[4]);
    // (HARDENING 8, 6) a sample of the cases additionally goes through the other `ByteReader`s the library offers
    // (`std::io::Cursor`, `ReadAdapter` over 1-, 3- and 300-byte reads), and is followed by a valid proof in the
    // same process (nothing a failed case leaves behind may change the next verdict)
    // (HARDENING 8, 6; extended after seeded change C06-9, which only misbehaved behind `ReadAdapter`) EVERY case
    // additionally goes through the other `ByteReader`s the library offers: `Proof::read_from` over `std::io::Cursor`
    // and over `ReadAdapter` fed by 1-, 3-, 300-byte and whole-input reads - same panic / allocation judgement, and the
    // outcome kind must be that of `Proof::from_bytes` (`SliceReader`)
    let h = bytes.iter().fold(0xcbf29ce484222325u64, |h, b| (h ^ *b as u64).wrapping_mul(0x100000001b3));
    other_readers(&bytes, &mut c);
    if h % 64 == 1 && !b.cfg.lenient {
        let again = run_case(&b.bytes, Some(&b), "c");
        if again.parse != "ok" || again.front != "pass" || again.deep != "ok" {
            c.fails.push(("c06.state".into(), format!("the valid proof of {} is judged {} {} {} after this case", b.cfg.name, again.parse, again.front, again.deep)));
        }
    }
    into_outcome(c, true)
}

struct Chunked<'a> {
    data: &'a [u8],
    pos: usize,
    chunk: usize,
}

impl<'a> std::io::Read for Chunked<'a> {
    fn read(&mut self, buf: &mut [u8]) -> std::io::Result<usize> {
        let n = self.chunk.min(buf.len()).min(self.data.len() - self.pos);
        buf[..n].copy_from_slice(&self.data[self.pos..self.pos + n]);
        self.pos += n;
        Ok(n)
    }
}

fn class_of(r: &Result<Result<Proof, DeserializationError>, String>) -> String {
    match r {
        Err(_) => "panic".into(),
        Ok(Err(DeserializationError::UnexpectedEOF)) => "eof".into(),
        Ok(Err(_)) => "err".into(),
        Ok(Ok(_)) => "ok".into(),
    }
}

fn other_readers(bytes: &[u8], c: &mut CaseOut) {
    use winter_utils::{Deserializable, ReadAdapter};
    let lim = alloc_limit(bytes.len());
    let mut run = |name: &str, f: &mut dyn FnMut() -> Result<Proof, DeserializationError>| {
        let (r, growth) = measured(|| guarded(|| f()));
        let cl = class_of(&r);
        if let Err(info) = &r {
            c.fails.push((format!("c06.parse.panic@{}", panic_loc(info)), format!("Proof::read_from over {} panicked: {}; input {}", name, info, short_hex(bytes))));
        } else if cl != c.parse {
            c.fails.push(("c06.parse.reader-diff".into(), format!("Proof::read_from over {} ends in {}, over SliceReader in {}; input {}", name, cl, c.parse, short_hex(bytes))));
        }
        if growth > lim {
            c.fails.push(("c06.parse.alloc".into(), format!("parsing {} bytes over {} requested {} bytes of heap; input {}", bytes.len(), name, growth, short_hex(bytes))));
        }
    };
    run("Cursor", &mut || Proof::read_from(&mut std::io::Cursor::new(bytes)));
    // byte-at-a-time, small, medium and whole-input reads of the underlying `std::io::Read`
    for chunk in [1usize, 3, 300, bytes.len().max(1)] {
        run(&format!("ReadAdapter({})", chunk), &mut || {
            let mut src = Chunked { data: bytes, pos: 0, chunk };
            let mut ad = ReadAdapter::new(&mut src);
            Proof::read_from(&mut ad)
        });
    }
}

fn exec_raw(t: &[&str]) -> Outcome {
    // x <label> <vcfg> <field> <hash> <e> <mdegs> <adegs> <nma> <naa> <aux width> <lag> <hex>
    if t.len() != 13 {
        return Outcome::ok("bad-op");
    }
    let vb = match base(t[2]) {
        Ok(b) => b,
        Err(e) => return Outcome::ok("bad-base").fail("c06.harness.base", e),
    };
    if air_params(&vb) != t[3..12].join(" ") {
        return Outcome::ok("bad-op");
    }
    let bytes = unhex(t[12]);
    let mut c = run_case(&bytes, Some(&vb), "c");
    other_readers(&bytes, &mut c);
    into_outcome(c, false)
}

// ------------------------------------------------------------------------------------ refv (reference verifier tie)
/// is the executable reference verifier instantiated for this base configuration
fn refv_modelled(b: &Base) -> bool {
    matches!(b.cfg.hash, HashId::Rp64_256 | HashId::RpJive64_256 | HashId::Rp62_248) && !b.cfg.lenient
}

fn refv_line(label: &str, b: &Base, bytes: &[u8]) -> String {
    let pubs = if b.pubs.is_empty() { "-".to_string() } else { b.pubs.iter().map(|v| v.to_string()).collect::<Vec<_>>().join(",") };
    format!(
        "refv {} {} {} {} {} mc:0 {} {} {}",
        b.cfg.field.name(),
        b.cfg.hash.name(),
        b.cfg.opts,
        b.cfg.seed,
        b.cfg.desc,
        pubs,
        label,
        if bytes.is_empty() { "-".to_string() } else { hex(bytes) }
    )
}

/// verdict class of a verifier error: the variant name; FRI errors keep the inner variant and its layer depth
fn refv_kind(e: &VerifierError) -> String {
    use winter_fri::VerifierError as F;
    match e {
        VerifierError::FriVerificationFailed(f) => match f {
            F::InvalidLayerFolding(d) => format!("err:FriVerificationFailed.InvalidLayerFolding:{}", d),
            F::DegreeTruncation(_, _, d) => format!("err:FriVerificationFailed.DegreeTruncation:{}", d),
            _ => format!("err:{}", verifier_error_kind(e)),
        },
        _ => format!("err:{}", verifier_error_kind(e)),
    }
}

/// `refv <field> <hasher> <opts> <seed> <desc> <acceptable> <pubs> <label> <hex>`: everything is on the line
fn exec_refv(t: &[&str]) -> Outcome {
    if t.len() != 9 {
        return Outcome::ok("bad-op");
    }
    let (field, hash, desc) = match (FieldId::parse(t[0]), HashId::parse(t[1]), AirDesc::parse(t[4])) {
        (Some(f), Some(h), Ok(d)) if h.compatible(f) => (f, h, Arc::new(d)),
        _ => return Outcome::ok("bad-op"),
    };
    let acceptable = match t[5].strip_prefix("mc:").and_then(|r| r.parse::<u32>().ok()) {
        Some(m) => AcceptableOptions::MinConjecturedSecurity(m),
        None => return Outcome::ok("bad-op"),
    };
    let pubs: Vec<u128> = if t[6] == "-" {
        vec![]
    } else {
        match t[6].split(',').map(|x| x.parse::<u128>().ok()).collect::<Option<Vec<_>>>() {
            Some(p) => p,
            None => return Outcome::ok("bad-op"),
        }
    };
    if t[8] != "-" && (t[8].len() % 2 != 0 || !t[8].bytes().all(|b| b.is_ascii_hexdigit())) {
        return Outcome::ok("bad-op");
    }
    let bytes = if t[8] == "-" { vec![] } else { unhex(t[8]) };
    let proof = match guarded(|| Proof::from_bytes(&bytes)) {
        Err(_) => return Outcome::ok("panic"),
        Ok(Err(_)) => return Outcome::ok("parse-err"),
        Ok(Ok(p)) => p,
    };
    match guarded(|| verify(&desc, field, hash, &pubs, proof, &acceptable)) {
        Ok(Ok(())) => Outcome::ok("ok"),
        Ok(Err(e)) => Outcome::ok(refv_kind(&e)),
        Err(_) => Outcome::ok("panic"),
    }
}

// ------------------------------------------------------------------------------------ stand-alone FRI
/// an honest FRI proof over the 64-bit field with Blake3_256: (proof bytes, layer commitments, evaluations,
/// query positions)
fn fri_base(log_n: u32, blowup: usize, folding: usize, remdeg: usize, nq: usize) -> (Vec<u8>, Vec<<Blake3_256<f64::BaseElement> as Hasher>::Digest>, Vec<f64::BaseElement>, Vec<usize>) {
    use winter_fri::{DefaultProverChannel, FriOptions, FriProver};
    use winter_utils::Serializable;
    type B = f64::BaseElement;
    type H = Blake3_256<B>;
    let n = 1usize << log_n;
    let options = FriOptions::new(blowup, folding, remdeg);
    let mut p: Vec<B> = (0..n as u64).map(|i| B::new(i * i + 7)).collect();
    p.resize(n * blowup, B::ZERO);
    let tw = winter_math::fft::get_twiddles::<B>(n * blowup);
    winter_math::fft::evaluate_poly(&mut p, &tw);
    let mut channel = DefaultProverChannel::<B, H, DefaultRandomCoin<H>>::new(n * blowup, nq);
    let mut prover = FriProver::new(options);
    prover.build_layers(&mut channel, p.clone());
    let positions = channel.draw_query_positions(0);
    let proof = prover.build_proof(&positions);
    let mut bytes = vec![];
    proof.write_into(&mut bytes);
    (bytes, channel.layer_commitments().to_vec(), p, positions)
}

fn exec_fri(t: &[&str]) -> Outcome {
    // x <label> <log n> <blowup> <folding> <remdeg> <queries> <edits>
    use winter_fri::{DefaultVerifierChannel, FriOptions, FriProof, FriVerifier};
    use winter_utils::Deserializable;
    type B = f64::BaseElement;
    type H = Blake3_256<B>;
    if t.len() != 8 {
        return Outcome::ok("bad-op");
    }
    let nums: Vec<usize> = match t[2..7].iter().map(|x| x.parse::<usize>()).collect::<Result<Vec<_>, _>>() {
        Ok(v) => v,
        Err(_) => return Outcome::ok("bad-op"),
    };
    let (log_n, blowup, folding, remdeg, nq) = (nums[0] as u32, nums[1], nums[2], nums[3], nums[4]);
    let base = match guarded(|| fri_base(log_n, blowup, folding, remdeg, nq)) {
        Ok(b) => b,
        Err(e) => return Outcome::ok("bad-base").fail("c06.harness.base", e),
    };
    let (mut bytes, commitments, evals, positions) = base;
    if apply_edits(&mut bytes, t[7]).is_err() {
        return Outcome::ok("bad-op");
    }
    let n = 1usize << log_n;
    let lim = alloc_limit(bytes.len());
    let mut o = Outcome::default();
    let (r, growth) = measured(|| guarded(|| FriProof::read_from_bytes(&bytes)));
    if growth > lim {
        o = o.fail("c06.fri.parse.alloc", format!("FriProof::read_from_bytes on {} bytes requested {} bytes; input {}", bytes.len(), growth, short_hex(&bytes)));
    }
    let proof = match r {
        Err(info) => {
            o.out = "panic".into();
            return o.fail(format!("c06.fri.parse.panic@{}", panic_loc(&info)), format!("FriProof::read_from_bytes panicked: {}; input {}", info, short_hex(&bytes)));
        },
        Ok(Err(DeserializationError::UnexpectedEOF)) => {
            o.out = "eof".into();
            return o;
        },
        Ok(Err(_)) => {
            o.out = "err".into();
            return o;
        },
        Ok(Ok(p)) => p,
    };
    let options = FriOptions::new(blowup, folding, remdeg);
    let (r, growth) = measured(|| {
        guarded(|| -> Result<String, String> {
            let mut channel = DefaultVerifierChannel::<B, H>::new(proof, commitments.clone(), n * blowup, folding).map_err(|_| "chan-err".to_string())?;
            let mut coin = DefaultRandomCoin::<H>::new(&[]);
            let verifier = FriVerifier::new(&mut channel, &mut coin, options.clone(), n - 1).map_err(|e| format!("new-err:{:?}", e).split('(').next().unwrap_or("").to_string())?;
            let q: Vec<B> = positions.iter().map(|&p| evals[p]).collect();
            verifier.verify(&mut channel, &q, &positions).map_err(|e| format!("err:{:?}", e).split('(').next().unwrap_or("").to_string())?;
            Ok("ok".to_string())
        })
    });
    if growth > lim {
        o = o.fail("c06.fri.verify.alloc", format!("FRI verification of a {}-byte proof requested {} bytes; input {}", bytes.len(), growth, short_hex(&bytes)));
    }
    match r {
        Ok(Ok(s)) => o.out = format!("ok {}", s),
        Ok(Err(s)) => o.out = format!("ok {}", s),
        Err(info) => {
            o.out = "ok panic".into();
            o = o.fail(format!("c06.fri.panic@{}", panic_loc(&info)), format!("FRI verification panicked: {}; input {}", info, short_hex(&bytes)));
        },
    }
    o
}

/// `frih x <label> <log2 domain> <folding> <layers> <commitments> <rows>`: a hand-assembled FriProof (zero elements,
/// empty node lists, one-element remainder) through `FriProof::read_from_bytes`, `DefaultVerifierChannel::new` and
/// `FriVerifier::new` (64-bit field, Blake3_256); no honest prover is needed, so impossible schedules are reachable
fn exec_frih(t: &[&str]) -> Outcome {
    use winter_fri::{DefaultVerifierChannel, FriOptions, FriProof, FriVerifier};
    use winter_utils::Deserializable;
    type B = f64::BaseElement;
    type H = Blake3_256<B>;
    if t.len() != 7 {
        return Outcome::ok("bad-op");
    }
    let nums: Vec<usize> = match t[2..7].iter().map(|x| x.parse::<usize>()).collect::<Result<Vec<_>, _>>() {
        Ok(v) => v,
        Err(_) => return Outcome::ok("bad-op"),
    };
    let (logd, folding, layers, roots, rows) = (nums[0], nums[1], nums[2], nums[3], nums[4]);
    if logd > 20 || ![2, 4, 8, 16].contains(&folding) || layers > 255 || roots > 300 || rows > 16 {
        return Outcome::ok("bad-op");
    }
    let mut bytes = vec![layers as u8];
    for _ in 0..layers {
        let v = vec![0u8; rows * folding * 8];
        bytes.extend_from_slice(&(v.len() as u32).to_le_bytes());
        bytes.extend_from_slice(&v);
        bytes.extend_from_slice(&1u32.to_le_bytes());
        bytes.push(0);
    }
    bytes.extend_from_slice(&8u16.to_le_bytes());
    bytes.extend_from_slice(&[0u8; 8]);
    bytes.push(0);
    let mut o = Outcome::default();
    let r = guarded(|| -> String {
        let proof = match FriProof::read_from_bytes(&bytes) {
            Ok(p) => p,
            Err(_) => return "err".into(),
        };
        let commitments = vec![<H as Hasher>::Digest::default(); roots];
        let mut channel = match DefaultVerifierChannel::<B, H>::new(proof, commitments, 1 << logd, folding) {
            Ok(c) => c,
            Err(_) => return "ok chan-err".into(),
        };
        let mut coin = DefaultRandomCoin::<H>::new(&[]);
        // blowup 2, remainder degree 0: the options for which the schedule is longest
        match FriVerifier::new(&mut channel, &mut coin, FriOptions::new(2, folding, 0), (1usize << logd) / 2 - 1) {
            Ok(_) => "ok chan new".into(),
            Err(_) => "ok chan new-err".into(),
        }
    });
    match r {
        Ok(s) => o.out = s,
        Err(info) => {
            o.out = "ok panic".into();
            o = o.fail(format!("c06.fri.panic@{}", panic_loc(&info)), format!("hand-assembled FRI proof: {}; input {}", info, short_hex(&bytes)));
        },
    }
    o
}

fn gen_fri(emit: &mut dyn FnMut(String), rng: &mut Rng, tier: Tier) {
    // hand-assembled proofs: every layer count from 0 to two beyond the number of possible foldings, with the matching
    // number of commitments (and one less / more), for domains whose log is and is not a multiple of log2(folding)
    for logd in 1usize..=9 {
        for folding in [2usize, 4, 8, 16] {
            let possible = logd / folding.ilog2() as usize;
            for layers in 0..=possible + 2 {
                for roots in [layers + 1, layers, layers + 2] {
                    for rows in [1usize, 2] {
                        if rows == 2 && roots != layers + 1 {
                            continue;
                        }
                        emit(format!("frih x hand {} {} {} {} {}", logd, folding, layers, roots, rows));
                    }
                }
            }
        }
    }
    let thorough = tier == Tier::Thorough;
    for (log_n, blowup, folding, remdeg, nq) in [(4u32, 4usize, 2usize, 1usize, 3usize), (5, 2, 4, 1, 2), (4, 8, 4, 3, 4), (6, 2, 2, 7, 2)] {
        let (bytes, _, _, _) = match guarded(|| fri_base(log_n, blowup, folding, remdeg, nq)) {
            Ok(b) => b,
            Err(_) => {
                emit(format!("fri x base-failed {} {} {} {} {} -", log_n, blowup, folding, remdeg, nq));
                continue;
            },
        };
        let pre = format!("{} {} {} {} {}", log_n, blowup, folding, remdeg, nq);
        let n = bytes.len();
        emit(format!("fri x valid {} -", pre));
        // the fields: layer count, value / path block lengths, node-vector counts, remainder length, partitions
        let mut offs: Vec<(usize, usize, String)> = vec![(0, 1, "nlayers".into())];
        let nl = bytes[0] as usize;
        let mut p = 1usize;
        let mut layer_ranges = vec![];
        for k in 0..nl {
            let s = p;
            let vl = u32::from_le_bytes(bytes[p..p + 4].try_into().unwrap()) as usize;
            offs.push((p, 4, "values.len".into()));
            p += 4 + vl;
            let pl = u32::from_le_bytes(bytes[p..p + 4].try_into().unwrap()) as usize;
            offs.push((p, 4, "paths.len".into()));
            if pl > 0 {
                offs.push((p + 4, 1, "paths.nvec".into()));
            }
            if pl > 1 {
                offs.push((p + 5, 1, "paths.ndig".into()));
            }
            p += 4 + pl;
            layer_ranges.push((s, p - s));
        }
        offs.push((p, 2, "rem.len".into()));
        let rl = u16::from_le_bytes(bytes[p..p + 2].try_into().unwrap()) as usize;
        p += 2 + rl;
        offs.push((p, 1, "partitions".into()));
        for (off, len, name) in &offs {
            let mut orig: u128 = 0;
            for i in (0..*len).rev() {
                orig = (orig << 8) | bytes[off + i] as u128;
            }
            let f = Fld { name: name.clone(), off: *off, len: *len, count: true };
            let all = *len == 1;
            for v in field_values(&f, orig, thorough || all && (name == "nlayers" || name == "partitions")) {
                emit(format!("fri x field:{} {} s{}:{}", name, pre, off, le_hex(v, *len)));
            }
        }
        // layers dropped / duplicated with a consistent count
        if let Some((s, l)) = layer_ranges.first() {
            emit(format!("fri x drop-layer {} s0:{:02x},d{}:{}", pre, nl - 1, s, l));
            emit(format!("fri x dup-layer {} s0:{:02x},i{}:{}", pre, nl + 1, s, hex(&bytes[*s..*s + *l])));
            let (ls, ll) = layer_ranges.last().unwrap();
            emit(format!("fri x no-layers {} s0:00,d{}:{}", pre, s, ls + ll - s));
            emit(format!("fri x drop-last-layer {} s0:{:02x},d{}:{}", pre, nl - 1, ls, ll));
        }
        for k in 0..n {
            emit(format!("fri x trunc {} t{}", pre, k));
        }
        emit(format!("fri x append {} a00", pre));
        emit(format!("fri x append {} a{}", pre, hex(&rng.bytes(9))));
        let boundary = [0u8, 1, 0x7f, 0x80, 0xfe, 0xff];
        for off in 0..n {
            if thorough {
                for v in boundary {
                    if v != bytes[off] {
                        emit(format!("fri x byte {} s{}:{:02x}", pre, off, v));
                    }
                }
                for bit in 0..8 {
                    emit(format!("fri x bit {} x{}:{:02x}", pre, off, 1u8 << bit));
                }
            } else {
                emit(format!("fri x byte {} s{}:{:02x}", pre, off, *rng.pick(&boundary)));
                emit(format!("fri x bit {} x{}:{:02x}", pre, off, 1u8 << rng.below(8)));
            }
        }
    }
}

// ------------------------------------------------------------------------------------ stand-alone Merkle openings
fn mrk_g<H: ElementHasher<BaseField = f64::BaseElement>>(log_leaves: u32, idx: &[usize], depth_delta: i64, edits: &str) -> Outcome {
    use winter_crypto::{BatchMerkleProof, MerkleTree};
    use winter_utils::SliceReader;
    let n = 1usize << log_leaves;
    let leaves: Vec<H::Digest> = (0..n as u64).map(|i| H::hash(&i.to_le_bytes())).collect();
    let tree = match MerkleTree::<H>::new(leaves.clone()) {
        Ok(t) => t,
        Err(_) => return Outcome::ok("bad-base"),
    };
    let honest = match tree.prove_batch(idx) {
        Ok(p) => p,
        Err(_) => return Outcome::ok("bad-base"),
    };
    let mut bytes = honest.serialize_nodes();
    if apply_edits(&mut bytes, edits).is_err() {
        return Outcome::ok("bad-op");
    }
    let opened: Vec<H::Digest> = idx.iter().map(|i| leaves[*i]).collect();
    let depth = (log_leaves as i64 + depth_delta).clamp(0, 255) as u8;
    let lim = alloc_limit(bytes.len());
    let mut o = Outcome::default();
    let (r, growth) = measured(|| {
        guarded(|| -> String {
            let mut reader = SliceReader::new(&bytes);
            let proof = match BatchMerkleProof::<H>::deserialize(&mut reader, opened.clone(), depth) {
                Ok(p) => p,
                Err(DeserializationError::UnexpectedEOF) => return "eof".into(),
                Err(_) => return "err".into(),
            };
            let a = match proof.get_root(idx) {
                Ok(r) => {
                    if r == *tree.root() {
                        "root"
                    } else {
                        "other"
                    }
                },
                Err(_) => "e",
            };
            let b = if MerkleTree::<H>::verify_batch(tree.root(), idx, &proof).is_ok() { "acc" } else { "rej" };
            let c = match proof.into_paths(idx) {
                Ok(p) => format!("paths{}", p.len()),
                Err(_) => "e".to_string(),
            };
            format!("ok {} {} {}", a, b, c)
        })
    });
    if growth > lim {
        o = o.fail("c06.merkle.alloc", format!("opening of {} bytes requested {} heap bytes; input {}", bytes.len(), growth, short_hex(&bytes)));
    }
    match r {
        Ok(s) => o.out = s,
        Err(info) => {
            o.out = "panic".into();
            o = o.fail(format!("c06.merkle.panic@{}", panic_loc(&info)), format!("batch Merkle opening panicked: {}; node bytes {}", info, short_hex(&bytes)));
        },
    }
    o
}

fn exec_mrk(t: &[&str]) -> Outcome {
    // x <label> <hash> <log2 leaves> <indexes> <depth delta> <edits>
    if t.len() != 7 {
        return Outcome::ok("bad-op");
    }
    let log_leaves = match t[3].parse::<u32>() {
        Ok(v) if (1..=10).contains(&v) => v,
        _ => return Outcome::ok("bad-op"),
    };
    let idx: Vec<usize> = match t[4].split('.').map(|x| x.parse::<usize>()).collect::<Result<Vec<_>, _>>() {
        Ok(v) if !v.is_empty() && v.iter().all(|i| *i < (1 << log_leaves)) => v,
        _ => return Outcome::ok("bad-op"),
    };
    let dd = t[5].parse::<i64>().unwrap_or(0);
    match t[2] {
        "blake3_256" => mrk_g::<Blake3_256<f64::BaseElement>>(log_leaves, &idx, dd, t[6]),
        "rp64_256" => mrk_g::<Rp64_256>(log_leaves, &idx, dd, t[6]),
        "blake3_192" => mrk_g::<Blake3_192<f64::BaseElement>>(log_leaves, &idx, dd, t[6]),
        _ => Outcome::ok("bad-op"),
    }
}

fn mrk_nodes<H: ElementHasher<BaseField = f64::BaseElement>>(log_leaves: u32, idx: &[usize]) -> Option<Vec<u8>> {
    use winter_crypto::MerkleTree;
    let n = 1usize << log_leaves;
    let leaves: Vec<H::Digest> = (0..n as u64).map(|i| H::hash(&i.to_le_bytes())).collect();
    let tree = MerkleTree::<H>::new(leaves).ok()?;
    Some(tree.prove_batch(idx).ok()?.serialize_nodes())
}

fn gen_mrk(emit: &mut dyn FnMut(String), rng: &mut Rng, tier: Tier) {
    let sets: Vec<(u32, Vec<usize>)> = vec![
        (1, vec![0]),
        (1, vec![0, 1]),
        (3, vec![0]),
        (3, vec![7]),
        (3, vec![2, 3]),
        (3, vec![1, 6]),
        (3, vec![0, 1, 2, 3, 4, 5, 6, 7]),
        (4, vec![3, 4, 9]),
        (4, vec![0, 15]),
        (5, vec![5, 6, 7, 20, 21, 31]),
        (5, vec![30, 2, 17]),
        (8, vec![0, 1, 128, 200, 255]),
    ];
    for (hn, dg) in [("blake3_256", 32usize), ("rp64_256", 32), ("blake3_192", 24)] {
        for (ll, idx) in &sets {
            let nodes = match hn {
                "blake3_256" => mrk_nodes::<Blake3_256<f64::BaseElement>>(*ll, idx),
                "rp64_256" => mrk_nodes::<Rp64_256>(*ll, idx),
                _ => mrk_nodes::<Blake3_192<f64::BaseElement>>(*ll, idx),
            };
            let nodes = match nodes {
                Some(n) => n,
                None => continue,
            };
            let is: Vec<String> = idx.iter().map(|i| i.to_string()).collect();
            let pre = format!("{} {} {}", hn, ll, is.join("."));
            let whole = |new: &[u8]| format!("r0:{}:{}", nodes.len(), hex(new));
            emit(format!("mrk x valid {} 0 -", pre));
            for dd in [-(*ll as i64), -1, 1, 2, 59, 60, 61, 62, 63, 64, 200] {
                emit(format!("mrk x depth {} {} -", pre, dd));
            }
            for (nm, nb) in nodes_mutants(&nodes, dg) {
                emit(format!("mrk x nodes:{} {} 0 {}", nm, pre, whole(&nb)));
                if nm.contains("drop-last-node") {
                    emit(format!("mrk x nodes:{} {} 1 {}", nm, pre, whole(&nb)));
                    emit(format!("mrk x nodes:{} {} -1 {}", nm, pre, whole(&nb)));
                }
            }
            for k in 0..nodes.len() {
                emit(format!("mrk x trunc {} 0 t{}", pre, k));
            }
            let boundary = [0u8, 1, 0x7f, 0x80, 0xfe, 0xff];
            for off in 0..nodes.len() {
                let structural = off < 2 || tier == Tier::Thorough;
                if structural {
                    for v in boundary {
                        emit(format!("mrk x byte {} 0 s{}:{:02x}", pre, off, v));
                    }
                } else if off % 7 == 0 {
                    emit(format!("mrk x byte {} 0 s{}:{:02x}", pre, off, *rng.pick(&boundary)));
                }
            }
            emit(format!("mrk x append {} 0 a00", pre));
            emit(format!("mrk x append {} 0 a{}", pre, hex(&vec![0xffu8; dg + 1])));
            emit(format!("mrk x fill {} 0 f0:{}:{}:ff", pre, nodes.len(), 1 + 255 * (1 + 255 * dg)));
        }
    }
}

// ------------------------------------------------------------------------------------ generation
fn le_hex(v: u128, len: usize) -> String {
    let mut s = String::new();
    for i in 0..len {
        s.push_str(&format!("{:02x}", (v >> (8 * i)) as u8));
    }
    s
}

struct Gen<'a> {
    emit: &'a mut dyn FnMut(String),
    raw_budget: usize,
    /// every `refv_every`-th model-compared case of a configuration the reference verifier covers is also emitted as
    /// a `refv` line (0: never); `raw_seen` counts the model-compared cases of the current configuration
    refv_every: usize,
    raw_seen: usize,
    /// number of mutants emitted per family (label), to rotate the acceptance policies inside every family
    fam: HashMap<String, usize>,
}

impl<'a> Gen<'a> {
    /// emit a case; `raw` asks for the model-compared form (literal bytes) while the budget lasts
    fn case(&mut self, label: &str, b: &Base, vcfg: &str, mode: &str, edits: &str, raw: bool) {
        if raw && self.raw_budget > 0 && vcfg == b.cfg.name && mode == "c" {
            let mut bytes = b.bytes.clone();
            if apply_edits(&mut bytes, edits).is_ok() && bytes.len() <= 6000 {
                self.raw_budget -= 1;
                (self.emit)(format!("raw x {} {} {} {}", label, vcfg, air_params(b), hex(&bytes)));
                self.raw_seen += 1;
                // the families that change the context (trace info / options: the AIR constructor and the AIR's
                // callbacks then see another trace shape, where the real code panics) are sampled three times as densely
                let fam = label.split(':').next().unwrap_or(label);
                let every = if ["ctx2", "assembled", "field", "swap"].contains(&fam) { (self.refv_every / 3).max(1) } else { self.refv_every };
                if self.refv_every > 0 && self.raw_seen % every == 1 % every && refv_modelled(b) {
                    (self.emit)(refv_line(label, b, &bytes));
                }
                return;
            }
        }
        (self.emit)(format!("mut x {} {} {} {} {}", label, b.cfg.name, vcfg, mode, if edits.is_empty() { "-" } else { edits }));
    }
}

impl<'a> Gen<'a> {
    /// a mutant given by its bytes: emitted under the model-compared policy and under the next policy of its
    /// family's rotation (the first member of a family runs under every policy)
    fn mutant(&mut self, label: &str, b: &Base, vcfg: &str, new: &[u8], raw: bool) {
        let old = &b.bytes;
        let mut pre = 0;
        while pre < old.len() && pre < new.len() && old[pre] == new[pre] {
            pre += 1;
        }
        let mut suf = 0;
        while suf < old.len() - pre && suf < new.len() - pre && old[old.len() - 1 - suf] == new[new.len() - 1 - suf] {
            suf += 1;
        }
        let mid = &new[pre..new.len() - suf];
        let edit = if mid.len() < 600 {
            format!("r{}:{}:{}", pre, old.len() - pre - suf, hex(mid))
        } else {
            // long constant runs are written as fill edits
            let mut parts = vec![format!("d{}:{}", pre, old.len() - pre - suf)];
            let mut off = pre;
            let mut i = 0;
            let mut lit_start = 0;
            while i < mid.len() {
                let mut j = i;
                while j < mid.len() && mid[j] == mid[i] {
                    j += 1;
                }
                if j - i >= 64 {
                    if lit_start < i {
                        parts.push(format!("i{}:{}", off, hex(&mid[lit_start..i])));
                        off += i - lit_start;
                    }
                    parts.push(format!("f{}:0:{}:{:02x}", off, j - i, mid[i]));
                    off += j - i;
                    lit_start = j;
                }
                i = j;
            }
            if lit_start < mid.len() {
                parts.push(format!("i{}:{}", off, hex(&mid[lit_start..])));
            }
            parts.join(",")
        };
        self.edit(label, b, vcfg, &edit, raw);
    }
    fn edit(&mut self, label: &str, b: &Base, vcfg: &str, edit: &str, raw: bool) {
        let k = *self.fam.get(label).unwrap_or(&0);
        self.fam.insert(label.to_string(), k + 1);
        self.case(label, b, vcfg, "c", edit, raw);
        if k == 0 {
            for m in &POLICIES[1..] {
                self.case(label, b, vcfg, m, edit, false);
            }
        } else {
            self.case(label, b, vcfg, POLICIES[1 + k % (POLICIES.len() - 1)], edit, false);
        }
    }
}

fn elem_bytes(f: FieldId) -> usize {
    match f {
        FieldId::F128 => 16,
        _ => 8,
    }
}

/// consistent structural mutants (HARDENING 3, 4, 5, 7): every enclosing length / count prefix is rewritten
fn gen_struct(g: &mut Gen, rng: &mut Rng, b: &Base, tier: Tier, others: &[Arc<Base>]) {
    let name = b.cfg.name;
    let sp = match SP::parse(&b.bytes) {
        Some(sp) if sp.to_bytes() == b.bytes => sp,
        _ => {
            (g.emit)(format!("mut x struct-failed {} - c -", name));
            return;
        },
    };
    let dg = b.cfg.hash.digest_bytes();
    let eb = elem_bytes(b.cfg.field);
    let ee = eb * b.opts.ext as usize;
    let m = b.cfg.field.modulus();
    let main_w = sp.ti[0] as usize;
    let aux_w = sp.ti[1] as usize;
    let folding = b.opts.folding;
    // --- Merkle node vectors of every opening
    let mut sets: Vec<(String, Vec<u8>)> = vec![];
    for (i, q) in sp.tq.iter().enumerate() {
        sets.push((format!("tq{}", i), q.paths.clone()));
    }
    sets.push(("cq".into(), sp.cq.paths.clone()));
    for (i, q) in sp.layers.iter().enumerate() {
        sets.push((format!("fri{}", i), q.paths.clone()));
    }
    for (which, paths) in &sets {
        for (nm, np) in nodes_mutants(paths, dg) {
            let mut x = sp.clone();
            match which.as_str() {
                "cq" => x.cq.paths = np,
                w if w.starts_with("tq") => x.tq[w[2..].parse::<usize>().unwrap()].paths = np,
                w => x.layers[w[3..].parse::<usize>().unwrap()].paths = np,
            }
            let fam = which.trim_end_matches(|c: char| c.is_ascii_digit());
            g.mutant(&format!("merkle:{}:{}", fam, nm), b, name, &x.to_bytes(), true);
        }
        for n in [65536usize, 70000] {
            // (5) a paths block beyond the 16-bit range: 255 vectors of 255 digests hold at most 255*255*dg bytes
            let per = 1 + 255 * dg;
            let nvec = (n / per + 1).min(255);
            let mut blk = vec![nvec as u8];
            for _ in 0..nvec {
                blk.push(255);
                blk.extend(std::iter::repeat(0x11u8).take(255 * dg));
            }
            let mut x = sp.clone();
            match which.as_str() {
                "cq" => x.cq.paths = blk,
                w if w.starts_with("tq") => x.tq[w[2..].parse::<usize>().unwrap()].paths = blk,
                w => x.layers[w[3..].parse::<usize>().unwrap()].paths = blk,
            }
            if which == "cq" || which == "fri0" {
                g.mutant("oversize:paths", b, name, &x.to_bytes(), false);
            }
        }
    }
    // --- value tables: rows of the queried states / evaluations
    let ncols_cq = if sp.uniq > 0 { sp.cq.values.len() / (sp.uniq as usize * ee).max(1) } else { 0 };
    {
        for (nm, nv) in records_mutants(&sp.tq[0].values, main_w * eb, eb, m) {
            let mut x = sp.clone();
            x.tq[0].values = nv;
            g.mutant(&format!("values:tq:{}", nm), b, name, &x.to_bytes(), true);
        }
        if sp.tq.len() > 1 {
            for (nm, nv) in records_mutants(&sp.tq[1].values, aux_w * ee, ee, m) {
                let mut x = sp.clone();
                x.tq[1].values = nv;
                g.mutant(&format!("values:tq-aux:{}", nm), b, name, &x.to_bytes(), true);
            }
        }
        for (nm, nv) in records_mutants(&sp.cq.values, ncols_cq * ee, ee, m) {
            let mut x = sp.clone();
            x.cq.values = nv;
            g.mutant(&format!("values:cq:{}", nm), b, name, &x.to_bytes(), true);
        }
        // one query less / more in EVERY query set, the count byte following
        if sp.uniq > 1 {
            let mut x = sp.clone();
            x.uniq -= 1;
            let l = x.tq[0].values.len() - main_w * eb;
            x.tq[0].values.truncate(l);
            if x.tq.len() > 1 {
                let l = x.tq[1].values.len() - aux_w * ee;
                x.tq[1].values.truncate(l);
            }
            let l = x.cq.values.len() - ncols_cq * ee;
            x.cq.values.truncate(l);
            g.mutant("values:one-query-less", b, name, &x.to_bytes(), true);
        }
        {
            let mut x = sp.clone();
            x.uniq += 1;
            let r = x.tq[0].values[..main_w * eb].to_vec();
            x.tq[0].values.extend(r);
            if x.tq.len() > 1 {
                let r = x.tq[1].values[..aux_w * ee].to_vec();
                x.tq[1].values.extend(r);
            }
            let r = x.cq.values[..(ncols_cq * ee).min(x.cq.values.len())].to_vec();
            x.cq.values.extend(r);
            g.mutant("values:one-query-more", b, name, &x.to_bytes(), true);
        }
        // 255 queries of everything (table limits), consistent
        {
            let mut x = sp.clone();
            x.uniq = 255;
            x.opts[0] = 255;
            x.tq[0].values = sp.tq[0].values[..main_w * eb].repeat(255);
            if x.tq.len() > 1 {
                x.tq[1].values = sp.tq[1].values[..aux_w * ee].repeat(255);
            }
            x.cq.values = sp.cq.values[..(ncols_cq * ee).min(sp.cq.values.len())].repeat(255);
            g.mutant("values:255-queries", b, name, &x.to_bytes(), false);
        }
        for n in [65536usize, 70000] {
            let mut x = sp.clone();
            x.cq.values = vec![0u8; n];
            g.mutant("oversize:values", b, name, &x.to_bytes(), false);
        }
    }
    // --- commitments: digests
    for (nm, nv) in records_mutants(&sp.commitments, dg, 0, m) {
        let mut x = sp.clone();
        x.commitments = nv;
        g.mutant(&format!("commitments:{}", nm), b, name, &x.to_bytes(), true);
    }
    for n in [255usize, 256, 65535] {
        let mut x = sp.clone();
        x.commitments = vec![0x22u8; n / dg * dg];
        g.mutant("oversize:commitments", b, name, &x.to_bytes(), false);
        x.commitments = vec![0x22u8; n];
        g.mutant("oversize:commitments", b, name, &x.to_bytes(), false);
    }
    // --- out-of-domain frame
    for (nm, nv) in records_mutants(&sp.ood_trace[1.min(sp.ood_trace.len())..], 2 * ee, ee, m) {
        let mut x = sp.clone();
        x.ood_trace = [&sp.ood_trace[..1.min(sp.ood_trace.len())], &nv[..]].concat();
        g.mutant(&format!("ood:trace:{}", nm), b, name, &x.to_bytes(), true);
    }
    for (nm, nv) in records_mutants(&sp.ood_evals, ee, ee, m) {
        let mut x = sp.clone();
        x.ood_evals = nv;
        g.mutant(&format!("ood:evals:{}", nm), b, name, &x.to_bytes(), true);
    }
    {
        // Lagrange kernel frames of every small row count, consistent; also with trailing bytes
        let src = if sp.ood_lagrange.len() > 1 { sp.ood_lagrange[1..].to_vec() } else { sp.ood_trace[1.min(sp.ood_trace.len())..].to_vec() };
        for rows in 0..=8usize {
            let mut blk = vec![rows as u8];
            for i in 0..rows {
                blk.extend_from_slice(&src[(i * ee) % src.len().max(1)..][..ee.min(src.len())]);
            }
            let mut x = sp.clone();
            x.ood_lagrange = blk.clone();
            g.mutant("ood:lagrange-rows", b, name, &x.to_bytes(), true);
            blk.push(0);
            x.ood_lagrange = blk;
            g.mutant("ood:lagrange-trailing", b, name, &x.to_bytes(), true);
        }
        let mut x = sp.clone();
        x.ood_lagrange = vec![];
        g.mutant("ood:lagrange-empty-block", b, name, &x.to_bytes(), true);
    }
    for n in [255usize, 256, 65535] {
        let mut x = sp.clone();
        x.ood_evals = vec![0u8; n / ee * ee];
        g.mutant("oversize:ood", b, name, &x.to_bytes(), false);
        let mut x = sp.clone();
        x.ood_trace = [&[2u8][..], &vec![0u8; (n - 1) / (2 * ee) * (2 * ee)][..]].concat();
        g.mutant("oversize:ood", b, name, &x.to_bytes(), false);
        let mut x = sp.clone();
        x.ood_lagrange = [&[255u8][..], &vec![0u8; (255 * ee).min(n - 1)][..]].concat();
        g.mutant("oversize:ood", b, name, &x.to_bytes(), false);
    }
    // --- FRI layers and remainder
    for (i, l) in sp.layers.iter().enumerate() {
        for (nm, nv) in records_mutants(&l.values, folding * ee, ee, m) {
            let mut x = sp.clone();
            x.layers[i].values = nv;
            g.mutant(&format!("fri:values:{}", nm), b, name, &x.to_bytes(), i == 0);
        }
    }
    if !sp.layers.is_empty() {
        let mut x = sp.clone();
        x.layers[0].values = vec![0u8; 70000 / (folding * ee) * (folding * ee)];
        g.mutant("oversize:fri-values", b, name, &x.to_bytes(), false);
        // layer order, a layer repeated in place of another, a layer more with its commitment
        if sp.layers.len() > 1 {
            let mut x = sp.clone();
            x.layers.swap(0, 1);
            g.mutant("fri:swap-layers", b, name, &x.to_bytes(), true);
            let mut x = sp.clone();
            x.layers[1] = x.layers[0].clone();
            g.mutant("fri:layer-repeated", b, name, &x.to_bytes(), true);
        }
        let mut x = sp.clone();
        x.layers.pop();
        x.commitments.truncate(sp.commitments.len().saturating_sub(dg));
        g.mutant("fri:one-layer-less-with-root", b, name, &x.to_bytes(), true);
        let mut x = sp.clone();
        x.layers.push(sp.layers.last().unwrap().clone());
        x.commitments.extend_from_slice(&sp.commitments[sp.commitments.len() - dg..]);
        g.mutant("fri:one-layer-more-with-root", b, name, &x.to_bytes(), true);
    }
    for (nm, nv) in records_mutants(&sp.remainder, ee, ee, m) {
        let mut x = sp.clone();
        x.remainder = nv;
        g.mutant(&format!("fri:remainder:{}", nm), b, name, &x.to_bytes(), true);
    }
    {
        let r = &sp.remainder;
        let mut variants: Vec<(&str, Vec<u8>)> = vec![("halved", r[..r.len() / 2].to_vec()), ("doubled-zero-high", [&r[..], &vec![0u8; r.len()][..]].concat()), ("doubled-copy", [&r[..], &r[..]].concat())];
        let mut z = r.clone();
        for b in z.iter_mut().skip(r.len() / 2) {
            *b = 0;
        }
        variants.push(("zero-high-half", z));
        let mut z = r.clone();
        let l = z.len();
        for b in z.iter_mut().skip(l.saturating_sub(ee)) {
            *b = 0;
        }
        variants.push(("zero-top-coefficient", z));
        variants.push(("one-element", r[..ee.min(r.len())].to_vec()));
        variants.push(("65535-bytes", vec![0u8; 65535]));
        variants.push(("65535-bytes-whole-elements", vec![0u8; 65535 / ee * ee]));
        variants.push(("4096-elements", vec![0u8; (4096 * ee).min(65535 / ee * ee)]));
        for (nm, nv) in variants {
            let mut x = sp.clone();
            x.remainder = nv;
            g.mutant(&format!("fri:remainder:{}", nm), b, name, &x.to_bytes(), true);
        }
    }
    // --- trace meta data of every prefix width, modulus, GKR proof, nonce
    for n in [1usize, 6, 7, 8, 9, 15, 16, 17, 255, 256, 257, 65534, 65535] {
        for fill in [0u8, 0xff, 0x5a] {
            let mut x = sp.clone();
            x.meta = vec![fill; n];
            g.mutant("meta", b, name, &x.to_bytes(), n < 300);
        }
    }
    {
        let mods: Vec<Vec<u8>> = vec![
            modulus_bytes(FieldId::F62),
            modulus_bytes(FieldId::F64),
            modulus_bytes(FieldId::F128),
            (m - 1).to_le_bytes()[..eb].to_vec(),
            (m + 1).to_le_bytes()[..eb].to_vec(),
            m.to_le_bytes()[..eb - 1].to_vec(),
            [&m.to_le_bytes()[..eb], &[0u8][..]].concat(),
            vec![0u8; eb],
            vec![0xffu8; eb],
            vec![1u8],
            vec![0x11u8; 254],
            vec![0x11u8; 255],
            m.to_le_bytes().to_vec(),
        ];
        for md in mods {
            let mut x = sp.clone();
            x.modulus = md;
            g.mutant("modulus", b, name, &x.to_bytes(), true);
        }
    }
    {
        let logn = sp.ti[3] as u64;
        let mut gk: Vec<Option<Vec<u8>>> = vec![None, Some(vec![]), Some(vec![0]), Some(vec![0xff; 9]), Some(vec![0x5a; 255]), Some(vec![0x5a; 256]), Some(vec![0x5a; 65535]), Some(vec![0x5a; 65536]), Some(vec![0x5a; 65537]), Some(vec![0x5a; 70000]), Some(vec![0x5a; 1 << 21])];
        for v in [0u64, 1, logn.saturating_sub(1), logn, logn + 1, 63, 64, 65, 127, 128, 1 << 32, u64::MAX] {
            gk.push(Some(vint(v)));
            gk.push(Some([&vint(v)[..], &[0u8][..]].concat()));
        }
        for v in gk {
            let mut x = sp.clone();
            let small = v.as_ref().map(|v| v.len()).unwrap_or(0) < 300;
            x.gkr = v;
            g.mutant("gkr-consistent", b, name, &x.to_bytes(), small);
        }
    }
    for v in [0u128, 1, m - 1, m, m + 1, u64::MAX as u128, 1 << 32, (1 << 32) - 1, 1 << 63] {
        let mut x = sp.clone();
        x.nonce = (v as u64).to_le_bytes();
        g.mutant("nonce", b, name, &x.to_bytes(), true);
    }
    for v in 0..=255u8 {
        if v < 8 || v > 56 || v % 8 == 0 {
            let mut x = sp.clone();
            x.partitions = v;
            g.mutant("partitions", b, name, &x.to_bytes(), true);
        }
    }
    // --- (coordinator) structurally valid proofs assembled from the components of two proofs
    for ob in others {
        if ob.cfg.name == name {
            continue;
        }
        let op = match SP::parse(&ob.bytes) {
            Some(x) => x,
            None => continue,
        };
        let same_shape = op.tq.len() == sp.tq.len();
        let combos: Vec<u32> = if same_shape && ob.cfg.field == b.cfg.field { (1..255).collect() } else { vec![1, 2, 4, 8, 16, 32, 64, 128, 0x7f, 0xfe, 0x55, 0xaa] };
        for mask in combos {
            if !(same_shape && ob.cfg.hash == b.cfg.hash) && tier == Tier::Quick && mask.count_ones() > 1 && rng.below(3) != 0 {
                continue;
            }
            let mut x = sp.clone();
            if mask & 1 != 0 {
                x.ti = op.ti;
                x.meta = op.meta.clone();
                x.modulus = op.modulus.clone();
                x.opts = op.opts;
                // the number of query sets follows the trace info
                if x.ti[1] > 0 && x.tq.len() == 1 {
                    x.tq.push(x.tq[0].clone());
                }
                if x.ti[1] == 0 {
                    x.tq.truncate(1);
                }
            }
            if mask & 2 != 0 {
                x.commitments = op.commitments.clone();
            }
            if mask & 4 != 0 {
                for i in 0..x.tq.len().min(op.tq.len()) {
                    x.tq[i] = op.tq[i].clone();
                }
                x.uniq = op.uniq;
            }
            if mask & 8 != 0 {
                x.cq = op.cq.clone();
            }
            if mask & 16 != 0 {
                x.ood_trace = op.ood_trace.clone();
                x.ood_lagrange = op.ood_lagrange.clone();
                x.ood_evals = op.ood_evals.clone();
            }
            if mask & 32 != 0 {
                x.layers = op.layers.clone();
            }
            if mask & 64 != 0 {
                x.remainder = op.remainder.clone();
                x.partitions = op.partitions;
            }
            if mask & 128 != 0 {
                x.nonce = op.nonce;
                x.gkr = op.gkr.clone();
            }
            let bytes = x.to_bytes();
            g.mutant("assembled", b, name, &bytes, bytes.len() < 2500 && (mask.count_ones() == 1 || mask % 7 == 0));
            if mask.count_ones() <= 2 {
                // ... and verified against the OTHER computation
                let k = *g.fam.get("assembled-other").unwrap_or(&0);
                g.fam.insert("assembled-other".into(), k + 1);
                g.case("assembled-other", b, ob.cfg.name, POLICIES[k % POLICIES.len()], &format!("r0:{}:{}", b.bytes.len(), hex(&bytes)), false);
            }
        }
    }
}

/// HAND-ASSEMBLED proofs (HARDENING follow-up): for option / trace-length tuples - including the "overshoot" tuples for
/// which no honest proof exists - a proof whose every component has exactly the size the parsers expect (zero
/// elements, empty Merkle node lists), with every FRI layer count from 0 to two beyond the number of times the domain
/// can be folded, the layers sized for their depth and the commitment count matching. The loops of the parsers whose
/// iteration count derives from several header fields (FRI layers: log2(trace length x blowup) / log2(folding) against
/// (remainder degree + 1) x blowup; table rows x columns; frame width) are driven to their maximum, one beyond, and
/// to the tuples where floor and ceiling of the quotient differ.
fn gen_hand(g: &mut Gen, rng: &mut Rng, b: &Base, tier: Tier) {
    let name = b.cfg.name;
    let sp0 = match SP::parse(&b.bytes) {
        Some(x) => x,
        None => return,
    };
    let dg = b.cfg.hash.digest_bytes();
    let eb = elem_bytes(b.cfg.field);
    let main_w = sp0.ti[0] as usize;
    let aux_w = sp0.ti[1] as usize;
    let build = |logn: u32, nq: u8, blowup: u8, ext: u8, folding: u8, remdeg: u8, uniq: u8, layers: usize, roots: usize, rows_per_layer: usize, main: usize, aux: usize| -> Option<Vec<u8>> {
        let ee = eb * ext as usize;
        let n = 1usize << logn;
        let ti = guarded(|| TraceInfo::new_multi_segment(main, aux, if aux > 0 { sp0.ti[2] as usize } else { 0 }, n, vec![])).ok()?;
        let fx = match ext {
            1 => FieldExtension::None,
            2 => FieldExtension::Quadratic,
            _ => FieldExtension::Cubic,
        };
        let po = guarded(|| ProofOptions::new(nq as usize, blowup as usize, 0, fx, folding as usize, remdeg as usize)).ok()?;
        let ncols = guarded(|| dispatch!(b.cfg.field, b.cfg.hash, ncols_g, (&b.desc, &b.pubs, &ti, &po))).ok()?;
        let mut x = sp0.clone();
        x.ti = [main as u8, aux as u8, if aux > 0 { sp0.ti[2] } else { 0 }, logn as u8];
        x.meta = vec![];
        x.opts = [nq, blowup, 0, ext, folding, remdeg];
        x.uniq = uniq;
        let segs = if aux > 0 { 2 } else { 1 };
        x.commitments = vec![0x33u8; (segs + 1 + roots) * dg];
        x.tq = vec![QS { values: vec![0u8; uniq as usize * main * eb], paths: vec![0] }];
        if aux > 0 {
            x.tq.push(QS { values: vec![0u8; uniq as usize * aux * ee], paths: vec![0] });
        }
        x.cq = QS { values: vec![0u8; uniq as usize * ncols * ee], paths: vec![0] };
        x.ood_trace = [&[2u8][..], &vec![0u8; (main + aux) * 2 * ee][..]].concat();
        x.ood_lagrange = vec![0];
        x.ood_evals = vec![0u8; ncols * ee];
        x.layers = (0..layers).map(|_| QS { values: vec![0u8; rows_per_layer * folding as usize * ee], paths: vec![0] }).collect();
        x.remainder = vec![0u8; ee];
        x.partitions = 0;
        x.gkr = None;
        Some(x.to_bytes())
    };
    let ext0 = b.opts.ext;
    let mut k = 0usize;
    for logn in 3u32..=6 {
        for blowup in [2u8, 4, 8] {
            for folding in [2u8, 4, 8, 16] {
                for remdeg in [0u8, 1, 3, 7] {
                    let lde = (1usize << logn) * blowup as usize;
                    let max_rem = (remdeg as usize + 1) * blowup as usize;
                    // what num_fri_layers asks for, and how often the domain can really be folded
                    let mut expected = 0;
                    let mut d = lde;
                    while d > max_rem {
                        d /= folding as usize;
                        expected += 1;
                    }
                    let possible = (lde.ilog2() / (folding as u32).ilog2()) as usize;
                    let overshoot = expected > possible || lde.ilog2() % (folding as u32).ilog2() != 0;
                    for layers in 0..=possible + 2 {
                        // quick tier: every count for the tuples where floor and ceiling differ, the expected count
                        // and its neighbours for the others
                        let near = layers + 1 >= expected && layers <= expected + 1;
                        if !(overshoot || near || tier == Tier::Thorough) {
                            continue;
                        }
                        k += 1;
                        for (roots, rows) in [(layers + 1, 1usize), (layers + 1, 2), (layers, 1), (layers + 2, 1)] {
                            if rows == 2 && !overshoot || roots != layers + 1 && layers != expected {
                                continue;
                            }
                            if let Some(bytes) = build(logn, 1, blowup, ext0, folding, remdeg, 1, layers, roots, rows, main_w, aux_w) {
                                let lab = if overshoot { "hand:fri-overshoot" } else { "hand:fri-layers" };
                                g.mutant(lab, b, name, &bytes, layers == expected || k % 3 == 0);
                            }
                        }
                    }
                }
            }
        }
    }
    // table and frame loops: rows x columns at their limits (the AIR of the base configuration keeps its own widths
    // when it has an auxiliary segment; a single-segment AIR takes the width from the proof)
    if aux_w == 0 {
        for main in [1usize, 2, 127, 128, 254, 255] {
            for uniq in [1u8, 2, 254, 255] {
                if let Some(bytes) = build(3, 255.min(uniq.max(1)).min(15), b.opts.blowup as u8, ext0, b.opts.folding as u8, b.opts.remainder as u8, uniq, 0, 1, 1, main, 0) {
                    // the FRI part is that of the base proof, so that the count check passes
                    if let Some(mut x) = SP::parse(&bytes) {
                        x.layers = sp0.layers.clone();
                        x.remainder = sp0.remainder.clone();
                        x.commitments = vec![0x33u8; (2 + sp0.layers.len() + 1) * dg];
                        x.opts[0] = sp0.opts[0];
                        g.mutant("hand:table-limits", b, name, &x.to_bytes(), main < 3 || uniq < 3);
                    }
                }
            }
        }
    }
    let _ = rng;
}

/// boundary values of the single-byte fields of the context (HARDENING 1: every constant the readers, the
/// constructors, the security estimate and the query-count check compare against, and its neighbours)
fn ctx_values(name: &str, orig: u8, lde: usize) -> Vec<u8> {
    let mut v: Vec<usize> = match name {
        "ti.main" => vec![0, 1, 2, 127, 128, 254, 255],
        "ti.aux" => vec![0, 1, 2, 127, 253, 254, 255],
        "ti.rands" => vec![0, 1, 2, 254, 255],
        "ti.loglen" => vec![0, 1, 2, 3, 4, 5, 6, 24, 25, 26, 27, 28, 29, 30, 31, 32, 33, 39, 40, 41, 56, 57, 62, 63, 64, 65, 255],
        "modulus.len" => vec![0, 1, 7, 8, 9, 16, 254, 255],
        "opt.queries" => vec![0, 1, 2, 3, 4, 11, 12, 13, 15, 16, 17, 19, 20, 21, 26, 27, 39, 40, 41, 79, 80, 81, 127, 128, 254, 255, lde.saturating_sub(1), lde, lde + 1],
        "opt.blowup" => vec![0, 1, 2, 3, 4, 8, 16, 32, 64, 127, 128, 129, 255],
        "opt.grinding" => vec![0, 1, 2, 15, 16, 20, 31, 32, 33, 64, 255],
        "opt.ext" => vec![0, 1, 2, 3, 4, 255],
        "opt.folding" => vec![0, 1, 2, 3, 4, 5, 8, 15, 16, 17, 32, 255],
        "opt.remdeg" => vec![0, 1, 2, 3, 4, 6, 7, 8, 15, 31, 63, 126, 127, 128, 254, 255],
        "uniq" => vec![0, 1, 2, 3, 254, 255],
        _ => vec![0, 1, 255],
    };
    v.push(orig as usize);
    v.push(orig.wrapping_add(1) as usize);
    v.push(orig.wrapping_sub(1) as usize);
    let mut v: Vec<u8> = v.into_iter().filter(|x| *x < 256).map(|x| x as u8).collect();
    v.sort_unstable();
    v.dedup();
    v
}

const CTX_FIELDS: &[&str] = &["ti.main", "ti.aux", "ti.rands", "ti.loglen", "modulus.len", "opt.queries", "opt.blowup", "opt.grinding", "opt.ext", "opt.folding", "opt.remdeg", "uniq"];

/// every pair (and the security triple) of context bytes set to boundary combinations, under every policy
fn gen_ctx_pairs(g: &mut Gen, rng: &mut Rng, b: &Base, tier: Tier, flds: &[Fld], full: bool) {
    let name = b.cfg.name;
    let lde = b.desc.trace_len * b.opts.blowup;
    let f: Vec<&Fld> = CTX_FIELDS.iter().filter_map(|n| flds.iter().find(|f| f.name == *n)).collect();
    let mut k = 0usize;
    for i in 0..f.len() {
        for j in i + 1..f.len() {
            let vi = ctx_values(&f[i].name, b.bytes[f[i].off], lde);
            let vj = ctx_values(&f[j].name, b.bytes[f[j].off], lde);
            let both_opts = f[i].name.starts_with("opt.") && f[j].name.starts_with("opt.");
            for a in &vi {
                for c in &vj {
                    if *a == b.bytes[f[i].off] && *c == b.bytes[f[j].off] {
                        continue;
                    }
                    // products are sampled, dimensions are not dropped: every pair of fields, every value of each
                    // field at least with the unchanged and the extreme values of the other
                    let edge = |v: u8, vs: &[u8], o: u8| v == o || v == vs[0] || v == *vs.last().unwrap() || v == vs[1];
                    let keep = full || both_opts || edge(*a, &vi, b.bytes[f[i].off]) || edge(*c, &vj, b.bytes[f[j].off]) || rng.below(8) == 0;
                    if !keep {
                        continue;
                    }
                    let e = format!("s{}:{:02x},s{}:{:02x}", f[i].off, a, f[j].off, c);
                    k += 1;
                    let lab = format!("ctx2:{}+{}", f[i].name, f[j].name);
                    g.case(&lab, b, name, "c", &e, k % 4 == 0);
                    let pol = POLICIES[1 + k % (POLICIES.len() - 1)];
                    g.case(&lab, b, name, pol, &e, false);
                    if both_opts && (tier == Tier::Thorough || full) {
                        g.case(&lab, b, name, "p", &e, false);
                        g.case(&lab, b, name, "om", &e, false);
                    }
                }
            }
        }
    }
    // the security estimates: (queries, blowup, grinding[, extension, trace length]) products under every policy
    let fq = flds.iter().find(|f| f.name == "opt.queries");
    let fb = flds.iter().find(|f| f.name == "opt.blowup");
    let fg = flds.iter().find(|f| f.name == "opt.grinding");
    let fx = flds.iter().find(|f| f.name == "opt.ext");
    let fl = flds.iter().find(|f| f.name == "ti.loglen");
    if let (Some(fq), Some(fb), Some(fg), Some(fx), Some(fl)) = (fq, fb, fg, fx, fl) {
        for q in [1u8, 2, 3, 4, 5, 11, 12, 13, 19, 20, 21, 26, 27, 39, 40, 41, 79, 80, 81, 128, 255] {
            for bl in [2u8, 4, 8, 16, 64, 128] {
                for gr in [0u8, 1, 16, 31, 32] {
                    let e0 = format!("s{}:{:02x},s{}:{:02x},s{}:{:02x}", fq.off, q, fb.off, bl, fg.off, gr);
                    for pol in POLICIES {
                        if full || pol.starts_with('p') || pol.starts_with('c') && rng.below(3) == 0 || rng.below(6) == 0 {
                            g.case("ctx3:security", b, name, pol, &e0, *pol == "c" && q % 2 == 1);
                        }
                    }
                    if gr == 0 || gr == 32 {
                        for (x, l) in [(1u8, 3u8), (2, 3), (3, 3), (1, 20), (1, 28), (2, 30), (1, 29)] {
                            let e = format!("{},s{}:{:02x},s{}:{:02x}", e0, fx.off, x, fl.off, l);
                            k += 1;
                            g.case("ctx5:security", b, name, ["p", "c", "p=", "c=", "p+", "c+"][k % 6], &e, false);
                        }
                    }
                }
            }
        }
    }
}

fn field_values(f: &Fld, orig: u128, thorough: bool) -> Vec<u128> {
    let bits = 8 * f.len as u32;
    let max: u128 = if bits >= 128 { u128::MAX } else { (1u128 << bits) - 1 };
    let mut v = vec![0, 1, 2, max - 1, max, orig.wrapping_add(1) & max, orig.wrapping_sub(1) & max, (orig * 2) & max, orig / 2, max / 2, max / 2 + 1, 3, 63, 64, 65];
    if f.len == 1 {
        if thorough || f.name.starts_with("opt.") || f.name.starts_with("ti.") || f.name == "fri.partitions" || f.name == "uniq" || f.name.ends_with(".frame") {
            v.extend(0..=255u128);
        } else {
            v.extend([7, 8, 16, 31, 32, 33, 56, 57, 127, 128, 129, 200, 254]);
        }
    } else {
        v.extend([255, 256, 257, 65535 & max, 65536 & max, (1u128 << (bits - 1)) - 1, 1u128 << (bits - 1), orig + 8, orig.saturating_sub(8), orig + 32]);
    }
    v.sort_unstable();
    v.dedup();
    v.retain(|x| *x != orig);
    v
}

fn gen_for(g: &mut Gen, rng: &mut Rng, b: &Base, tier: Tier, small: bool, others: &[Arc<Base>]) {
    let name = b.cfg.name;
    let n = b.bytes.len();
    let thorough = tier == Tier::Thorough;
    let (flds, comps) = match layout(&b.bytes, b.cfg.hash.digest_bytes()) {
        Some(x) => x,
        None => {
            (g.emit)(format!("mut x layout-failed {} - c -", name));
            return;
        },
    };
    // 0. the valid proof itself, all three modes, and against the other AIRs
    g.case("valid", b, name, "c", "-", true);
    g.case("valid", b, name, "p", "-", false);
    g.case("valid", b, name, "o", "-", false);
    for ob in others {
        if ob.cfg.name != name && ob.cfg.field == b.cfg.field && ob.cfg.hash == b.cfg.hash {
            g.case("other-air", b, ob.cfg.name, "c", "-", false);
            g.case("other-air", b, ob.cfg.name, "o", "-", false);
        }
    }
    // 1. every length / count / size field and scalar
    for f in &flds {
        let mut orig: u128 = 0;
        for i in (0..f.len).rev() {
            orig = (orig << 8) | b.bytes[f.off + i] as u128;
        }
        for v in field_values(f, orig, thorough) {
            let e = format!("s{}:{}", f.off, le_hex(v, f.len));
            let label = format!("field:{}", f.name.replace(|c: char| c.is_ascii_digit(), "#"));
            let constant = f.len == 1 && ctx_values(&f.name, orig as u8, b.desc.trace_len * b.opts.blowup).contains(&(v as u8));
            g.case(&label, b, name, "c", &e, f.len > 1 || v < 4 || v % 3 == 0 || v > 250 || constant);
            if v % 5 == 0 {
                g.case(&label, b, name, if v % 2 == 0 { "p" } else { "o" }, &e, false);
            }
        }
    }
    // 2. truncation at every offset (parse only needs no AIR, but verify is attempted when it parses)
    for k in 0..n {
        g.case("trunc", b, name, "c", &format!("t{}", k), small || k % 7 == 0);
    }
    // 3. trailing garbage
    for k in [1usize, 2, 7, 8, 9, 64, 300] {
        let junk = rng.bytes(k);
        g.case("append", b, name, "c", &format!("a{}", hex(&junk)), true);
        g.case("append", b, name, "c", &format!("a{}", hex(&vec![0u8; k])), true);
        g.case("append", b, name, "c", &format!("a{}", hex(&vec![0xffu8; k])), true);
    }
    // 4. single-byte changes and single-bit flips
    let boundary = [0u8, 1, 0x7f, 0x80, 0xfe, 0xff];
    for off in 0..n {
        let cur = b.bytes[off];
        if thorough && small {
            for v in 0..=255u8 {
                if v != cur {
                    g.case("byte", b, name, "c", &format!("s{}:{:02x}", off, v), false);
                }
            }
        } else if small || thorough {
            for v in boundary {
                if v != cur {
                    g.case("byte", b, name, "c", &format!("s{}:{:02x}", off, v), off % 16 == 0);
                }
            }
            for bit in 0..8 {
                g.case("bit", b, name, "c", &format!("x{}:{:02x}", off, 1u8 << bit), false);
            }
        } else {
            let v = *rng.pick(&boundary);
            if v != cur {
                g.case("byte", b, name, "c", &format!("s{}:{:02x}", off, v), false);
            }
            g.case("byte", b, name, "c", &format!("s{}:{:02x}", off, rng.u64() as u8), false);
            g.case("bit", b, name, "c", &format!("x{}:{:02x}", off, 1u8 << rng.below(8)), false);
        }
    }
    // 5. structure-aware inconsistencies
    let comp = |nm: &str| comps.iter().find(|c| c.name == nm).cloned();
    let fld = |nm: &str| flds.iter().find(|f| f.name == nm).cloned();
    // 5a. fewer / more FRI layers than the options imply (count adjusted so that the bytes still parse)
    if let (Some(nl), Some(l0)) = (fld("fri.nlayers"), comp("fri.l0")) {
        let cnt = b.bytes[nl.off];
        g.case("fri-drop-layer", b, name, "c", &format!("s{}:{:02x},d{}:{}", nl.off, cnt - 1, l0.off, l0.len), true);
        let dup = hex(&b.bytes[l0.off..l0.off + l0.len]);
        g.case("fri-dup-layer", b, name, "c", &format!("s{}:{:02x},i{}:{}", nl.off, cnt + 1, l0.off, dup), true);
        // all layers removed
        let fri = comp("fri").unwrap();
        let last = comps.iter().filter(|c| c.name.starts_with("fri.l")).last().unwrap();
        g.case("fri-no-layers", b, name, "c", &format!("s{}:00,d{}:{}", nl.off, l0.off, last.off + last.len - l0.off), true);
        // and the matching commitments removed as well
        if let Some(cm) = comp("commitments") {
            let d = b.cfg.hash.digest_bytes();
            let newlen = cm.len - 2 - d;
            g.case(
                "fri-drop-layer-and-root",
                b,
                name,
                "c",
                &format!("s{}:{:02x},d{}:{},r{}:{}:{}", nl.off, cnt - 1, l0.off, l0.len, cm.off, cm.len, format!("{}{}", le_hex(newlen as u128, 2), hex(&b.bytes[cm.off + 2..cm.off + 2 + newlen]))),
                true,
            );
        }
    }
    // 5b. OOD frame: frame sizes 0, 1, 3, 255 with a consistent amount of data; a Lagrange frame where
    // none is expected; the Lagrange frame removed
    if let (Some(tl), Some(ll)) = (fld("ood.trace.len"), fld("ood.lagrange.len")) {
        let tlen = (b.bytes[tl.off] as usize) | ((b.bytes[tl.off + 1] as usize) << 8);
        let data = &b.bytes[tl.off + 3..tl.off + 2 + tlen];
        for fs in [0usize, 1, 3, 4, 255] {
            let mut d: Vec<u8> = vec![];
            let per = data.len() / 2;
            for _ in 0..fs.min(8) {
                d.extend_from_slice(&data[..per.min(data.len())]);
            }
            let mut blk = vec![fs as u8];
            blk.extend_from_slice(&d);
            let e = format!("r{}:{}:{}{}", tl.off, 2 + tlen, le_hex(blk.len() as u128, 2), hex(&blk));
            g.case("ood-frame-size", b, name, "c", &e, true);
        }
        let llen = (b.bytes[ll.off] as usize) | ((b.bytes[ll.off + 1] as usize) << 8);
        let esz = if per_elem(b) == 0 { 8 } else { per_elem(b) };
        for k in [1usize, 2, 4, 255] {
            let mut blk = vec![k as u8];
            for i in 0..k {
                blk.extend_from_slice(&data[(i * esz) % data.len().max(1)..][..esz.min(data.len())]);
            }
            let e = format!("r{}:{}:{}{}", ll.off, 2 + llen, le_hex(blk.len() as u128, 2), hex(&blk));
            g.case("ood-lagrange-frame", b, name, "c", &e, true);
        }
        g.case("ood-lagrange-none", b, name, "c", &format!("r{}:{}:010000", ll.off, 2 + llen), true);
        g.case("ood-lagrange-empty", b, name, "c", &format!("r{}:{}:0000", ll.off, 2 + llen), true);
    }
    // 5c. GKR proof: absent / present with element counts up to 2^64 - 1
    if let Some(gk) = comp("gkr") {
        for tail in [
            "00", "01", "0100", "0102", "01030000", "0100ffffffffffffffff", "01000000000000010000", "0100ffffffff00000000", "0100ffffffffffffff7f",
            "010301", "010303", "010305", "010307", "010309", "01030b", "01037f", "0105fe00", "01050201", "010503ff", "01030700", "0105070000",
            "01fe", "01fdff", "0180ffffffffffffff", "0140ffffffffffff", "0104aa", "02", "ff", "0110", "01f0ffffff", "0100000000000000ff00",
        ] {
            g.case("gkr", b, name, "c", &format!("r{}:{}:{}", gk.off, gk.len, tail), true);
        }
    }
    // 5c'. GKR proof with a HUGE claimed byte count followed by 0 / 1 / 255 / 256 / 257 / 1000 further bytes: the count
    // is a vint64 read by `read_many::<u8>`; a streaming reader (`ReadAdapter`) cannot know before the end of its
    // source that fewer bytes follow, so nothing may be reserved or trusted on the strength of the count
    if let Some(gk) = comp("gkr") {
        for count in [1u64 << 63, (1u64 << 63) + 1, u64::MAX, (1u64 << 63) - 1, 1u64 << 62, 1u64 << 48, 1u64 << 40, 1u64 << 32, 1u64 << 24] {
            for tail in [0usize, 1, 255, 256, 257, 1000] {
                let mut blk = vec![1u8, 0u8];
                blk.extend_from_slice(&count.to_le_bytes());
                blk.extend((0..tail).map(|i| (i % 251) as u8));
                g.case("gkr-huge", b, name, "c", &format!("r{}:{}:{}", gk.off, gk.len, hex(&blk)), true);
            }
        }
    }
    // 5d. components of another valid proof of a different shape
    for ob in others {
        if ob.cfg.name == name {
            continue;
        }
        if let Some((_, oc)) = layout(&ob.bytes, ob.cfg.hash.digest_bytes()) {
            for cn in ["traceinfo", "options", "context", "commitments", "tq0", "cq", "ood", "fri", "gkr"] {
                if let (Some(a), Some(c)) = (comp(cn), oc.iter().find(|c| c.name == cn)) {
                    let e = format!("r{}:{}:{}", a.off, a.len, hex(&ob.bytes[c.off..c.off + c.len]));
                    g.case(&format!("swap:{}", cn), b, name, "c", &e, ob.bytes.len() < 3000 && n < 3000);
                }
            }
        }
    }
    // 5e. pairs of fields set together (inconsistent with the rest, consistent with each other or not)
    let counts: Vec<&Fld> = flds.iter().filter(|f| f.count).collect();
    let pairs = if thorough { 4000 } else { 400 };
    for _ in 0..pairs {
        let f1 = *rng.pick(&counts);
        let f2 = *rng.pick(&counts);
        if f1.off == f2.off {
            continue;
        }
        let pickv = |rng: &mut Rng, f: &Fld| -> u128 {
            let bits = 8 * f.len as u32;
            let max = (1u128 << bits) - 1;
            match rng.below(6) {
                0 => 0,
                1 => 1,
                2 => max,
                3 => max - 1,
                4 => rng.u64() as u128 & max,
                _ => rng.below(16) as u128,
            }
        };
        let e = format!("s{}:{},s{}:{}", f1.off, le_hex(pickv(rng, f1), f1.len), f2.off, le_hex(pickv(rng, f2), f2.len));
        g.case("pair", b, name, *rng.pick(&["c", "c", "c", "p", "o"]), &e, false);
    }
    // 5g. consistent structural mutants, context pairs (hardening)
    gen_struct(g, rng, b, tier, others);
    if ["fib8", "sq8rp", "fib62q", "cube128", "auxw", "jive3"].contains(&name) {
        gen_hand(g, rng, b, tier);
    }
    gen_ctx_pairs(g, rng, b, tier, &flds, thorough || name == "fib8" || name == "sq8rp" || name == "lag8");
    // 5f. random multi-byte damage: insertions, deletions, overwritten runs
    let multi = if thorough { 3000 } else { 300 };
    for _ in 0..multi {
        let off = rng.below(n as u64) as usize;
        let len = 1 + rng.below(12) as usize;
        let e = match rng.below(4) {
            0 => format!("d{}:{}", off, len),
            1 => format!("i{}:{}", off, hex(&rng.bytes(len))),
            2 => format!("s{}:{}", off, hex(&rng.bytes(len))),
            _ => format!("s{}:{}", off, hex(&vec![*rng.pick(&boundary); len])),
        };
        g.case("multi", b, name, "c", &e, false);
    }
}

/// bytes of one element of the OOD frame (extension degree x base element bytes)
fn per_elem(b: &Base) -> usize {
    let base = match b.cfg.field {
        FieldId::F128 => 16,
        _ => 8,
    };
    base * b.opts.ext as usize
}

pub struct P;

impl Prop for P {
    fn id(&self) -> &'static str {
        "C06"
    }

    fn gen(&self, rng: &mut Rng, tier: Tier, n: usize, emit: &mut dyn FnMut(String)) {
        let mut bases = vec![];
        for c in CFGS {
            match base(c.name) {
                Ok(b) => bases.push(b),
                Err(e) => emit(format!("mut x base-failed {} - c -", c.name)),
            }
        }
        let per_cfg = if tier == Tier::Thorough { 12_000 } else { 3_500 };
        // about 100-250 (quick) / 1000 and more (thorough) of the model-compared cases of each configuration with a Rescue hasher
        // go to the reference verifier too
        let refv_every = if tier == Tier::Thorough { 16 } else { 84 };
        let mut g = Gen { emit, raw_budget: 200, fam: HashMap::new(), refv_every: 0, raw_seen: 0 };
        // purely hostile strings: empty, short, random, all-equal bytes
        for k in 0..64usize {
            let z = vec![0u8; k];
            let f = vec![0xffu8; k];
            if let Some(b) = bases.first() {
                let ap = air_params(b);
                (g.emit)(format!("raw x junk {} {} {}", b.cfg.name, ap, hex(&z)));
                (g.emit)(format!("raw x junk {} {} {}", b.cfg.name, ap, hex(&f)));
                (g.emit)(format!("raw x junk {} {} {}", b.cfg.name, ap, hex(&rng.bytes(k))));
            }
        }
        {
            let mut r = rng.fork();
            gen_fri(g.emit, &mut r, tier);
            gen_mrk(g.emit, &mut r, tier);
        }
        for (i, b) in bases.iter().enumerate() {
            // the two smallest configurations get the full single-byte treatment
            // (thorough: every proof of at most 1130 bytes, i.e. 8 of the 13)
            let small = b.cfg.name == "sq8rp" || b.cfg.name == "fib62q" || (tier == Tier::Thorough && b.bytes.len() <= 1130);
            let mut r = rng.fork();
            g.raw_budget = per_cfg;
            g.refv_every = refv_every;
            g.raw_seen = 0;
            if refv_modelled(b) {
                // the valid proof itself
                (g.emit)(refv_line("valid", b, &b.bytes));
            }
            gen_for(&mut g, &mut r, b, tier, small, &bases);
        }
    }

    fn exec(&self, line: &str) -> Outcome {
        let t: Vec<&str> = line.split(' ').filter(|x| !x.is_empty()).collect();
        match t.first().copied() {
            Some("mut") => exec_mut(&t[1..]),
            Some("raw") => exec_raw(&t[1..]),
            Some("refv") => exec_refv(&t[1..]),
            Some("fri") => exec_fri(&t[1..]),
            Some("frih") => exec_frih(&t[1..]),
            Some("mrk") => exec_mrk(&t[1..]),
            _ => Outcome::ok("bad-op"),
        }
    }

    fn timeout_ms(&self) -> u64 {
        30_000
    }

    fn mem_cap(&self) -> u64 {
        2 << 30
    }

    fn nontrivial(&self, _line: &str, out: &str) -> bool {
        !out.starts_with("bad-")
    }

    fn class(&self, line: &str, out: &str) -> String {
        let t: Vec<&str> = line.split(' ').collect();
        if t.first() == Some(&"refv") {
            let label = t.get(8).copied().unwrap_or("?");
            let label = label.split(':').next().unwrap_or(label);
            return format!("refv.{}.{}:{}", t.get(2).copied().unwrap_or("?"), label, out.split(':').take(2).collect::<Vec<_>>().join(":"));
        }
        let label = t.get(2).copied().unwrap_or("?");
        let label = label.split(':').next().unwrap_or(label);
        let o: Vec<&str> = out.split(' ').map(|x| x.split(':').next().unwrap_or(x)).collect();
        format!("{}.{}:{}", t.first().unwrap_or(&"?"), label, o.join("/"))
    }

    fn rule(&self) -> &'static str {
        "distinct op lines that are not bad-op: one byte string (a valid proof of one of the base configurations after the listed edits, or literal bytes) pushed through Proof::from_bytes and, when it parses, verify() against the named AIR and public inputs; judged by outcome class (ok/err vs panic/abort/hang) and by the heap bytes requested"
    }

    fn panic_site(&self, _line: &str) -> Option<String> {
        // panics of the code under test are caught per stage inside exec; anything that escapes is the harness's
        Some("c06.harness.panic".into())
    }
}

fn main() {
    main_for(&P);
}
