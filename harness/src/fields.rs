//! Uniform view of the three base fields for the harness (shared by several properties).
use winter_math::{fields::f128, fields::f62, fields::f64, FieldElement, StarkField};

pub const M64: u128 = 0xFFFFFFFF00000001;
pub const M62: u128 = 4611624995532046337;
pub const M128: u128 = 340282366920938463463374557953744961537;

/// uniform view of the three base fields for the harness
pub trait Fld: StarkField + Sized {
    const NAME: &'static str;
    const MOD: u128;
    fn from_word(v: u128) -> Self; // BaseElement::new (silent reduction)
    fn from_raw_word(r: u128) -> Self;
    fn raw_word(&self) -> u128;
    fn canon(&self) -> u128;
    fn raw_ok(r: u128) -> bool; // representation invariant
    fn exp_u(self, e: u128) -> Self;
    /// `FieldElement::exp_vartime` (the trait's default implementation)
    fn expv_u(self, e: u128) -> Self;
    fn try_u128(v: u128) -> Result<Self, ()>;
    fn word_bits() -> u32;
}

impl Fld for f64::BaseElement {
    const NAME: &'static str = "f64";
    const MOD: u128 = M64;
    fn from_word(v: u128) -> Self {
        f64::BaseElement::new(v as u64)
    }
    fn from_raw_word(r: u128) -> Self {
        f64::BaseElement::from_mont(r as u64)
    }
    fn raw_word(&self) -> u128 {
        self.inner() as u128
    }
    fn canon(&self) -> u128 {
        StarkField::as_int(self) as u128
    }
    fn raw_ok(r: u128) -> bool {
        r < M64
    }
    fn exp_u(self, e: u128) -> Self {
        self.exp(e as u64)
    }
    fn expv_u(self, e: u128) -> Self {
        self.exp_vartime(e as u64)
    }
    fn try_u128(v: u128) -> Result<Self, ()> {
        <Self as TryFrom<u128>>::try_from(v).map_err(|_| ())
    }
    fn word_bits() -> u32 {
        64
    }
}

impl Fld for f62::BaseElement {
    const NAME: &'static str = "f62";
    const MOD: u128 = M62;
    fn from_word(v: u128) -> Self {
        f62::BaseElement::new(v as u64)
    }
    fn from_raw_word(r: u128) -> Self {
        f62::BaseElement::from_raw(r as u64)
    }
    fn raw_word(&self) -> u128 {
        self.raw() as u128
    }
    fn canon(&self) -> u128 {
        StarkField::as_int(self) as u128
    }
    fn raw_ok(r: u128) -> bool {
        r < 2 * M62
    }
    fn exp_u(self, e: u128) -> Self {
        self.exp(e as u64)
    }
    fn expv_u(self, e: u128) -> Self {
        self.exp_vartime(e as u64)
    }
    fn try_u128(v: u128) -> Result<Self, ()> {
        <Self as TryFrom<u128>>::try_from(v).map_err(|_| ())
    }
    fn word_bits() -> u32 {
        64
    }
}

impl Fld for f128::BaseElement {
    const NAME: &'static str = "f128";
    const MOD: u128 = M128;
    fn from_word(v: u128) -> Self {
        f128::BaseElement::new(v)
    }
    fn from_raw_word(r: u128) -> Self {
        // the 128-bit field stores canonical values; raw words are canonical integers
        <Self as TryFrom<u128>>::try_from(r).unwrap()
    }
    fn raw_word(&self) -> u128 {
        StarkField::as_int(self)
    }
    fn canon(&self) -> u128 {
        StarkField::as_int(self)
    }
    fn raw_ok(r: u128) -> bool {
        r < M128
    }
    fn exp_u(self, e: u128) -> Self {
        self.exp(e)
    }
    fn expv_u(self, e: u128) -> Self {
        self.exp_vartime(e)
    }
    fn try_u128(v: u128) -> Result<Self, ()> {
        <Self as TryFrom<u128>>::try_from(v).map_err(|_| ())
    }
    fn word_bits() -> u32 {
        128
    }
}

/// boundary words of a field with modulus `m` whose integers have `bits` bits
pub fn boundary(m: u128, bits: u32) -> Vec<u128> {
    let mut v: Vec<u128> = vec![0, 1, 2, 3, 7, m - 1, m - 2, m - 3, (m - 1) / 2, (m + 1) / 2, (m - 1) / 2 - 1];
    v.push(m);
    v.push(m + 1);
    v.push(m + 2);
    v.push(2 * m.min(u128::MAX / 2) - 1);
    v.push(2 * m.min(u128::MAX / 2) - 2);
    for k in [31u32, 32, 33, 61, 62, 63, 64, 95, 96, 127] {
        if k < bits || (k == bits && bits < 128) {
            let b = 1u128 << k;
            for d in [0u128, 1, 2] {
                v.push(b.wrapping_add(d));
                v.push(b.wrapping_sub(d));
            }
        }
    }
    if bits == 64 {
        let top = (1u128 << 64) - (1u128 << 32);
        for d in 0..4u128 {
            v.push(top + d);
            v.push(top - d);
            v.push((1u128 << 64) - 1 - d);
        }
        v.push(0xFFFFFFFF);
        v.push(0xFFFFFFFF00000000);
        v.push(6148914689804861441);
        v.push(0x5555555555555555);
        v.push(0xAAAAAAAAAAAAAAAA);
    } else {
        v.push(u128::MAX);
        v.push(u128::MAX - 1);
        v.push((1u128 << 64) - 1);
        v.push(1u128 << 64);
        v.push(((1u128 << 64) - 1) << 64);
    }
    let lim = if bits == 128 { u128::MAX } else { (1u128 << bits) - 1 };
    v.retain(|x| *x <= lim);
    v.sort();
    v.dedup();
    v
}

/// canonical value of a raw internal word according to the oracle (not the implementation)
pub fn raw_val<F: Fld>(r: u128) -> u128 {
    use crate::oracle::*;
    match F::NAME {
        "f128" => r % F::MOD,
        // Montgomery image: value = r * R^-1 mod M, R = 2^64
        _ => mulmod(r % F::MOD, invmod((1u128 << 64) % F::MOD, F::MOD), F::MOD),
    }
}
