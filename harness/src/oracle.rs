//! Independent reference arithmetic (no Winterfell code): modular arithmetic on u128 / 256-bit.

/// (a * b) mod m for a, b, m < 2^128 (double-and-add; independent of the implementation)
pub fn mulmod(a: u128, b: u128, m: u128) -> u128 {
    if m <= u64::MAX as u128 + 1 && a < m && b < m {
        return (a * b) % m;
    }
    let mut a = a % m;
    let mut b = b % m;
    let mut r: u128 = 0;
    while b > 0 {
        if b & 1 == 1 {
            r = addmod(r, a, m);
        }
        a = addmod(a, a, m);
        b >>= 1;
    }
    r
}

pub fn addmod(a: u128, b: u128, m: u128) -> u128 {
    let a = a % m;
    let b = b % m;
    let (s, o) = a.overflowing_add(b);
    if o || s >= m {
        s.wrapping_sub(m)
    } else {
        s
    }
}

pub fn submod(a: u128, b: u128, m: u128) -> u128 {
    let a = a % m;
    let b = b % m;
    if a >= b {
        a - b
    } else {
        m - (b - a)
    }
}

pub fn powmod(a: u128, mut e: u128, m: u128) -> u128 {
    let mut b = a % m;
    let mut r: u128 = 1 % m;
    while e > 0 {
        if e & 1 == 1 {
            r = mulmod(r, b, m);
        }
        b = mulmod(b, b, m);
        e >>= 1;
    }
    r
}

pub fn invmod(a: u128, m: u128) -> u128 {
    if a % m == 0 {
        0
    } else {
        powmod(a, m - 2, m)
    }
}
