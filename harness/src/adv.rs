//! Adversary-side helpers shared by the binaries of C02 and C03 (included there with
//! `#[path = "../adv.rs"] mod adv;` — not a module of the library crate).
//!
//! * [`AdvProver`]: the data-driven prover of `genair` with two extra degrees of freedom an honest
//!   prover does not have: the PUBLIC INPUTS it claims can be forced (instead of being read off the
//!   trace) and the trace info can carry metadata bytes;
//! * [`RecCoin`]: a `RandomCoin` that wraps `DefaultRandomCoin` and records what the verifier draws
//!   (query positions, number of draws, reseed count); handed to `winter_verifier::verify` through its
//!   `RandCoin` type parameter, so the positions are the ones the verifier's own code path computes;
//! * `prove_adv` / `verify_rec`: dispatch over field × hasher.
#![allow(dead_code, unused_imports, clippy::too_many_arguments, clippy::type_complexity)]
use std::cell::RefCell;
use std::marker::PhantomData;
use std::sync::Arc;

use wf_harness::fields::Fld;
use wf_harness::genair::*;
use winter_air::{
    proof::Proof, AuxRandElements, ConstraintCompositionCoefficients, EvaluationFrame, LagrangeKernelRandElements,
    ProofOptions, TraceInfo,
};
use winter_crypto::{
    hashers::{Blake3_192, Blake3_256, Rp62_248, Rp64_256, RpJive64_256, Sha3_256},
    DefaultRandomCoin, Digest, ElementHasher, Hasher, RandomCoin, RandomCoinError,
};
use winter_math::{
    fields::{f128, f62, f64},
    FieldElement,
};
use winter_prover::{
    matrix::ColMatrix, DefaultConstraintEvaluator, DefaultTraceLde, Prover, ProverError, StarkDomain, Trace,
    TracePolyTable,
};
use winter_verifier::{AcceptableOptions, VerifierError};

// ------------------------------------------------------------------------------------ trace
pub struct AdvTrace<B: GField> {
    info: TraceInfo,
    main: ColMatrix<B>,
}

/// the `TraceInfo` of a description, with metadata
pub fn trace_info_meta(desc: &AirDesc, meta: &[u8]) -> TraceInfo {
    match &desc.aux {
        None => TraceInfo::with_meta(desc.width, desc.trace_len, meta.to_vec()),
        Some(x) => TraceInfo::new_multi_segment(desc.width, x.width, x.num_rands, desc.trace_len, meta.to_vec()),
    }
}

impl<B: GField> AdvTrace<B> {
    pub fn new(desc: &AirDesc, data: &TraceData, meta: &[u8]) -> Self {
        assert_eq!(data.len(), desc.width, "trace width differs from the description");
        let cols: Vec<Vec<B>> = data
            .iter()
            .map(|c| {
                assert_eq!(c.len(), desc.trace_len, "trace length differs from the description");
                c.iter().map(|v| B::from_word(*v % B::MOD)).collect()
            })
            .collect();
        AdvTrace { info: trace_info_meta(desc, meta), main: ColMatrix::new(cols) }
    }
}

impl<B: GField> Trace for AdvTrace<B> {
    type BaseField = B;

    fn info(&self) -> &TraceInfo {
        &self.info
    }

    fn main_segment(&self) -> &ColMatrix<B> {
        &self.main
    }

    fn read_main_frame(&self, row_idx: usize, frame: &mut EvaluationFrame<B>) {
        let next = (row_idx + 1) % self.main.num_rows();
        self.main.read_row_into(row_idx, frame.current_mut());
        self.main.read_row_into(next, frame.next_mut());
    }
}

// ------------------------------------------------------------------------------------ prover
pub struct AdvProver<B: GField, H> {
    desc: Arc<AirDesc>,
    options: ProofOptions,
    /// the public inputs the prover claims; `None`: read off the trace (honest behaviour)
    forced_pubs: Option<Vec<B>>,
    /// corrupt one cell (column, row) of the auxiliary segment after it was built (adds ONE)
    aux_corrupt: Option<(usize, usize)>,
    /// verdict of the reference predicate `check_aux` on the auxiliary segment that was committed
    pub aux_check: std::sync::Mutex<Option<Result<(), Violation>>>,
    _p: PhantomData<H>,
}

impl<B: GField, H> AdvProver<B, H> {
    pub fn new(desc: Arc<AirDesc>, options: ProofOptions, forced_pubs: Option<Vec<B>>, aux_corrupt: Option<(usize, usize)>) -> Self {
        AdvProver { desc, options, forced_pubs, aux_corrupt, aux_check: std::sync::Mutex::new(None), _p: PhantomData }
    }
}

impl<B, H> Prover for AdvProver<B, H>
where
    B: GField,
    H: ElementHasher<BaseField = B> + Send + Sync,
{
    type BaseField = B;
    type Air = GenericAir<B>;
    type Trace = AdvTrace<B>;
    type HashFn = H;
    type RandomCoin = DefaultRandomCoin<H>;
    type TraceLde<E: FieldElement<BaseField = B>> = DefaultTraceLde<E, H>;
    type ConstraintEvaluator<'a, E: FieldElement<BaseField = B>> = DefaultConstraintEvaluator<'a, GenericAir<B>, E>;

    fn get_pub_inputs(&self, trace: &AdvTrace<B>) -> GenPub<B> {
        let values = match &self.forced_pubs {
            Some(v) => v.clone(),
            None => {
                let cols: Vec<&[B]> = (0..trace.main.num_cols()).map(|c| trace.main.get_column(c)).collect();
                asserted_values(&self.desc, &cols)
            },
        };
        GenPub { desc: self.desc.clone(), values }
    }

    fn options(&self) -> &ProofOptions {
        &self.options
    }

    fn new_trace_lde<E: FieldElement<BaseField = B>>(
        &self,
        trace_info: &TraceInfo,
        main_trace: &ColMatrix<B>,
        domain: &StarkDomain<B>,
    ) -> (Self::TraceLde<E>, TracePolyTable<E>) {
        DefaultTraceLde::new(trace_info, main_trace, domain)
    }

    fn new_evaluator<'a, E: FieldElement<BaseField = B>>(
        &self,
        air: &'a GenericAir<B>,
        aux_rand_elements: Option<AuxRandElements<E>>,
        composition_coefficients: ConstraintCompositionCoefficients<E>,
    ) -> Self::ConstraintEvaluator<'a, E> {
        DefaultConstraintEvaluator::new(air, aux_rand_elements, composition_coefficients)
    }

    fn generate_gkr_proof<E>(&self, main_trace: &AdvTrace<B>, public_coin: &mut Self::RandomCoin) -> (usize, LagrangeKernelRandElements<E>)
    where
        E: FieldElement<BaseField = B>,
    {
        let log_n = main_trace.main.num_rows().ilog2() as usize;
        let mut r = Vec::with_capacity(log_n);
        for _ in 0..log_n {
            r.push(public_coin.draw().expect("failed to draw a Lagrange kernel random element"));
        }
        (log_n, LagrangeKernelRandElements::new(r))
    }

    fn build_aux_trace<E>(&self, main_trace: &AdvTrace<B>, aux_rand_elements: &AuxRandElements<E>) -> ColMatrix<E>
    where
        E: FieldElement<BaseField = B>,
    {
        let x = self.desc.aux.as_ref().expect("aux segment");
        let main: Vec<&[B]> = (0..main_trace.main.num_cols()).map(|c| main_trace.main.get_column(c)).collect();
        let rands = aux_rand_elements.rand_elements();
        let lag: Vec<E> = aux_rand_elements.lagrange().map(|l| l.iter().copied().collect()).unwrap_or_default();
        let mut cols = build_aux_columns::<B, E>(&self.desc, x, &main, rands, &lag);
        if let Some((c, r)) = self.aux_corrupt {
            if c < cols.len() && r < cols[c].len() {
                let mode = AUX_MODE.with(|m| m.get());
                if mode == 5 {
                    // the whole column scaled by 2: homogeneous relations between its cells (running products,
                    // the Lagrange kernel transition constraints) survive, only the boundary constraints do not
                    for x in cols[c].iter_mut() {
                        *x = *x + *x;
                    }
                } else {
                    cols[c][r] += aux_delta::<E>(mode);
                }
            }
        }
        let pubs = match &self.forced_pubs {
            Some(v) => v.clone(),
            None => asserted_values(&self.desc, &main),
        };
        *self.aux_check.lock().unwrap() = Some(check_aux::<B, E>(&self.desc, &main, &cols, rands, &lag, &pubs));
        ColMatrix::new(cols)
    }
}

// ------------------------------------------------------------------------------------ aux corruption value
thread_local! {
    static AUX_MODE: std::cell::Cell<u8> = std::cell::Cell::new(0);
}

/// how the corrupted auxiliary cell is changed: 0 adds ONE, 1 adds an element whose base-field coordinate is
/// zero (a difference visible in the extension coordinates only; ONE for the base field itself), 2 adds 2,
/// 3 adds 2^32, 4 subtracts ONE, 5 doubles the WHOLE column
pub fn set_aux_mode(mode: u8) {
    AUX_MODE.with(|m| m.set(mode));
}

fn aux_delta<E: FieldElement>(mode: u8) -> E {
    match mode {
        1 => {
            // coordinates (0, 1, 1, …): built from the canonical bytes of the element
            let eb = <E::BaseField as FieldElement>::ELEMENT_BYTES;
            if E::ELEMENT_BYTES == eb {
                return E::ONE;
            }
            let mut bytes = vec![0u8; E::ELEMENT_BYTES];
            let mut at = eb;
            while at < E::ELEMENT_BYTES {
                bytes[at] = 1;
                at += eb;
            }
            <E as winter_utils::Deserializable>::read_from_bytes(&bytes).unwrap_or(E::ONE)
        },
        2 => E::ONE + E::ONE,
        3 => E::from(1u32 << 16) * E::from(1u32 << 16),
        4 => -E::ONE,
        _ => E::ONE,
    }
}

// ------------------------------------------------------------------------------------ recording coin
/// what the verifier's coin did during one `verify`
#[derive(Clone, Debug, Default)]
pub struct Record {
    /// result of every `draw_integers` call (the verifier makes one: the query positions, before
    /// sorting and de-duplication)
    pub ints: Vec<Vec<usize>>,
    /// number of successful `draw` calls
    pub draws: usize,
    /// serialized digests absorbed by `reseed`, in order
    pub reseeds: Vec<Vec<u8>>,
    /// number of coins created
    pub news: usize,
}

thread_local! {
    static REC: RefCell<Record> = RefCell::new(Record::default());
}

pub fn rec_reset() {
    REC.with(|r| *r.borrow_mut() = Record::default());
}

pub fn rec_take() -> Record {
    REC.with(|r| std::mem::take(&mut *r.borrow_mut()))
}

pub struct RecCoin<H: ElementHasher> {
    inner: DefaultRandomCoin<H>,
}

impl<B: winter_math::StarkField, H: ElementHasher<BaseField = B>> RandomCoin for RecCoin<H> {
    type BaseField = B;
    type Hasher = H;

    fn new(seed: &[B]) -> Self {
        REC.with(|r| r.borrow_mut().news += 1);
        RecCoin { inner: DefaultRandomCoin::new(seed) }
    }

    fn reseed(&mut self, data: H::Digest) {
        REC.with(|r| r.borrow_mut().reseeds.push(data.as_bytes().to_vec()));
        self.inner.reseed(data)
    }

    fn check_leading_zeros(&self, value: u64) -> u32 {
        self.inner.check_leading_zeros(value)
    }

    fn draw<E: FieldElement<BaseField = B>>(&mut self) -> Result<E, RandomCoinError> {
        let r = self.inner.draw::<E>();
        if r.is_ok() {
            REC.with(|r| r.borrow_mut().draws += 1);
        }
        r
    }

    fn draw_integers(&mut self, num_values: usize, domain_size: usize, nonce: u64) -> Result<Vec<usize>, RandomCoinError> {
        let r = self.inner.draw_integers(num_values, domain_size, nonce);
        if let Ok(v) = &r {
            REC.with(|rec| rec.borrow_mut().ints.push(v.clone()));
        }
        r
    }
}

// ------------------------------------------------------------------------------------ dispatch
macro_rules! adv_dispatch {
    ($field:expr, $hash:expr, $f:ident, ($($args:expr),*)) => {
        match ($field, $hash) {
            (FieldId::F62, HashId::Blake3_256) => $f::<f62::BaseElement, Blake3_256<f62::BaseElement>>($($args),*),
            (FieldId::F62, HashId::Blake3_192) => $f::<f62::BaseElement, Blake3_192<f62::BaseElement>>($($args),*),
            (FieldId::F62, HashId::Sha3_256) => $f::<f62::BaseElement, Sha3_256<f62::BaseElement>>($($args),*),
            (FieldId::F62, HashId::Rp62_248) => $f::<f62::BaseElement, Rp62_248>($($args),*),
            (FieldId::F64, HashId::Blake3_256) => $f::<f64::BaseElement, Blake3_256<f64::BaseElement>>($($args),*),
            (FieldId::F64, HashId::Blake3_192) => $f::<f64::BaseElement, Blake3_192<f64::BaseElement>>($($args),*),
            (FieldId::F64, HashId::Sha3_256) => $f::<f64::BaseElement, Sha3_256<f64::BaseElement>>($($args),*),
            (FieldId::F64, HashId::Rp64_256) => $f::<f64::BaseElement, Rp64_256>($($args),*),
            (FieldId::F64, HashId::RpJive64_256) => $f::<f64::BaseElement, RpJive64_256>($($args),*),
            (FieldId::F128, HashId::Blake3_256) => $f::<f128::BaseElement, Blake3_256<f128::BaseElement>>($($args),*),
            (FieldId::F128, HashId::Blake3_192) => $f::<f128::BaseElement, Blake3_192<f128::BaseElement>>($($args),*),
            (FieldId::F128, HashId::Sha3_256) => $f::<f128::BaseElement, Sha3_256<f128::BaseElement>>($($args),*),
            (f, h) => panic!("hasher {} cannot be used with field {}", h.name(), f.name()),
        }
    };
}
pub(crate) use adv_dispatch;

fn prove_adv_g<B: GField, H: ElementHasher<BaseField = B> + Send + Sync>(
    desc: &Arc<AirDesc>,
    trace: &TraceData,
    opts: &OptSpec,
    forced_pubs: Option<&[u128]>,
    meta: &[u8],
    aux_corrupt: Option<(usize, usize)>,
) -> AdvOut {
    let forced = forced_pubs.map(|p| p.iter().map(|v| B::from_word(*v % B::MOD)).collect::<Vec<B>>());
    let prover = AdvProver::<B, H>::new(desc.clone(), opts.to_options(), forced, aux_corrupt);
    let proof = prover.prove(AdvTrace::<B>::new(desc, trace, meta));
    let aux_check = prover.aux_check.lock().unwrap().take();
    AdvOut { proof, aux_check }
}

pub struct AdvOut {
    pub proof: Result<Proof, ProverError>,
    /// verdict of `check_aux` on the committed auxiliary segment (None: no auxiliary segment)
    pub aux_check: Option<Result<(), Violation>>,
}

/// prove `trace` (valid or not) claiming `forced_pubs` (or the values read off the trace) with
/// trace metadata `meta`; panics where the library panics
pub fn prove_adv(
    desc: &Arc<AirDesc>,
    trace: &TraceData,
    field: FieldId,
    opts: &OptSpec,
    hasher: HashId,
    forced_pubs: Option<&[u128]>,
    meta: &[u8],
    aux_corrupt: Option<(usize, usize)>,
) -> AdvOut {
    adv_dispatch!(field, hasher, prove_adv_g, (desc, trace, opts, forced_pubs, meta, aux_corrupt))
}

fn verify_rec_g<B: GField, H: ElementHasher<BaseField = B> + Send + Sync>(
    desc: &Arc<AirDesc>,
    pubs: &[u128],
    proof: Proof,
    acceptable: &AcceptableOptions,
) -> Result<(), VerifierError> {
    let values: Vec<B> = pubs.iter().map(|v| B::from_word(*v % B::MOD)).collect();
    winter_verifier::verify::<GenericAir<B>, H, RecCoin<H>>(proof, GenPub { desc: desc.clone(), values }, acceptable)
}

/// `winter_verifier::verify` with the recording coin; the record is left in the thread-local
/// (`rec_take`) also when the verifier panics
pub fn verify_rec(
    desc: &Arc<AirDesc>,
    field: FieldId,
    hasher: HashId,
    pubs: &[u128],
    proof: Proof,
    acceptable: &AcceptableOptions,
) -> Result<(), VerifierError> {
    rec_reset();
    adv_dispatch!(field, hasher, verify_rec_g, (desc, pubs, proof, acceptable))
}

fn lib_validate_g<B: GField, H: ElementHasher<BaseField = B> + Send + Sync>(
    desc: &Arc<AirDesc>,
    trace: &TraceData,
    opts: &OptSpec,
    pubs: &[u128],
) {
    use winter_air::Air;
    let values: Vec<B> = pubs.iter().map(|v| B::from_word(*v % B::MOD)).collect();
    let t = AdvTrace::<B>::new(desc, trace, &[]);
    let air = GenericAir::<B>::new(t.info().clone(), GenPub { desc: desc.clone(), values }, opts.to_options());
    t.validate::<GenericAir<B>, B>(&air, None);
}

/// the library's own `Trace::validate` (main segment only; panics on an invalid trace)
pub fn lib_validate(desc: &Arc<AirDesc>, trace: &TraceData, field: FieldId, opts: &OptSpec, pubs: &[u128]) {
    let h = HashId::Blake3_256;
    adv_dispatch!(field, h, lib_validate_g, (desc, trace, opts, pubs))
}

/// "<file relative to the repository>" of a panic location "<file>:<line> <message>"
pub fn panic_file(info: &str) -> String {
    let loc = info.split(' ').next().unwrap_or("");
    let file = loc.rsplitn(2, ':').nth(1).unwrap_or(loc);
    for krate in ["/air/src/", "/prover/src/", "/verifier/src/", "/fri/src/", "/crypto/src/", "/math/src/", "/utils/core/src/"] {
        if let Some(i) = file.rfind(krate) {
            return file[i + 1..].to_string();
        }
    }
    if let Some(i) = file.find("/harness/src/") {
        return file[i + 1..].to_string();
    }
    file.to_string()
}

pub fn is_sampling_limit(info: &str) -> bool {
    info.contains("FailedToDraw") || info.contains("failed to draw") || info.contains("failed to generate")
}
