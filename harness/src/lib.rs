//! wf-harness: drives the real Winterfell crates (linked in-process) with operation lines,
//! one op per line, for the correspondence check (tie K) and the failing-input search.
//! One binary per property (src/bin/cNN.rs); each implements `core::Prop` and calls
//! `core::main_for`:
//!
//!   cNN run --tier quick|thorough --seed S --out DIR [--n N] [--corpus DIR]
//!       generate ops (DIR/ops.txt), execute them (DIR/impl.out), judge them with the
//!       property's own oracle (DIR/fails.txt) and write DIR/report.json
//!   cNN replay <ops-file> --out DIR      execute the given op lines only
//!   cNN worker <ops-file> <start> <end> <out-file>      (internal)
//!
//! Every case runs in a worker process under catch_unwind; the supervisor detects aborts
//! (signal, allocation failure) and hangs (no progress within the property's timeout), records
//! them as the outcome of the case (`abort` / `hang`) and restarts the worker after it.
#![allow(dead_code, unused_variables, unused_imports, unused_mut)]
pub mod core;
pub mod fields;
#[cfg(feature = "genair")]
pub mod genair;
pub mod oracle;
