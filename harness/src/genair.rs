//! genair: a DATA-DRIVEN family of computations (AIRs) with a prover, a trace generator and a
//! reference validity predicate, shared by the protocol-level properties (C01–C04, C06, C14, C17).
//!
//! # Public API (stable; extended compatibly)
//!
//! * [`AirDesc`] — description of one computation; `AirDesc::parse(&str)` / `to_line()` convert
//!   from/to ONE text token without blanks (grammar below); `validate()`, `min_blowup()`,
//!   `max_exemptions()`, `natural_degree()`, `num_pub_inputs()`.
//! * [`Expr`] — expression trees of constraints / generation rules (prefix notation).
//! * [`GenericAir<B>`] (`winter_air::Air`), [`GenPub<B>`] (its public inputs: description + asserted
//!   values), [`GenTrace<B>`] (`winter_prover::Trace`), [`GenericProver<B, H, R>`]
//!   (`winter_prover::Prover`, `DefaultTraceLde`, `DefaultConstraintEvaluator`).
//! * [`gen_trace`]`(desc, field, seed) -> TraceData` — a trace valid by construction (column major,
//!   canonical integers); [`pub_inputs`]`(desc, field, &trace) -> Vec<u128>` — the asserted values.
//! * [`is_valid`]`(desc, field, &trace, &pubs) -> Result<(), Violation>` — reference validity
//!   predicate of the main segment, written without the library (direct evaluation);
//!   [`check_main`] / [`check_aux`] are its generic parts (the auxiliary segment depends on the
//!   verifier's randomness: `prove_ex` reports its validity as observed during proving).
//! * [`prove`]`(desc, &trace, field, &OptSpec, hasher) -> Result<Proof, ProverError>`,
//!   [`prove_ex`] (additionally returns the validity of the auxiliary segment that was built),
//!   [`verify`]`(desc, field, hasher, &pubs, proof, &AcceptableOptions) -> Result<(), VerifierError>`
//!   — dispatch over [`FieldId`] × extension (in the options) × [`HashId`]; no generics needed.
//! * [`OptSpec`] — proof options as plain numbers (`q.b.g.x.f.r` text form), `accepted()` = what
//!   `ProofOptions::new` accepts, `to_options()`.
//! * [`random_desc`]`(rng, &Budget) -> AirDesc` — random description within a size budget (structured
//!   periodic columns and assertion sequences included); [`random_desc_for`] adds field-specific
//!   low-degree periodic columns ([`low_degree_periodic`]) and geometric columns under sequence
//!   assertions ([`trace_generator_pow`], [`interesting_degrees`], [`sequence_interpolants`]).
//! * [`shifted_sequence_values`] — the value polynomial of a sequence assertion evaluated under another
//!   domain offset: the cells an adversary puts at the asserted steps to satisfy a boundary constraint built
//!   with a wrong offset (multi-cell forgery; such a column violates the assertion and must be rejected).
//!
//! # Notes for users
//! * The harness is built with debug assertions: the library then validates the trace before
//!   proving (`Trace::validate` panics on an invalid trace) and checks that the actual constraint
//!   degrees do not exceed the declared ones. Properties that must get INVALID traces past the prover
//!   (C02) need `"harness": {"profile": "release"}` in their checks/Cxx.json.
//! * `Constraint::degree` is the DECLARED degree; `AirDesc::natural_degree(&expr)` computes the one
//!   an AIR author would declare. `random_desc` declares natural degrees.
//! * `prove*` / `verify` panic exactly where the library panics (wrap them in `core::guarded`), and
//!   when the hasher is not compatible with the field (`HashId::compatible`).
//! * `GenericAir::new` takes the trace shape from the `TraceInfo` it is given (the proof's, on the
//!   verifier side) and everything else from the description inside the public inputs; missing public
//!   values read as zero, so wrong-length public inputs make the verifier reject, not panic.
//! * The Lagrange kernel set-up is the repository's own dummy one (winterfell/src/tests.rs): the
//!   "GKR proof" is log2(trace length) and both sides draw that many elements from the coin.
//!
//! # Text form of a description (one token, no blanks)
//! `w=<main width>;l=<trace length>;e=<exemptions>;j=<0|1 junk in exempt tail>;p=<col>|<col>…;`
//! `g=<colgen>,…;t=<constraint>,…;a=<assertion>,…[;x=<aux width>.<aux rands>.<0|1 lagrange>;`
//! `h=<auxgen>,…;u=<constraint>,…;b=<assertion>=<expr>,…]`
//! * periodic column: values separated by `.`; constraint: `<base>[.<cycle>]*:<expr>`;
//! * assertion: `s<col>.<step>` | `p<col>.<first>.<stride>` | `q<col>.<first>.<stride>` (sequence of
//!   `l/stride` values); the asserted VALUES are not part of the description: they are the public
//!   inputs, in the order of the assertions (a sequence contributes all its values);
//! * colgen (how the trace generator fills main column j): `R` random | `K<v>` constant v | `K?`
//!   random constant | `L<d>` evaluations of a random polynomial of degree d | `I` counter 0,1,2… |
//!   `Y<c>` random values repeating with period c | `S<init|?>:<expr>` next value = expr(current
//!   row `c*`, periodic `p*`, next cells `n<k>` of columns k<j) | `F:<expr>` value = expr(current
//!   cells `c<k>` of columns k<j, periodic);
//! * auxgen: `F:<expr>` (cells `c* n* p* r*`, `a<k>` of aux columns k<j) | `A<init>:<step>` running
//!   column: first value init(r*, k*), next value = step(`c* n* p* r* a*`, `b<k>` k<j);
//! * expr, prefix notation: `k<int>` constant, `c<i>`/`n<i>` current/next main cell, `p<i>`
//!   periodic value, `a<i>`/`b<i>` current/next aux cell, `r<i>` aux random element, `v<i>` public
//!   input i, `w<i>` public input i+j for the j-th value of a sequence assertion, `+xy -xy *xy /xy`
//!   (division only in generation rules), `^<k>x` power, `~x` negation.
#![allow(clippy::too_many_arguments, clippy::type_complexity)]
use std::marker::PhantomData;
use std::sync::{Arc, Mutex};

use winter_air::{
    proof::Proof, Air, AirContext, Assertion, AuxRandElements, ConstraintCompositionCoefficients, EvaluationFrame,
    FieldExtension, GkrVerifier, LagrangeKernelRandElements, ProofOptions, TraceInfo, TransitionConstraintDegree,
};
use winter_crypto::{
    hashers::{Blake3_192, Blake3_256, Rp62_248, Rp64_256, RpJive64_256, Sha3_256},
    DefaultRandomCoin, ElementHasher, RandomCoin,
};
use winter_math::{
    fields::{f128, f62, f64},
    ExtensibleField, ExtensionOf, FieldElement, StarkField, ToElements,
};
use winter_prover::{
    matrix::ColMatrix, DefaultConstraintEvaluator, DefaultTraceLde, Prover, ProverError, StarkDomain, Trace,
    TracePolyTable,
};
use winter_verifier::{AcceptableOptions, VerifierError};

use crate::core::Rng;
use crate::fields::Fld;

/// base fields usable with the generic AIR
pub trait GField: Fld + ExtensibleField<2> + ExtensibleField<3> + 'static {}
impl<T: Fld + ExtensibleField<2> + ExtensibleField<3> + 'static> GField for T {}

/// column-major trace of canonical integers
pub type TraceData = Vec<Vec<u128>>;

// ================================================================================================
// EXPRESSIONS
// ================================================================================================
#[derive(Clone, Debug, PartialEq, Eq)]
pub enum Expr {
    Const(u128),
    Cur(usize),
    Nxt(usize),
    Per(usize),
    AuxCur(usize),
    AuxNxt(usize),
    Rand(usize),
    Pub(usize),
    PubSeq(usize),
    Add(Box<Expr>, Box<Expr>),
    Sub(Box<Expr>, Box<Expr>),
    Mul(Box<Expr>, Box<Expr>),
    Div(Box<Expr>, Box<Expr>),
    Pow(Box<Expr>, u32),
    Neg(Box<Expr>),
}

/// symbolic degree of an expression: `base` trace-column factors and the cycles of periodic factors
#[derive(Clone, Debug, PartialEq, Eq, Default)]
pub struct Degree {
    pub base: usize,
    pub cycles: Vec<usize>,
}

impl Degree {
    pub fn new(base: usize) -> Self {
        Degree { base, cycles: vec![] }
    }
    /// what `TransitionConstraintDegree::get_evaluation_degree` computes
    pub fn eval_degree(&self, n: usize) -> usize {
        self.base * (n - 1) + self.cycles.iter().map(|c| (n / c) * (c - 1)).sum::<usize>()
    }
    /// what `TransitionConstraintDegree::min_blowup_factor` computes
    pub fn min_blowup(&self) -> usize {
        (self.base + self.cycles.len()).saturating_sub(1).next_power_of_two().max(2)
    }
    pub fn to_lib(&self) -> TransitionConstraintDegree {
        if self.cycles.is_empty() {
            TransitionConstraintDegree::new(self.base)
        } else {
            TransitionConstraintDegree::with_cycles(self.base, self.cycles.clone())
        }
    }
}

/// evaluation environment of an expression: main cells over `F`, aux cells and randomness over `E`
pub struct Env<'a, B: GField, F, E> {
    pub cur: &'a [F],
    pub nxt: &'a [F],
    pub per: &'a [F],
    pub acur: &'a [E],
    pub anxt: &'a [E],
    pub rand: &'a [E],
    pub pubs: &'a [B],
    pub seq: usize,
}

pub fn b(x: Expr) -> Box<Expr> {
    Box::new(x)
}

impl Expr {
    pub fn add(x: Expr, y: Expr) -> Expr {
        Expr::Add(b(x), b(y))
    }
    pub fn sub(x: Expr, y: Expr) -> Expr {
        Expr::Sub(b(x), b(y))
    }
    pub fn mul(x: Expr, y: Expr) -> Expr {
        Expr::Mul(b(x), b(y))
    }
    pub fn div(x: Expr, y: Expr) -> Expr {
        Expr::Div(b(x), b(y))
    }
    pub fn pow(x: Expr, k: u32) -> Expr {
        Expr::Pow(b(x), k)
    }

    /// evaluate; panics on an out-of-range index (descriptions are validated when parsed)
    pub fn eval<B, F, E>(&self, env: &Env<B, F, E>) -> E
    where
        B: GField,
        F: FieldElement<BaseField = B>,
        E: FieldElement<BaseField = B> + ExtensionOf<F>,
    {
        match self {
            Expr::Const(v) => <E as From<B>>::from(B::from_word(*v % B::MOD)),
            Expr::Cur(i) => <E as From<F>>::from(env.cur[*i]),
            Expr::Nxt(i) => <E as From<F>>::from(env.nxt[*i]),
            Expr::Per(i) => <E as From<F>>::from(env.per[*i]),
            Expr::AuxCur(i) => env.acur[*i],
            Expr::AuxNxt(i) => env.anxt[*i],
            Expr::Rand(i) => env.rand[*i],
            Expr::Pub(i) => <E as From<B>>::from(env.pubs.get(*i).copied().unwrap_or(B::ZERO)),
            Expr::PubSeq(i) => <E as From<B>>::from(env.pubs.get(*i + env.seq).copied().unwrap_or(B::ZERO)),
            Expr::Add(x, y) => x.eval(env) + y.eval(env),
            Expr::Sub(x, y) => x.eval(env) - y.eval(env),
            Expr::Mul(x, y) => x.eval(env) * y.eval(env),
            Expr::Div(x, y) => x.eval(env) * y.eval(env).inv(),
            Expr::Pow(x, k) => {
                let v = x.eval(env);
                let mut r = E::ONE;
                for _ in 0..*k {
                    r *= v;
                }
                r
            },
            Expr::Neg(x) => -x.eval(env),
        }
    }

    /// symbolic degree for trace length `n` (sums take the operand of larger evaluation degree)
    pub fn degree(&self, cycles: &[usize], n: usize) -> Degree {
        match self {
            Expr::Const(_) | Expr::Rand(_) | Expr::Pub(_) | Expr::PubSeq(_) => Degree::new(0),
            Expr::Cur(_) | Expr::Nxt(_) | Expr::AuxCur(_) | Expr::AuxNxt(_) => Degree::new(1),
            Expr::Per(i) => Degree { base: 0, cycles: vec![cycles.get(*i).copied().unwrap_or(2)] },
            Expr::Add(x, y) | Expr::Sub(x, y) => {
                let (dx, dy) = (x.degree(cycles, n), y.degree(cycles, n));
                if dy.eval_degree(n) > dx.eval_degree(n) {
                    dy
                } else {
                    dx
                }
            },
            Expr::Mul(x, y) | Expr::Div(x, y) => {
                let (mut dx, dy) = (x.degree(cycles, n), y.degree(cycles, n));
                dx.base += dy.base;
                dx.cycles.extend(dy.cycles);
                dx.cycles.sort();
                dx
            },
            Expr::Pow(x, k) => {
                let d = x.degree(cycles, n);
                let mut r = Degree::new(d.base * *k as usize);
                for _ in 0..*k {
                    r.cycles.extend(d.cycles.iter().copied());
                }
                r.cycles.sort();
                r
            },
            Expr::Neg(x) => x.degree(cycles, n),
        }
    }

    /// visit all atoms
    pub fn walk(&self, f: &mut dyn FnMut(&Expr)) {
        match self {
            Expr::Add(x, y) | Expr::Sub(x, y) | Expr::Mul(x, y) | Expr::Div(x, y) => {
                x.walk(f);
                y.walk(f);
                f(self);
            },
            Expr::Pow(x, _) | Expr::Neg(x) => {
                x.walk(f);
                f(self);
            },
            _ => f(self),
        }
    }

    pub fn write(&self, o: &mut String) {
        match self {
            Expr::Const(v) => o.push_str(&format!("k{}", v)),
            Expr::Cur(i) => o.push_str(&format!("c{}", i)),
            Expr::Nxt(i) => o.push_str(&format!("n{}", i)),
            Expr::Per(i) => o.push_str(&format!("p{}", i)),
            Expr::AuxCur(i) => o.push_str(&format!("a{}", i)),
            Expr::AuxNxt(i) => o.push_str(&format!("b{}", i)),
            Expr::Rand(i) => o.push_str(&format!("r{}", i)),
            Expr::Pub(i) => o.push_str(&format!("v{}", i)),
            Expr::PubSeq(i) => o.push_str(&format!("w{}", i)),
            Expr::Add(x, y) => {
                o.push('+');
                x.write(o);
                y.write(o);
            },
            Expr::Sub(x, y) => {
                o.push('-');
                x.write(o);
                y.write(o);
            },
            Expr::Mul(x, y) => {
                o.push('*');
                x.write(o);
                y.write(o);
            },
            Expr::Div(x, y) => {
                o.push('/');
                x.write(o);
                y.write(o);
            },
            Expr::Pow(x, k) => {
                o.push_str(&format!("^{}", k));
                x.write(o);
            },
            Expr::Neg(x) => {
                o.push('~');
                x.write(o);
            },
        }
    }

    pub fn to_text(&self) -> String {
        let mut s = String::new();
        self.write(&mut s);
        s
    }

    pub fn parse(s: &str) -> Result<Expr, String> {
        let bytes = s.as_bytes();
        let mut pos = 0usize;
        let e = parse_expr(bytes, &mut pos, 0)?;
        if pos != bytes.len() {
            return Err(format!("trailing characters in expression `{}`", s));
        }
        Ok(e)
    }
}

fn parse_num(s: &[u8], pos: &mut usize) -> Result<u128, String> {
    let start = *pos;
    let mut v: u128 = 0;
    while *pos < s.len() && s[*pos].is_ascii_digit() {
        v = v.checked_mul(10).and_then(|v| v.checked_add((s[*pos] - b'0') as u128)).ok_or("number too large")?;
        *pos += 1;
    }
    if start == *pos {
        return Err("number expected".into());
    }
    Ok(v)
}

fn parse_expr(s: &[u8], pos: &mut usize, depth: usize) -> Result<Expr, String> {
    if depth > 200 {
        return Err("expression too deep".into());
    }
    if *pos >= s.len() {
        return Err("unexpected end of expression".into());
    }
    let c = s[*pos];
    *pos += 1;
    let idx = |pos: &mut usize| -> Result<usize, String> {
        let v = parse_num(s, pos)?;
        if v > 100_000 {
            return Err("index too large".into());
        }
        Ok(v as usize)
    };
    Ok(match c {
        b'k' => Expr::Const(parse_num(s, pos)?),
        b'c' => Expr::Cur(idx(pos)?),
        b'n' => Expr::Nxt(idx(pos)?),
        b'p' => Expr::Per(idx(pos)?),
        b'a' => Expr::AuxCur(idx(pos)?),
        b'b' => Expr::AuxNxt(idx(pos)?),
        b'r' => Expr::Rand(idx(pos)?),
        b'v' => Expr::Pub(idx(pos)?),
        b'w' => Expr::PubSeq(idx(pos)?),
        b'+' | b'-' | b'*' | b'/' => {
            let x = parse_expr(s, pos, depth + 1)?;
            let y = parse_expr(s, pos, depth + 1)?;
            match c {
                b'+' => Expr::add(x, y),
                b'-' => Expr::sub(x, y),
                b'*' => Expr::mul(x, y),
                _ => Expr::div(x, y),
            }
        },
        b'^' => {
            let k = parse_num(s, pos)?;
            if k > 64 {
                return Err("power too large".into());
            }
            Expr::pow(parse_expr(s, pos, depth + 1)?, k as u32)
        },
        b'~' => Expr::Neg(b(parse_expr(s, pos, depth + 1)?)),
        _ => return Err(format!("unexpected character `{}` in expression", c as char)),
    })
}

// ================================================================================================
// DESCRIPTION
// ================================================================================================
#[derive(Clone, Debug, PartialEq, Eq)]
pub struct Constraint {
    /// declared degree (what the AIR tells the library)
    pub degree: Degree,
    pub expr: Expr,
}

#[derive(Copy, Clone, Debug, PartialEq, Eq)]
pub enum AssertKind {
    Single,
    Periodic,
    Sequence,
}

#[derive(Clone, Debug, PartialEq, Eq)]
pub struct AssertDesc {
    pub kind: AssertKind,
    pub column: usize,
    /// the step of a single assertion, the first step otherwise
    pub first: usize,
    /// 0 for single assertions
    pub stride: usize,
}

impl AssertDesc {
    pub fn single(column: usize, step: usize) -> Self {
        AssertDesc { kind: AssertKind::Single, column, first: step, stride: 0 }
    }
    pub fn periodic(column: usize, first: usize, stride: usize) -> Self {
        AssertDesc { kind: AssertKind::Periodic, column, first, stride }
    }
    pub fn sequence(column: usize, first: usize, stride: usize) -> Self {
        AssertDesc { kind: AssertKind::Sequence, column, first, stride }
    }
    /// number of public values this assertion consumes
    pub fn num_values(&self, n: usize) -> usize {
        match self.kind {
            AssertKind::Sequence => n / self.stride.max(1),
            _ => 1,
        }
    }
    /// the steps this assertion covers
    pub fn steps(&self, n: usize) -> Vec<usize> {
        match self.kind {
            AssertKind::Single => vec![self.first],
            _ => (0..n / self.stride.max(1)).map(|k| self.first + k * self.stride).collect(),
        }
    }
    fn write(&self, o: &mut String) {
        match self.kind {
            AssertKind::Single => o.push_str(&format!("s{}.{}", self.column, self.first)),
            AssertKind::Periodic => o.push_str(&format!("p{}.{}.{}", self.column, self.first, self.stride)),
            AssertKind::Sequence => o.push_str(&format!("q{}.{}.{}", self.column, self.first, self.stride)),
        }
    }
    fn parse(s: &str) -> Result<Self, String> {
        if s.is_empty() {
            return Err("empty assertion".into());
        }
        let nums: Result<Vec<usize>, _> = s[1..].split('.').map(|x| x.parse::<usize>()).collect();
        let nums = nums.map_err(|_| format!("bad assertion `{}`", s))?;
        match (s.as_bytes()[0], nums.len()) {
            (b's', 2) => Ok(AssertDesc::single(nums[0], nums[1])),
            (b'p', 3) => Ok(AssertDesc::periodic(nums[0], nums[1], nums[2])),
            (b'q', 3) => Ok(AssertDesc::sequence(nums[0], nums[1], nums[2])),
            _ => Err(format!("bad assertion `{}`", s)),
        }
    }
    fn to_lib<E: FieldElement>(&self, values: Vec<E>) -> Assertion<E> {
        match self.kind {
            AssertKind::Single => Assertion::single(self.column, self.first, values[0]),
            AssertKind::Periodic => Assertion::periodic(self.column, self.first, self.stride, values[0]),
            AssertKind::Sequence => Assertion::sequence(self.column, self.first, self.stride, values),
        }
    }
}

/// how the trace generator fills a main column
#[derive(Clone, Debug, PartialEq, Eq)]
pub enum ColGen {
    Rand,
    Const(Option<u128>),
    LowDeg(usize),
    Counter,
    Cyc(usize),
    Step { init: Option<u128>, expr: Expr },
    Fn(Expr),
}

/// how the prover fills an auxiliary column
#[derive(Clone, Debug, PartialEq, Eq)]
pub enum AuxGen {
    Fn(Expr),
    Acc { init: Expr, step: Expr },
}

#[derive(Clone, Debug, PartialEq, Eq)]
pub struct AuxAssertDesc {
    pub a: AssertDesc,
    /// asserted value as a function of the aux random elements and the public inputs
    pub value: Expr,
}

#[derive(Clone, Debug, PartialEq, Eq)]
pub struct AuxDesc {
    /// number of auxiliary columns including the Lagrange kernel column (which is the last one)
    pub width: usize,
    pub num_rands: usize,
    pub lagrange: bool,
    /// generation rules of the columns other than the Lagrange kernel column
    pub cols: Vec<AuxGen>,
    pub constraints: Vec<Constraint>,
    pub assertions: Vec<AuxAssertDesc>,
}

#[derive(Clone, Debug, PartialEq, Eq)]
pub struct AirDesc {
    pub width: usize,
    pub trace_len: usize,
    pub exemptions: usize,
    /// rows after the last enforced transition are filled with random values
    pub tail_junk: bool,
    pub periodic: Vec<Vec<u128>>,
    pub cols: Vec<ColGen>,
    pub constraints: Vec<Constraint>,
    pub assertions: Vec<AssertDesc>,
    pub aux: Option<AuxDesc>,
}

fn write_constraints(o: &mut String, cs: &[Constraint]) {
    for (i, c) in cs.iter().enumerate() {
        if i > 0 {
            o.push(',');
        }
        o.push_str(&c.degree.base.to_string());
        for cy in &c.degree.cycles {
            o.push_str(&format!(".{}", cy));
        }
        o.push(':');
        c.expr.write(o);
    }
}

fn parse_constraints(s: &str) -> Result<Vec<Constraint>, String> {
    let mut v = vec![];
    for item in s.split(',').filter(|x| !x.is_empty()) {
        let (d, e) = item.split_once(':').ok_or(format!("bad constraint `{}`", item))?;
        let nums: Result<Vec<usize>, _> = d.split('.').map(|x| x.parse::<usize>()).collect();
        let nums = nums.map_err(|_| format!("bad degree `{}`", d))?;
        if nums.is_empty() {
            return Err("empty degree".into());
        }
        v.push(Constraint { degree: Degree { base: nums[0], cycles: nums[1..].to_vec() }, expr: Expr::parse(e)? });
    }
    Ok(v)
}

impl AirDesc {
    // ------------------------------------------------------------------------------ text form
    pub fn to_line(&self) -> String {
        let mut o = format!("w={};l={};e={};j={}", self.width, self.trace_len, self.exemptions, self.tail_junk as u8);
        o.push_str(";p=");
        for (i, p) in self.periodic.iter().enumerate() {
            if i > 0 {
                o.push('|');
            }
            o.push_str(&p.iter().map(|v| v.to_string()).collect::<Vec<_>>().join("."));
        }
        o.push_str(";g=");
        for (i, g) in self.cols.iter().enumerate() {
            if i > 0 {
                o.push(',');
            }
            match g {
                ColGen::Rand => o.push('R'),
                ColGen::Const(Some(v)) => o.push_str(&format!("K{}", v)),
                ColGen::Const(None) => o.push_str("K?"),
                ColGen::LowDeg(d) => o.push_str(&format!("L{}", d)),
                ColGen::Counter => o.push('I'),
                ColGen::Cyc(c) => o.push_str(&format!("Y{}", c)),
                ColGen::Step { init, expr } => {
                    match init {
                        Some(v) => o.push_str(&format!("S{}:", v)),
                        None => o.push_str("S?:"),
                    }
                    expr.write(&mut o);
                },
                ColGen::Fn(e) => {
                    o.push_str("F:");
                    e.write(&mut o);
                },
            }
        }
        o.push_str(";t=");
        write_constraints(&mut o, &self.constraints);
        o.push_str(";a=");
        for (i, a) in self.assertions.iter().enumerate() {
            if i > 0 {
                o.push(',');
            }
            a.write(&mut o);
        }
        if let Some(x) = &self.aux {
            o.push_str(&format!(";x={}.{}.{}", x.width, x.num_rands, x.lagrange as u8));
            o.push_str(";h=");
            for (i, g) in x.cols.iter().enumerate() {
                if i > 0 {
                    o.push(',');
                }
                match g {
                    AuxGen::Fn(e) => {
                        o.push_str("F:");
                        e.write(&mut o);
                    },
                    AuxGen::Acc { init, step } => {
                        o.push('A');
                        init.write(&mut o);
                        o.push(':');
                        step.write(&mut o);
                    },
                }
            }
            o.push_str(";u=");
            write_constraints(&mut o, &x.constraints);
            o.push_str(";b=");
            for (i, a) in x.assertions.iter().enumerate() {
                if i > 0 {
                    o.push(',');
                }
                a.a.write(&mut o);
                o.push('=');
                a.value.write(&mut o);
            }
        }
        o
    }

    /// parse and validate
    pub fn parse(line: &str) -> Result<AirDesc, String> {
        let mut d = AirDesc {
            width: 0,
            trace_len: 0,
            exemptions: 1,
            tail_junk: false,
            periodic: vec![],
            cols: vec![],
            constraints: vec![],
            assertions: vec![],
            aux: None,
        };
        let mut aux = AuxDesc { width: 0, num_rands: 0, lagrange: false, cols: vec![], constraints: vec![], assertions: vec![] };
        let mut has_aux = false;
        let num = |s: &str| s.parse::<usize>().map_err(|_| format!("bad number `{}`", s));
        for field in line.split(';').filter(|f| !f.is_empty()) {
            let (k, v) = field.split_once('=').ok_or(format!("bad field `{}`", field))?;
            match k {
                "w" => d.width = num(v)?,
                "l" => d.trace_len = num(v)?,
                "e" => d.exemptions = num(v)?,
                "j" => d.tail_junk = num(v)? != 0,
                "p" => {
                    for col in v.split('|').filter(|c| !c.is_empty()) {
                        let vals: Result<Vec<u128>, _> = col.split('.').map(|x| x.parse::<u128>()).collect();
                        d.periodic.push(vals.map_err(|_| format!("bad periodic column `{}`", col))?);
                    }
                },
                "g" => {
                    for item in v.split(',').filter(|x| !x.is_empty()) {
                        let rest = &item[1..];
                        d.cols.push(match item.as_bytes()[0] {
                            b'R' if rest.is_empty() => ColGen::Rand,
                            b'I' if rest.is_empty() => ColGen::Counter,
                            b'K' if rest == "?" => ColGen::Const(None),
                            b'K' => ColGen::Const(Some(rest.parse::<u128>().map_err(|_| format!("bad colgen `{}`", item))?)),
                            b'L' => ColGen::LowDeg(num(rest)?),
                            b'Y' => ColGen::Cyc(num(rest)?),
                            b'S' => {
                                let (i, e) = rest.split_once(':').ok_or(format!("bad colgen `{}`", item))?;
                                let init = if i == "?" {
                                    None
                                } else {
                                    Some(i.parse::<u128>().map_err(|_| format!("bad colgen `{}`", item))?)
                                };
                                ColGen::Step { init, expr: Expr::parse(e)? }
                            },
                            b'F' if rest.starts_with(':') => ColGen::Fn(Expr::parse(&rest[1..])?),
                            _ => return Err(format!("bad colgen `{}`", item)),
                        });
                    }
                },
                "t" => d.constraints = parse_constraints(v)?,
                "a" => {
                    for item in v.split(',').filter(|x| !x.is_empty()) {
                        d.assertions.push(AssertDesc::parse(item)?);
                    }
                },
                "x" => {
                    let nums: Result<Vec<usize>, _> = v.split('.').map(num).collect();
                    let nums = nums?;
                    if nums.len() != 3 {
                        return Err("bad aux header".into());
                    }
                    has_aux = true;
                    aux.width = nums[0];
                    aux.num_rands = nums[1];
                    aux.lagrange = nums[2] != 0;
                },
                "h" => {
                    for item in v.split(',').filter(|x| !x.is_empty()) {
                        let rest = &item[1..];
                        aux.cols.push(match item.as_bytes()[0] {
                            b'F' if rest.starts_with(':') => AuxGen::Fn(Expr::parse(&rest[1..])?),
                            b'A' => {
                                let (i, e) = rest.split_once(':').ok_or(format!("bad auxgen `{}`", item))?;
                                AuxGen::Acc { init: Expr::parse(i)?, step: Expr::parse(e)? }
                            },
                            _ => return Err(format!("bad auxgen `{}`", item)),
                        });
                    }
                },
                "u" => aux.constraints = parse_constraints(v)?,
                "b" => {
                    for item in v.split(',').filter(|x| !x.is_empty()) {
                        let (a, e) = item.split_once('=').ok_or(format!("bad aux assertion `{}`", item))?;
                        aux.assertions.push(AuxAssertDesc { a: AssertDesc::parse(a)?, value: Expr::parse(e)? });
                    }
                },
                _ => return Err(format!("unknown field `{}`", k)),
            }
        }
        if has_aux {
            d.aux = Some(aux);
        }
        d.validate()?;
        Ok(d)
    }

    // ------------------------------------------------------------------------------ derived data
    pub fn cycles(&self) -> Vec<usize> {
        self.periodic.iter().map(|p| p.len()).collect()
    }
    pub fn aux_width(&self) -> usize {
        self.aux.as_ref().map(|a| a.width).unwrap_or(0)
    }
    pub fn total_width(&self) -> usize {
        self.width + self.aux_width()
    }
    pub fn has_lagrange(&self) -> bool {
        self.aux.as_ref().map(|a| a.lagrange).unwrap_or(false)
    }
    /// number of public inputs (asserted values of the main segment)
    pub fn num_pub_inputs(&self) -> usize {
        self.assertions.iter().map(|a| a.num_values(self.trace_len)).sum()
    }
    pub fn all_constraints(&self) -> impl Iterator<Item = &Constraint> {
        self.constraints.iter().chain(self.aux.iter().flat_map(|a| a.constraints.iter()))
    }
    /// `ce_blowup_factor` the library derives from the declared degrees = the smallest admissible
    /// blowup factor
    pub fn min_blowup(&self) -> usize {
        self.all_constraints().map(|c| c.degree.min_blowup()).max().unwrap_or(2)
    }
    /// largest number of exemptions `AirContext::set_num_transition_exemptions` accepts
    pub fn max_exemptions(&self) -> usize {
        let n = self.trace_len;
        let ce = n * self.min_blowup();
        let mut m = n / 2 + 1;
        for c in self.all_constraints() {
            let lim = (ce - 1 + n).saturating_sub(c.degree.eval_degree(n));
            m = m.min(lim);
        }
        m
    }
    /// the degree an AIR author would declare for `expr`
    pub fn natural_degree(&self, expr: &Expr) -> Degree {
        expr.degree(&self.cycles(), self.trace_len)
    }

    // ------------------------------------------------------------------------------ validation
    /// shape checks: everything the library's constructors would assert, plus index ranges
    pub fn validate(&self) -> Result<(), String> {
        let n = self.trace_len;
        if self.width == 0 || self.total_width() > 255 {
            return Err("width out of range".into());
        }
        if n < 8 || !n.is_power_of_two() || n > (1 << 20) {
            return Err("trace length must be a power of two in 8..2^20".into());
        }
        if self.cols.len() != self.width {
            return Err("one colgen per main column expected".into());
        }
        for p in &self.periodic {
            if p.len() < 2 || !p.len().is_power_of_two() || p.len() > n {
                return Err("bad periodic column length".into());
            }
        }
        if self.constraints.is_empty() || self.assertions.is_empty() {
            return Err("at least one main constraint and one main assertion required".into());
        }
        let np = self.periodic.len();
        let w = self.width;
        let (aw, nr) = match &self.aux {
            Some(a) => (a.width, a.num_rands),
            None => (0, 0),
        };
        let npub = self.num_pub_inputs();
        // allowed atoms per context
        let check = |e: &Expr, main_only: bool, allow_div: bool, allow_pub: bool| -> Result<(), String> {
            let mut err = None;
            e.walk(&mut |x| {
                let bad = match x {
                    Expr::Cur(i) | Expr::Nxt(i) => *i >= w,
                    Expr::Per(i) => *i >= np,
                    Expr::AuxCur(i) | Expr::AuxNxt(i) => main_only || *i >= aw,
                    Expr::Rand(i) => main_only || *i >= nr,
                    Expr::Pub(i) | Expr::PubSeq(i) => !allow_pub || *i >= npub,
                    Expr::Div(_, _) => !allow_div,
                    _ => false,
                };
                if bad && err.is_none() {
                    err = Some(format!("atom `{}` not allowed here or out of range", x.to_text()));
                }
            });
            err.map(Err).unwrap_or(Ok(()))
        };
        let check_deg = |c: &Constraint| -> Result<(), String> {
            if c.degree.base == 0 {
                return Err("declared base degree must be at least 1".into());
            }
            for cy in &c.degree.cycles {
                if *cy < 2 || !cy.is_power_of_two() {
                    return Err("bad cycle in degree".into());
                }
            }
            Ok(())
        };
        for c in &self.constraints {
            check_deg(c)?;
            check(&c.expr, true, false, false)?;
        }
        for (j, g) in self.cols.iter().enumerate() {
            match g {
                ColGen::Step { expr, .. } => {
                    check(expr, true, true, false)?;
                    let mut ok = true;
                    expr.walk(&mut |x| {
                        if let Expr::Nxt(k) = x {
                            ok &= *k < j;
                        }
                    });
                    if !ok {
                        return Err("step rule may use next cells of lower columns only".into());
                    }
                },
                ColGen::Fn(expr) => {
                    check(expr, true, true, false)?;
                    let mut ok = true;
                    expr.walk(&mut |x| match x {
                        Expr::Cur(k) => ok &= *k < j,
                        Expr::Nxt(_) => ok = false,
                        _ => {},
                    });
                    if !ok {
                        return Err("fn rule may use current cells of lower columns only".into());
                    }
                },
                ColGen::LowDeg(d) if *d >= n => return Err("low-degree column: degree too large".into()),
                ColGen::Cyc(c) if *c < 1 || !c.is_power_of_two() || *c > n => return Err("bad cycle column".into()),
                _ => {},
            }
        }
        let check_assert = |a: &AssertDesc, width: usize| -> Result<(), String> {
            if a.column >= width {
                return Err("assertion column out of range".into());
            }
            match a.kind {
                AssertKind::Single => {
                    if a.first >= n {
                        return Err("assertion step out of range".into());
                    }
                },
                _ => {
                    if a.stride < 2 || !a.stride.is_power_of_two() || a.stride > n || a.first >= a.stride {
                        return Err("bad assertion stride".into());
                    }
                },
            }
            Ok(())
        };
        let overlap = |xs: &[&AssertDesc]| -> bool {
            let mut seen = std::collections::HashSet::new();
            for a in xs {
                for s in a.steps(n) {
                    if !seen.insert((a.column, s)) {
                        return true;
                    }
                }
            }
            false
        };
        for a in &self.assertions {
            check_assert(a, w)?;
        }
        if overlap(&self.assertions.iter().collect::<Vec<_>>()) {
            return Err("overlapping main assertions".into());
        }
        if let Some(x) = &self.aux {
            if x.width == 0 || x.num_rands > 255 {
                return Err("bad aux header".into());
            }
            let regular = x.width - x.lagrange as usize;
            if x.cols.len() != regular {
                return Err("one auxgen per regular aux column expected".into());
            }
            if x.constraints.is_empty() || x.assertions.is_empty() {
                return Err("at least one aux constraint and one aux assertion required".into());
            }
            for c in &x.constraints {
                check_deg(c)?;
                check(&c.expr, false, false, false)?;
            }
            for (j, g) in x.cols.iter().enumerate() {
                let (exprs, acc): (Vec<&Expr>, bool) = match g {
                    AuxGen::Fn(e) => (vec![e], false),
                    AuxGen::Acc { init, step } => (vec![init, step], true),
                };
                for (k, e) in exprs.iter().enumerate() {
                    check(e, false, true, false)?;
                    let mut ok = true;
                    e.walk(&mut |t| match t {
                        Expr::AuxCur(i) => ok &= if acc && k == 1 { *i < regular } else { *i < j },
                        Expr::AuxNxt(i) => ok &= acc && k == 1 && *i < j,
                        Expr::Cur(_) | Expr::Nxt(_) | Expr::Per(_) => ok &= !(acc && k == 0),
                        _ => {},
                    });
                    if !ok {
                        return Err("aux generation rule uses a cell that is not available".into());
                    }
                }
            }
            for a in &x.assertions {
                check_assert(&a.a, regular)?;
                check(&a.value, false, false, true)?;
                let mut ok = true;
                a.value.walk(&mut |t| {
                    if matches!(t, Expr::Cur(_) | Expr::Nxt(_) | Expr::Per(_) | Expr::AuxCur(_) | Expr::AuxNxt(_)) {
                        ok = false;
                    }
                });
                if !ok {
                    return Err("aux assertion value may use r*, v*, w*, k* only".into());
                }
            }
            if overlap(&x.assertions.iter().map(|a| &a.a).collect::<Vec<_>>()) {
                return Err("overlapping aux assertions".into());
            }
        }
        if self.exemptions == 0 || self.exemptions > self.max_exemptions() {
            return Err(format!("exemptions must be in 1..={}", self.max_exemptions()));
        }
        Ok(())
    }
}

// ================================================================================================
// AIR
// ================================================================================================
/// public inputs of the generic AIR: the description (the "program", known to both sides) and the
/// asserted values of the main segment in assertion order; only the values are absorbed by the coin
#[derive(Clone, Debug)]
pub struct GenPub<B: GField> {
    pub desc: Arc<AirDesc>,
    pub values: Vec<B>,
}

impl<B: GField> ToElements<B> for GenPub<B> {
    fn to_elements(&self) -> Vec<B> {
        self.values.clone()
    }
}

/// the GKR "proof" of the dummy Lagrange-kernel set-up (as in the repository's own test AIR): the
/// number of random elements to draw
#[derive(Debug, Clone, Default)]
pub struct GenGkrVerifier;

impl GkrVerifier for GenGkrVerifier {
    type GkrProof = usize;
    type Error = String;

    fn verify<E, Hasher>(
        &self,
        gkr_proof: usize,
        public_coin: &mut impl RandomCoin<BaseField = E::BaseField, Hasher = Hasher>,
    ) -> Result<LagrangeKernelRandElements<E>, Self::Error>
    where
        E: FieldElement,
        Hasher: ElementHasher<BaseField = E::BaseField>,
    {
        if gkr_proof > 64 {
            return Err("gkr proof out of range".into());
        }
        let mut rand_elements = Vec::with_capacity(gkr_proof);
        for _ in 0..gkr_proof {
            rand_elements.push(public_coin.draw().map_err(|e| format!("{:?}", e))?);
        }
        Ok(LagrangeKernelRandElements::new(rand_elements))
    }
}

pub struct GenericAir<B: GField> {
    context: AirContext<B>,
    desc: Arc<AirDesc>,
    values: Vec<B>,
    periodic: Vec<Vec<B>>,
}

impl<B: GField> GenericAir<B> {
    pub fn desc(&self) -> &AirDesc {
        &self.desc
    }
}

/// the `TraceInfo` of a description
pub fn trace_info(desc: &AirDesc) -> TraceInfo {
    match &desc.aux {
        None => TraceInfo::new(desc.width, desc.trace_len),
        Some(x) => TraceInfo::new_multi_segment(desc.width, x.width, x.num_rands, desc.trace_len, vec![]),
    }
}

/// the `TraceInfo` of a description whose trace carries custom metadata (`TraceInfo::with_meta` /
/// `new_multi_segment(.., meta)`)
pub fn trace_info_with_meta(desc: &AirDesc, meta: &[u8]) -> TraceInfo {
    match &desc.aux {
        None => TraceInfo::with_meta(desc.width, desc.trace_len, meta.to_vec()),
        Some(x) => TraceInfo::new_multi_segment(desc.width, x.width, x.num_rands, desc.trace_len, meta.to_vec()),
    }
}

impl<B: GField> Air for GenericAir<B> {
    type BaseField = B;
    type PublicInputs = GenPub<B>;
    type GkrProof = usize;
    type GkrVerifier = GenGkrVerifier;

    /// the trace shape comes from `trace_info` (the proof's, on the verifier side); everything else
    /// from the description in the public inputs
    fn new(trace_info: TraceInfo, pub_inputs: GenPub<B>, options: ProofOptions) -> Self {
        let desc = pub_inputs.desc.clone();
        let main_degrees = desc.constraints.iter().map(|c| c.degree.to_lib()).collect();
        let context = match &desc.aux {
            None => AirContext::new(trace_info, main_degrees, desc.assertions.len(), options),
            Some(x) => AirContext::new_multi_segment(
                trace_info,
                main_degrees,
                x.constraints.iter().map(|c| c.degree.to_lib()).collect(),
                desc.assertions.len(),
                x.assertions.len(),
                if x.lagrange { Some(x.width - 1) } else { None },
                options,
            ),
        };
        let context = if desc.exemptions != 1 { context.set_num_transition_exemptions(desc.exemptions) } else { context };
        let periodic = desc.periodic.iter().map(|p| p.iter().map(|v| B::from_word(*v % B::MOD)).collect()).collect();
        GenericAir { context, desc, values: pub_inputs.values, periodic }
    }

    fn context(&self) -> &AirContext<B> {
        &self.context
    }

    fn evaluate_transition<E: FieldElement<BaseField = B>>(
        &self,
        frame: &EvaluationFrame<E>,
        periodic_values: &[E],
        result: &mut [E],
    ) {
        let env = Env::<B, E, E> {
            cur: frame.current(),
            nxt: frame.next(),
            per: periodic_values,
            acur: &[],
            anxt: &[],
            rand: &[],
            pubs: &[],
            seq: 0,
        };
        for (r, c) in result.iter_mut().zip(self.desc.constraints.iter()) {
            *r = c.expr.eval(&env);
        }
    }

    /// missing public values are read as zero, surplus ones are ignored (so that a verifier given
    /// public inputs of the wrong length rejects instead of panicking)
    fn get_assertions(&self) -> Vec<Assertion<B>> {
        let n = self.desc.trace_len;
        let mut pos = 0;
        let mut out = vec![];
        for a in &self.desc.assertions {
            let k = a.num_values(n);
            let vals: Vec<B> = (0..k).map(|i| self.values.get(pos + i).copied().unwrap_or(B::ZERO)).collect();
            pos += k;
            out.push(a.to_lib(vals));
        }
        out
    }

    fn evaluate_aux_transition<F, E>(
        &self,
        main_frame: &EvaluationFrame<F>,
        aux_frame: &EvaluationFrame<E>,
        periodic_values: &[F],
        aux_rand_elements: &[E],
        result: &mut [E],
    ) where
        F: FieldElement<BaseField = B>,
        E: FieldElement<BaseField = B> + ExtensionOf<F>,
    {
        let x = self.desc.aux.as_ref().expect("aux segment");
        let env = Env::<B, F, E> {
            cur: main_frame.current(),
            nxt: main_frame.next(),
            per: periodic_values,
            acur: aux_frame.current(),
            anxt: aux_frame.next(),
            rand: aux_rand_elements,
            pubs: &[],
            seq: 0,
        };
        for (r, c) in result.iter_mut().zip(x.constraints.iter()) {
            *r = c.expr.eval(&env);
        }
    }

    fn get_aux_assertions<E: FieldElement<BaseField = B>>(&self, aux_rand_elements: &[E]) -> Vec<Assertion<E>> {
        match &self.desc.aux {
            None => vec![],
            Some(x) => aux_assertions::<B, E>(&self.desc, x, aux_rand_elements, &self.values),
        }
    }

    fn get_periodic_column_values(&self) -> Vec<Vec<B>> {
        self.periodic.clone()
    }

    fn get_auxiliary_proof_verifier<E: FieldElement<BaseField = B>>(&self) -> GenGkrVerifier {
        GenGkrVerifier
    }
}

/// asserted values of the auxiliary segment for the given randomness and public inputs
pub fn aux_assertions<B: GField, E: FieldElement<BaseField = B>>(
    desc: &AirDesc,
    x: &AuxDesc,
    rands: &[E],
    pubs: &[B],
) -> Vec<Assertion<E>> {
    let n = desc.trace_len;
    x.assertions
        .iter()
        .map(|a| {
            let k = a.a.num_values(n);
            let vals: Vec<E> = (0..k)
                .map(|j| {
                    let env = Env::<B, B, E> { cur: &[], nxt: &[], per: &[], acur: &[], anxt: &[], rand: rands, pubs, seq: j };
                    a.value.eval(&env)
                })
                .collect();
            a.a.to_lib(vals)
        })
        .collect()
}

// ================================================================================================
// TRACE
// ================================================================================================
pub struct GenTrace<B: GField> {
    info: TraceInfo,
    main: ColMatrix<B>,
}

impl<B: GField> GenTrace<B> {
    pub fn new(desc: &AirDesc, data: &TraceData) -> Self {
        assert_eq!(data.len(), desc.width, "trace width differs from the description");
        let cols: Vec<Vec<B>> = data
            .iter()
            .map(|c| {
                assert_eq!(c.len(), desc.trace_len, "trace length differs from the description");
                c.iter().map(|v| B::from_word(*v % B::MOD)).collect()
            })
            .collect();
        GenTrace { info: trace_info(desc), main: ColMatrix::new(cols) }
    }
}

impl<B: GField> GenTrace<B> {
    /// as `new`, with custom trace metadata
    pub fn new_with_meta(desc: &AirDesc, data: &TraceData, meta: &[u8]) -> Self {
        let mut t = Self::new(desc, data);
        t.info = trace_info_with_meta(desc, meta);
        t
    }
}

impl<B: GField> Trace for GenTrace<B> {
    type BaseField = B;

    fn info(&self) -> &TraceInfo {
        &self.info
    }

    fn main_segment(&self) -> &ColMatrix<B> {
        &self.main
    }

    fn read_main_frame(&self, row_idx: usize, frame: &mut EvaluationFrame<B>) {
        let next = (row_idx + 1) % self.main.num_rows();
        self.main.read_row_into(row_idx, frame.current_mut());
        self.main.read_row_into(next, frame.next_mut());
    }
}

// ================================================================================================
// PROVER
// ================================================================================================
pub struct GenericProver<B: GField, H, R = DefaultRandomCoin<H>> {
    desc: Arc<AirDesc>,
    options: ProofOptions,
    /// verdict of the reference predicate on the auxiliary segment built during the last `prove`
    pub aux_check: Mutex<Option<Result<(), Violation>>>,
    _p: PhantomData<(B, H, R)>,
}

impl<B: GField, H, R> GenericProver<B, H, R> {
    pub fn new(desc: Arc<AirDesc>, options: ProofOptions) -> Self {
        GenericProver { desc, options, aux_check: Mutex::new(None), _p: PhantomData }
    }
}

impl<B, H, R> Prover for GenericProver<B, H, R>
where
    B: GField,
    H: ElementHasher<BaseField = B> + Send + Sync,
    R: RandomCoin<BaseField = B, Hasher = H> + Send + Sync,
{
    type BaseField = B;
    type Air = GenericAir<B>;
    type Trace = GenTrace<B>;
    type HashFn = H;
    type RandomCoin = R;
    type TraceLde<E: FieldElement<BaseField = B>> = DefaultTraceLde<E, H>;
    type ConstraintEvaluator<'a, E: FieldElement<BaseField = B>> = DefaultConstraintEvaluator<'a, GenericAir<B>, E>;

    fn get_pub_inputs(&self, trace: &GenTrace<B>) -> GenPub<B> {
        let cols: Vec<&[B]> = (0..trace.main.num_cols()).map(|c| trace.main.get_column(c)).collect();
        GenPub { desc: self.desc.clone(), values: asserted_values(&self.desc, &cols) }
    }

    fn options(&self) -> &ProofOptions {
        &self.options
    }

    fn new_trace_lde<E: FieldElement<BaseField = B>>(
        &self,
        trace_info: &TraceInfo,
        main_trace: &ColMatrix<B>,
        domain: &StarkDomain<B>,
    ) -> (Self::TraceLde<E>, TracePolyTable<E>) {
        DefaultTraceLde::new(trace_info, main_trace, domain)
    }

    fn new_evaluator<'a, E: FieldElement<BaseField = B>>(
        &self,
        air: &'a GenericAir<B>,
        aux_rand_elements: Option<AuxRandElements<E>>,
        composition_coefficients: ConstraintCompositionCoefficients<E>,
    ) -> Self::ConstraintEvaluator<'a, E> {
        DefaultConstraintEvaluator::new(air, aux_rand_elements, composition_coefficients)
    }

    fn generate_gkr_proof<E>(
        &self,
        main_trace: &GenTrace<B>,
        public_coin: &mut R,
    ) -> (usize, LagrangeKernelRandElements<E>)
    where
        E: FieldElement<BaseField = B>,
    {
        let log_n = main_trace.main.num_rows().ilog2() as usize;
        let mut r = Vec::with_capacity(log_n);
        for _ in 0..log_n {
            r.push(public_coin.draw().expect("failed to draw a Lagrange kernel random element"));
        }
        (log_n, LagrangeKernelRandElements::new(r))
    }

    fn build_aux_trace<E>(&self, main_trace: &GenTrace<B>, aux_rand_elements: &AuxRandElements<E>) -> ColMatrix<E>
    where
        E: FieldElement<BaseField = B>,
    {
        let x = self.desc.aux.as_ref().expect("aux segment");
        let main: Vec<&[B]> = (0..main_trace.main.num_cols()).map(|c| main_trace.main.get_column(c)).collect();
        let rands = aux_rand_elements.rand_elements();
        let lag: Vec<E> = aux_rand_elements.lagrange().map(|l| l.iter().copied().collect()).unwrap_or_default();
        let cols = build_aux_columns::<B, E>(&self.desc, x, &main, rands, &lag);
        let pubs = asserted_values(&self.desc, &main);
        let verdict = check_aux::<B, E>(&self.desc, &main, &cols, rands, &lag, &pubs);
        *self.aux_check.lock().unwrap() = Some(verdict);
        ColMatrix::new(cols)
    }
}

/// the asserted values (= public inputs) read off a main segment
pub fn asserted_values<B: GField>(desc: &AirDesc, cols: &[&[B]]) -> Vec<B> {
    let n = desc.trace_len;
    let mut out = vec![];
    for a in &desc.assertions {
        match a.kind {
            AssertKind::Sequence => {
                for s in a.steps(n) {
                    out.push(cols[a.column][s]);
                }
            },
            _ => out.push(cols[a.column][a.first]),
        }
    }
    out
}

fn periodic_row<B: GField>(desc: &AirDesc, step: usize) -> Vec<B> {
    desc.periodic.iter().map(|p| B::from_word(p[step % p.len()] % B::MOD)).collect()
}

/// the auxiliary columns (including the Lagrange kernel column, if any) for given randomness
pub fn build_aux_columns<B: GField, E: FieldElement<BaseField = B>>(
    desc: &AirDesc,
    x: &AuxDesc,
    main: &[&[B]],
    rands: &[E],
    lagrange_rands: &[E],
) -> Vec<Vec<E>> {
    let n = desc.trace_len;
    let regular = x.cols.len();
    let mut cols: Vec<Vec<E>> = vec![vec![E::ZERO; n]; regular];
    let row = |i: usize| -> Vec<B> { main.iter().map(|c| c[i]).collect() };
    for r in 0..n {
        let cur = row(r);
        let nxt = row((r + 1) % n);
        let per: Vec<B> = periodic_row(desc, r);
        let (prev, pper) = if r > 0 { (row(r - 1), periodic_row::<B>(desc, r - 1)) } else { (vec![], vec![]) };
        for (j, g) in x.cols.iter().enumerate() {
            let here: Vec<E> = cols.iter().map(|c| c[r]).collect();
            let v = match g {
                AuxGen::Fn(e) => {
                    let env = Env::<B, B, E> { cur: &cur, nxt: &nxt, per: &per, acur: &here, anxt: &[], rand: rands, pubs: &[], seq: 0 };
                    e.eval(&env)
                },
                AuxGen::Acc { init, step } => {
                    if r == 0 {
                        let env = Env::<B, B, E> { cur: &[], nxt: &[], per: &[], acur: &[], anxt: &[], rand: rands, pubs: &[], seq: 0 };
                        init.eval(&env)
                    } else {
                        let before: Vec<E> = cols.iter().map(|c| c[r - 1]).collect();
                        let env = Env::<B, B, E> {
                            cur: &prev,
                            nxt: &cur,
                            per: &pper,
                            acur: &before,
                            anxt: &here,
                            rand: rands,
                            pubs: &[],
                            seq: 0,
                        };
                        step.eval(&env)
                    }
                },
            };
            cols[j][r] = v;
        }
    }
    if x.lagrange {
        let mut col = Vec::with_capacity(n);
        for i in 0..n {
            let mut v = E::ONE;
            for (bit, r) in lagrange_rands.iter().enumerate() {
                if i & (1 << bit) == 0 {
                    v *= E::ONE - *r;
                } else {
                    v *= *r;
                }
            }
            col.push(v);
        }
        cols.push(col);
    }
    cols
}

// ================================================================================================
// TRACE GENERATOR
// ================================================================================================
fn rand_elem<B: GField>(rng: &mut Rng) -> B {
    B::from_word(rng.u128() % B::MOD)
}

/// a main segment that satisfies the description's generation rules (hence its constraints, when
/// the constraints are the ones the rules imply); all randomness derives from `seed`
pub fn gen_trace_in<B: GField>(desc: &AirDesc, seed: u64) -> Vec<Vec<B>> {
    let n = desc.trace_len;
    let w = desc.width;
    let mut rng = Rng::new(seed ^ 0x7ace_7ace_7ace_7ace);
    let mut cols: Vec<Vec<B>> = vec![vec![B::ZERO; n]; w];
    // free columns first
    let g = B::get_root_of_unity(n.ilog2());
    for (j, c) in desc.cols.iter().enumerate() {
        match c {
            ColGen::Rand => {
                for i in 0..n {
                    cols[j][i] = rand_elem(&mut rng);
                }
            },
            ColGen::Const(v) => {
                let v = match v {
                    Some(v) => B::from_word(*v % B::MOD),
                    None => rand_elem(&mut rng),
                };
                for i in 0..n {
                    cols[j][i] = v;
                }
            },
            ColGen::LowDeg(d) => {
                let coef: Vec<B> = (0..=*d).map(|_| rand_elem::<B>(&mut rng)).collect();
                let mut x = B::ONE;
                for i in 0..n {
                    let mut acc = B::ZERO;
                    for c in coef.iter().rev() {
                        acc = acc * x + *c;
                    }
                    cols[j][i] = acc;
                    x *= g;
                }
            },
            ColGen::Counter => {
                for i in 0..n {
                    cols[j][i] = B::from_word(i as u128);
                }
            },
            ColGen::Cyc(c) => {
                let vals: Vec<B> = (0..*c).map(|_| rand_elem::<B>(&mut rng)).collect();
                for i in 0..n {
                    cols[j][i] = vals[i % c];
                }
            },
            ColGen::Step { init, .. } => {
                cols[j][0] = match init {
                    Some(v) => B::from_word(*v % B::MOD),
                    None => rand_elem(&mut rng),
                };
            },
            ColGen::Fn(_) => {},
        }
    }
    // rows in order; within a row, columns in index order
    let last_rule_row = if desc.tail_junk { n - desc.exemptions } else { n - 1 };
    for r in 0..n {
        let per: Vec<B> = periodic_row(desc, r);
        let (prev, pper): (Vec<B>, Vec<B>) =
            if r > 0 { (cols.iter().map(|c| c[r - 1]).collect(), periodic_row(desc, r - 1)) } else { (vec![], vec![]) };
        for j in 0..w {
            let here: Vec<B> = cols.iter().map(|c| c[r]).collect();
            match &desc.cols[j] {
                ColGen::Step { expr, .. } if r > 0 => {
                    cols[j][r] = if r > last_rule_row {
                        rand_elem(&mut rng)
                    } else {
                        let env =
                            Env::<B, B, B> { cur: &prev, nxt: &here, per: &pper, acur: &[], anxt: &[], rand: &[], pubs: &[], seq: 0 };
                        expr.eval(&env)
                    };
                },
                ColGen::Fn(expr) => {
                    cols[j][r] = if r > last_rule_row {
                        rand_elem(&mut rng)
                    } else {
                        let env = Env::<B, B, B> { cur: &here, nxt: &[], per: &per, acur: &[], anxt: &[], rand: &[], pubs: &[], seq: 0 };
                        expr.eval(&env)
                    };
                },
                _ => {},
            }
        }
    }
    cols
}

fn to_data<B: GField>(cols: &[Vec<B>]) -> TraceData {
    cols.iter().map(|c| c.iter().map(|v| v.canon()).collect()).collect()
}

fn from_data<B: GField>(data: &TraceData) -> Vec<Vec<B>> {
    data.iter().map(|c| c.iter().map(|v| B::from_word(*v % B::MOD)).collect()).collect()
}

// ================================================================================================
// REFERENCE VALIDITY PREDICATE (independent of the library: direct evaluation)
// ================================================================================================
#[derive(Copy, Clone, Debug, PartialEq, Eq)]
pub enum ViolKind {
    Shape,
    Transition,
    Assertion,
    AuxTransition,
    AuxAssertion,
    LagrangeTransition,
    LagrangeBoundary,
}

/// (kind, index of the constraint / assertion (column for Shape), step)
#[derive(Copy, Clone, Debug, PartialEq, Eq)]
pub struct Violation {
    pub kind: ViolKind,
    pub index: usize,
    pub step: usize,
}

impl std::fmt::Display for Violation {
    fn fmt(&self, f: &mut std::fmt::Formatter<'_>) -> std::fmt::Result {
        write!(f, "{:?}[{}]@{}", self.kind, self.index, self.step)
    }
}

fn viol(kind: ViolKind, index: usize, step: usize) -> Result<(), Violation> {
    Err(Violation { kind, index, step })
}

/// main segment: every main transition constraint at every step `0 .. n - exemptions - 1` and
/// every asserted cell against the public values `pubs` (in assertion order)
pub fn check_main<B: GField>(desc: &AirDesc, cols: &[&[B]], pubs: &[B]) -> Result<(), Violation> {
    let n = desc.trace_len;
    if cols.len() != desc.width {
        return viol(ViolKind::Shape, cols.len(), 0);
    }
    for (j, c) in cols.iter().enumerate() {
        if c.len() != n {
            return viol(ViolKind::Shape, j, c.len());
        }
    }
    if pubs.len() != desc.num_pub_inputs() {
        return viol(ViolKind::Shape, usize::MAX, pubs.len());
    }
    let mut pos = 0;
    for (k, a) in desc.assertions.iter().enumerate() {
        for (i, s) in a.steps(n).into_iter().enumerate() {
            let expected = if a.kind == AssertKind::Sequence { pubs[pos + i] } else { pubs[pos] };
            if cols[a.column][s] != expected {
                return viol(ViolKind::Assertion, k, s);
            }
        }
        pos += a.num_values(n);
    }
    for step in 0..n - desc.exemptions {
        let cur: Vec<B> = cols.iter().map(|c| c[step]).collect();
        let nxt: Vec<B> = cols.iter().map(|c| c[step + 1]).collect();
        let per: Vec<B> = periodic_row(desc, step);
        let env = Env::<B, B, B> { cur: &cur, nxt: &nxt, per: &per, acur: &[], anxt: &[], rand: &[], pubs: &[], seq: 0 };
        for (k, c) in desc.constraints.iter().enumerate() {
            if c.expr.eval(&env) != B::ZERO {
                return viol(ViolKind::Transition, k, step);
            }
        }
    }
    Ok(())
}

/// auxiliary segment for given randomness: aux transition constraints on the non-exempt steps, aux
/// assertions, and the Lagrange kernel column's defining relations
pub fn check_aux<B: GField, E: FieldElement<BaseField = B>>(
    desc: &AirDesc,
    main: &[&[B]],
    aux: &[Vec<E>],
    rands: &[E],
    lagrange_rands: &[E],
    pubs: &[B],
) -> Result<(), Violation> {
    let n = desc.trace_len;
    let x = match &desc.aux {
        Some(x) => x,
        None => return if aux.is_empty() { Ok(()) } else { viol(ViolKind::Shape, 0, 0) },
    };
    if aux.len() != x.width || aux.iter().any(|c| c.len() != n) {
        return viol(ViolKind::Shape, aux.len(), 0);
    }
    for (k, a) in x.assertions.iter().enumerate() {
        for (i, s) in a.a.steps(n).into_iter().enumerate() {
            let seq = if a.a.kind == AssertKind::Sequence { i } else { 0 };
            let env = Env::<B, B, E> { cur: &[], nxt: &[], per: &[], acur: &[], anxt: &[], rand: rands, pubs, seq };
            if aux[a.a.column][s] != a.value.eval(&env) {
                return viol(ViolKind::AuxAssertion, k, s);
            }
        }
    }
    for step in 0..n - desc.exemptions {
        let cur: Vec<B> = main.iter().map(|c| c[step]).collect();
        let nxt: Vec<B> = main.iter().map(|c| c[step + 1]).collect();
        let per: Vec<B> = periodic_row(desc, step);
        let acur: Vec<E> = aux.iter().map(|c| c[step]).collect();
        let anxt: Vec<E> = aux.iter().map(|c| c[step + 1]).collect();
        let env = Env::<B, B, E> { cur: &cur, nxt: &nxt, per: &per, acur: &acur, anxt: &anxt, rand: rands, pubs: &[], seq: 0 };
        for (k, c) in x.constraints.iter().enumerate() {
            if c.expr.eval(&env) != E::ZERO {
                return viol(ViolKind::AuxTransition, k, step);
            }
        }
    }
    if x.lagrange {
        // the column is the Lagrange kernel eq(r, i): c[0] = prod (1 - r_k) and, for every bit k,
        // r_k * c[i] = (1 - r_k) * c[i + 2^k] whenever bits 0..=k of i are zero
        let c = &aux[x.width - 1];
        let v = n.ilog2() as usize;
        if lagrange_rands.len() != v {
            return viol(ViolKind::Shape, x.width - 1, lagrange_rands.len());
        }
        let first = lagrange_rands.iter().fold(E::ONE, |acc, r| acc * (E::ONE - *r));
        if c[0] != first {
            return viol(ViolKind::LagrangeBoundary, 0, 0);
        }
        for k in 0..v {
            let mut i = 0;
            while i < n {
                if lagrange_rands[k] * c[i] != (E::ONE - lagrange_rands[k]) * c[i + (1 << k)] {
                    return viol(ViolKind::LagrangeTransition, k, i);
                }
                i += 1 << (k + 1);
            }
        }
    }
    Ok(())
}

// ================================================================================================
// NON-GENERIC FRONT END
// ================================================================================================
#[derive(Copy, Clone, Debug, PartialEq, Eq)]
pub enum FieldId {
    F62,
    F64,
    F128,
}

impl FieldId {
    pub const ALL: [FieldId; 3] = [FieldId::F62, FieldId::F64, FieldId::F128];
    pub fn name(self) -> &'static str {
        match self {
            FieldId::F62 => "f62",
            FieldId::F64 => "f64",
            FieldId::F128 => "f128",
        }
    }
    pub fn parse(s: &str) -> Option<FieldId> {
        Self::ALL.into_iter().find(|f| f.name() == s)
    }
    pub fn modulus(self) -> u128 {
        match self {
            FieldId::F62 => crate::fields::M62,
            FieldId::F64 => crate::fields::M64,
            FieldId::F128 => crate::fields::M128,
        }
    }
    /// does the library implement this extension degree (1, 2, 3) of the field
    pub fn supports_ext(self, ext: u8) -> bool {
        use winter_math::fields::{CubeExtension, QuadExtension};
        match (self, ext) {
            (_, 1) => true,
            (FieldId::F62, 2) => QuadExtension::<f62::BaseElement>::is_supported(),
            (FieldId::F64, 2) => QuadExtension::<f64::BaseElement>::is_supported(),
            (FieldId::F128, 2) => QuadExtension::<f128::BaseElement>::is_supported(),
            (FieldId::F62, 3) => CubeExtension::<f62::BaseElement>::is_supported(),
            (FieldId::F64, 3) => CubeExtension::<f64::BaseElement>::is_supported(),
            (FieldId::F128, 3) => CubeExtension::<f128::BaseElement>::is_supported(),
            _ => false,
        }
    }
}

#[derive(Copy, Clone, Debug, PartialEq, Eq)]
pub enum HashId {
    Blake3_256,
    Blake3_192,
    Sha3_256,
    Rp64_256,
    RpJive64_256,
    Rp62_248,
}

impl HashId {
    pub const ALL: [HashId; 6] =
        [HashId::Blake3_256, HashId::Blake3_192, HashId::Sha3_256, HashId::Rp64_256, HashId::RpJive64_256, HashId::Rp62_248];
    pub fn name(self) -> &'static str {
        match self {
            HashId::Blake3_256 => "blake3_256",
            HashId::Blake3_192 => "blake3_192",
            HashId::Sha3_256 => "sha3_256",
            HashId::Rp64_256 => "rp64_256",
            HashId::RpJive64_256 => "rpjive64_256",
            HashId::Rp62_248 => "rp62_248",
        }
    }
    pub fn parse(s: &str) -> Option<HashId> {
        Self::ALL.into_iter().find(|f| f.name() == s)
    }
    /// algebraic hashers are tied to one base field
    pub fn compatible(self, f: FieldId) -> bool {
        match self {
            HashId::Rp64_256 | HashId::RpJive64_256 => f == FieldId::F64,
            HashId::Rp62_248 => f == FieldId::F62,
            _ => true,
        }
    }
    /// the hashers usable with a field
    pub fn for_field(f: FieldId) -> Vec<HashId> {
        Self::ALL.into_iter().filter(|h| h.compatible(f)).collect()
    }
    pub fn digest_bytes(self) -> usize {
        match self {
            HashId::Blake3_192 => 24,
            HashId::Rp62_248 => 31,
            _ => 32,
        }
    }
}

/// proof options as plain numbers; text form `q.b.g.x.f.r`
#[derive(Copy, Clone, Debug, PartialEq, Eq)]
pub struct OptSpec {
    pub queries: usize,
    pub blowup: usize,
    pub grinding: u32,
    /// extension degree 1, 2 or 3
    pub ext: u8,
    pub folding: usize,
    pub remainder: usize,
}

impl OptSpec {
    pub fn new(queries: usize, blowup: usize, grinding: u32, ext: u8, folding: usize, remainder: usize) -> Self {
        OptSpec { queries, blowup, grinding, ext, folding, remainder }
    }
    /// exactly the tuples `ProofOptions::new` accepts (written from its documentation)
    pub fn accepted(&self) -> bool {
        (1..=255).contains(&self.queries)
            && self.blowup.is_power_of_two()
            && (2..=128).contains(&self.blowup)
            && self.grinding <= 32
            && (1..=3).contains(&self.ext)
            && [2, 4, 8, 16].contains(&self.folding)
            && self.remainder <= 255
            && (self.remainder + 1).is_power_of_two()
    }
    /// panics where `ProofOptions::new` does
    pub fn to_options(&self) -> ProofOptions {
        let ext = match self.ext {
            1 => FieldExtension::None,
            2 => FieldExtension::Quadratic,
            3 => FieldExtension::Cubic,
            _ => panic!("extension degree must be 1, 2 or 3"),
        };
        ProofOptions::new(self.queries, self.blowup, self.grinding, ext, self.folding, self.remainder)
    }
    pub fn to_text(&self) -> String {
        format!("{}.{}.{}.{}.{}.{}", self.queries, self.blowup, self.grinding, self.ext, self.folding, self.remainder)
    }
    pub fn parse(s: &str) -> Option<OptSpec> {
        let v: Vec<u64> = s.split('.').map(|x| x.parse::<u64>().ok()).collect::<Option<Vec<_>>>()?;
        if v.len() != 6 || v.iter().any(|x| *x > 1 << 20) {
            return None;
        }
        Some(OptSpec::new(v[0] as usize, v[1] as usize, v[2] as u32, v[3] as u8, v[4] as usize, v[5] as usize))
    }
}

macro_rules! dispatch {
    ($field:expr, $hash:expr, $f:ident, ($($args:expr),*)) => {
        match ($field, $hash) {
            (FieldId::F62, HashId::Blake3_256) => $f::<f62::BaseElement, Blake3_256<f62::BaseElement>>($($args),*),
            (FieldId::F62, HashId::Blake3_192) => $f::<f62::BaseElement, Blake3_192<f62::BaseElement>>($($args),*),
            (FieldId::F62, HashId::Sha3_256) => $f::<f62::BaseElement, Sha3_256<f62::BaseElement>>($($args),*),
            (FieldId::F62, HashId::Rp62_248) => $f::<f62::BaseElement, Rp62_248>($($args),*),
            (FieldId::F64, HashId::Blake3_256) => $f::<f64::BaseElement, Blake3_256<f64::BaseElement>>($($args),*),
            (FieldId::F64, HashId::Blake3_192) => $f::<f64::BaseElement, Blake3_192<f64::BaseElement>>($($args),*),
            (FieldId::F64, HashId::Sha3_256) => $f::<f64::BaseElement, Sha3_256<f64::BaseElement>>($($args),*),
            (FieldId::F64, HashId::Rp64_256) => $f::<f64::BaseElement, Rp64_256>($($args),*),
            (FieldId::F64, HashId::RpJive64_256) => $f::<f64::BaseElement, RpJive64_256>($($args),*),
            (FieldId::F128, HashId::Blake3_256) => $f::<f128::BaseElement, Blake3_256<f128::BaseElement>>($($args),*),
            (FieldId::F128, HashId::Blake3_192) => $f::<f128::BaseElement, Blake3_192<f128::BaseElement>>($($args),*),
            (FieldId::F128, HashId::Sha3_256) => $f::<f128::BaseElement, Sha3_256<f128::BaseElement>>($($args),*),
            (f, h) => panic!("hasher {} cannot be used with field {}", h.name(), f.name()),
        }
    };
}

macro_rules! by_field {
    ($field:expr, $f:ident, ($($args:expr),*)) => {
        match $field {
            FieldId::F62 => $f::<f62::BaseElement>($($args),*),
            FieldId::F64 => $f::<f64::BaseElement>($($args),*),
            FieldId::F128 => $f::<f128::BaseElement>($($args),*),
        }
    };
}

fn gen_trace_g<B: GField>(desc: &AirDesc, seed: u64) -> TraceData {
    to_data(&gen_trace_in::<B>(desc, seed))
}

/// a main segment valid by construction for `desc` (see [`gen_trace_in`])
pub fn gen_trace(desc: &AirDesc, field: FieldId, seed: u64) -> TraceData {
    by_field!(field, gen_trace_g, (desc, seed))
}

fn pub_inputs_g<B: GField>(desc: &AirDesc, trace: &TraceData) -> Vec<u128> {
    let cols = from_data::<B>(trace);
    let refs: Vec<&[B]> = cols.iter().map(|c| c.as_slice()).collect();
    asserted_values(desc, &refs).iter().map(|v| v.canon()).collect()
}

/// the asserted values of the main segment (= the public inputs), read off the trace
pub fn pub_inputs(desc: &AirDesc, field: FieldId, trace: &TraceData) -> Vec<u128> {
    by_field!(field, pub_inputs_g, (desc, trace))
}

fn is_valid_g<B: GField>(desc: &AirDesc, trace: &TraceData, pubs: &[u128]) -> Result<(), Violation> {
    let cols = from_data::<B>(trace);
    let refs: Vec<&[B]> = cols.iter().map(|c| c.as_slice()).collect();
    let pubs: Vec<B> = pubs.iter().map(|v| B::from_word(*v % B::MOD)).collect();
    check_main(desc, &refs, &pubs)
}

/// REFERENCE VALIDITY PREDICATE of the main segment against the public values `pubs`
pub fn is_valid(desc: &AirDesc, field: FieldId, trace: &TraceData, pubs: &[u128]) -> Result<(), Violation> {
    by_field!(field, is_valid_g, (desc, trace, pubs))
}

/// result of [`prove_ex`]
pub struct ProveOut {
    pub proof: Result<Proof, ProverError>,
    /// verdict of [`check_aux`] on the auxiliary segment the prover built (None: no aux segment, or
    /// proving stopped before it was built)
    pub aux_check: Option<Result<(), Violation>>,
}

fn prove_g<B: GField, H: ElementHasher<BaseField = B> + Send + Sync>(
    desc: &Arc<AirDesc>,
    trace: &TraceData,
    opts: &OptSpec,
) -> ProveOut {
    let prover = GenericProver::<B, H, DefaultRandomCoin<H>>::new(desc.clone(), opts.to_options());
    let proof = prover.prove(GenTrace::<B>::new(desc, trace));
    let aux_check = prover.aux_check.lock().unwrap().take();
    ProveOut { proof, aux_check }
}

/// generate a proof for `trace` (panics where the library does; callers wrap it in
/// `core::guarded`). `hasher` must be compatible with `field`.
pub fn prove_ex(desc: &Arc<AirDesc>, trace: &TraceData, field: FieldId, opts: &OptSpec, hasher: HashId) -> ProveOut {
    dispatch!(field, hasher, prove_g, (desc, trace, opts))
}

fn prove_meta_g<B: GField, H: ElementHasher<BaseField = B> + Send + Sync>(
    desc: &Arc<AirDesc>,
    trace: &TraceData,
    opts: &OptSpec,
    meta: &[u8],
) -> ProveOut {
    let prover = GenericProver::<B, H, DefaultRandomCoin<H>>::new(desc.clone(), opts.to_options());
    let proof = prover.prove(GenTrace::<B>::new_with_meta(desc, trace, meta));
    let aux_check = prover.aux_check.lock().unwrap().take();
    ProveOut { proof, aux_check }
}

/// as [`prove_ex`], for a trace that carries the custom metadata `meta`
pub fn prove_ex_meta(desc: &Arc<AirDesc>, trace: &TraceData, field: FieldId, opts: &OptSpec, hasher: HashId, meta: &[u8]) -> ProveOut {
    dispatch!(field, hasher, prove_meta_g, (desc, trace, opts, meta))
}

pub fn prove(desc: &Arc<AirDesc>, trace: &TraceData, field: FieldId, opts: &OptSpec, hasher: HashId) -> Result<Proof, ProverError> {
    prove_ex(desc, trace, field, opts, hasher).proof
}

fn verify_g<B: GField, H: ElementHasher<BaseField = B> + Send + Sync>(
    desc: &Arc<AirDesc>,
    pubs: &[u128],
    proof: Proof,
    acceptable: &AcceptableOptions,
) -> Result<(), VerifierError> {
    let values: Vec<B> = pubs.iter().map(|v| B::from_word(*v % B::MOD)).collect();
    winter_verifier::verify::<GenericAir<B>, H, DefaultRandomCoin<H>>(proof, GenPub { desc: desc.clone(), values }, acceptable)
}

/// verify `proof` for the computation `desc` and the public values `pubs`
pub fn verify(
    desc: &Arc<AirDesc>,
    field: FieldId,
    hasher: HashId,
    pubs: &[u128],
    proof: Proof,
    acceptable: &AcceptableOptions,
) -> Result<(), VerifierError> {
    dispatch!(field, hasher, verify_g, (desc, pubs, proof, acceptable))
}

/// short stable name of a prover error
pub fn prover_error_kind(e: &ProverError) -> String {
    let s = format!("{:?}", e);
    s.split(|c: char| !c.is_alphanumeric()).next().unwrap_or("error").to_string()
}

/// short stable name of a verifier error (FRI errors keep the inner kind)
pub fn verifier_error_kind(e: &VerifierError) -> String {
    let s = format!("{:?}", e);
    let mut parts = s.split(|c: char| !c.is_alphanumeric()).filter(|p| !p.is_empty());
    let first = parts.next().unwrap_or("error").to_string();
    if first == "FriVerificationFailed" {
        if let Some(inner) = parts.next() {
            return format!("{}.{}", first, inner);
        }
    }
    first
}

// ================================================================================================
// RANDOM DESCRIPTIONS
// ================================================================================================
/// size budget of [`random_desc`]
#[derive(Clone, Debug)]
pub struct Budget {
    /// trace length is 2^k with k in `min_log_len..=max_log_len` (k >= 3)
    pub min_log_len: u32,
    pub max_log_len: u32,
    /// main width in `1..=max_width`
    pub max_width: usize,
    /// largest declared constraint degree (base + number of periodic factors), >= 1
    pub max_degree: usize,
    /// probability (in 1/100) of an auxiliary segment / of a Lagrange kernel column in it
    pub aux_pct: u64,
    pub lagrange_pct: u64,
    /// allow more than one exemption / a junk tail
    pub exemptions: bool,
    /// include degenerate-but-valid material: constant and low-degree constrained columns, fixed
    /// points of the step rules (the actual constraint degrees are then below the declared ones)
    pub degenerate: bool,
    /// longest sequence assertion is as long as the trace allows when true
    pub sequences: bool,
}

impl Default for Budget {
    fn default() -> Self {
        Budget {
            min_log_len: 3,
            max_log_len: 5,
            max_width: 6,
            max_degree: 3,
            aux_pct: 30,
            lagrange_pct: 30,
            exemptions: true,
            degenerate: false,
            sequences: true,
        }
    }
}

fn small_const(rng: &mut Rng) -> Expr {
    Expr::Const(rng.range(2, 9) as u128)
}

/// a random valid description within the budget. Without `degenerate`, the declared degrees are
/// the actual ones for the traces `gen_trace` produces (up to negligible probability).
pub fn random_desc(rng: &mut Rng, bud: &Budget) -> AirDesc {
    let n = 1usize << rng.range(bud.min_log_len.max(3) as u64, bud.max_log_len.max(bud.min_log_len).max(3) as u64);
    let w = if rng.chance(1, 2) { rng.range(1, bud.max_width.min(4) as u64) } else { rng.range(1, bud.max_width as u64) } as usize;
    let maxd = bud.max_degree.max(1);
    // periodic columns: several cycle lengths at once where possible; values random or structured
    // (constant, zero, a single non-zero entry, sub-periodic such as [3,5,3,5], 0/1 selector)
    let np = if rng.chance(1, 2) { 0 } else { rng.range(1, 3) as usize };
    let mut periodic: Vec<Vec<u128>> = vec![];
    // columns whose interpolant may have less than full degree: used as factors only in degenerate mode
    let mut structured: Vec<bool> = vec![];
    for _ in 0..np {
        let mut c = 1usize << rng.range(1, n.ilog2() as u64);
        for _ in 0..4 {
            if periodic.iter().any(|p| p.len() == c) {
                c = 1usize << rng.range(1, n.ilog2() as u64);
            }
        }
        let style = rng.below(9);
        let val = |rng: &mut Rng| rng.range(1, 1 << 40) as u128;
        let values: Vec<u128> = match style {
            0 => {
                let v = val(rng);
                vec![v; c]
            },
            1 => vec![0; c],
            2 => {
                let at = rng.below(c as u64) as usize;
                let v = val(rng);
                (0..c).map(|i| if i == at { v } else { 0 }).collect()
            },
            3 if c >= 4 => {
                let sub = 1usize << rng.range(1, c.ilog2() as u64 - 1);
                let base: Vec<u128> = (0..sub).map(|_| val(rng)).collect();
                (0..c).map(|i| base[i % sub]).collect()
            },
            4 => (0..c).map(|_| rng.below(2) as u128).collect(),
            _ => (0..c).map(|_| val(rng)).collect(),
        };
        structured.push(style <= 4 && !(style == 3 && c < 4));
        periodic.push(values);
    }
    // periodic columns usable as multiplicative factors without lowering the actual degree
    let factors: Vec<usize> = (0..np).filter(|i| bud.degenerate || !structured[*i]).collect();
    let mut cols: Vec<ColGen> = vec![];
    let mut constraints: Vec<Constraint> = vec![];
    let cycles: Vec<usize> = periodic.iter().map(|p| p.len()).collect();
    let mk = |expr: Expr, constraints: &mut Vec<Constraint>| {
        let degree = expr.degree(&cycles, n);
        constraints.push(Constraint { degree, expr });
    };
    // columns whose cells are "generic" (full degree n-1) so far: usable as top-degree factors
    let mut generic: Vec<usize> = vec![];
    // constant / cyclic columns (for periodic assertions): (column, period)
    let mut cyclic: Vec<(usize, usize)> = vec![];
    // low-degree free columns (their sequence assertions have low-degree value sequences)
    let mut lowdeg: Vec<usize> = vec![];
    for j in 0..w {
        let any = |rng: &mut Rng| -> usize { rng.below(w as u64) as usize };
        let gen_or_self = |rng: &mut Rng, generic: &Vec<usize>| -> usize {
            if generic.is_empty() || rng.chance(1, 2) {
                j
            } else {
                *rng.pick(generic)
            }
        };
        let family = if j == 0 && !bud.degenerate { rng.below(4) } else { rng.below(if bud.degenerate { 12 } else { 9 }) };
        match family {
            // fib-like linear recurrence over current cells (and the next cell of a lower column)
            0 => {
                let a = gen_or_self(rng, &generic);
                let mut e = Expr::mul(small_const(rng), Expr::Cur(a));
                for _ in 0..rng.below(3) {
                    e = Expr::add(e, Expr::Cur(any(rng)));
                }
                if j > 0 && rng.chance(1, 3) {
                    e = Expr::add(e, Expr::Nxt(rng.below(j as u64) as usize));
                }
                mk(Expr::sub(Expr::Nxt(j), e.clone()), &mut constraints);
                cols.push(ColGen::Step { init: None, expr: e });
                generic.push(j);
            },
            // x' = x^d + periodic + y
            1 => {
                let d = rng.range(1, maxd as u64) as u32;
                let mut e = Expr::pow(Expr::Cur(j), d);
                if np > 0 && rng.chance(2, 3) {
                    e = Expr::add(e, Expr::Per(rng.below(np as u64) as usize));
                }
                if rng.chance(1, 2) {
                    e = Expr::add(e, Expr::Cur(any(rng)));
                } else {
                    e = Expr::add(e, small_const(rng));
                }
                mk(Expr::sub(Expr::Nxt(j), e.clone()), &mut constraints);
                cols.push(ColGen::Step { init: None, expr: e });
                generic.push(j);
            },
            // x' = periodic * x^(d-1) * y + k   (degree with a cycle)
            2 if !factors.is_empty() && maxd >= 2 => {
                let d = rng.range(1, (maxd - 1) as u64) as u32;
                let p = *rng.pick(&factors);
                let mut e = Expr::mul(Expr::Per(p), Expr::pow(Expr::Cur(j), d));
                e = Expr::add(e, small_const(rng));
                mk(Expr::sub(Expr::Nxt(j), e.clone()), &mut constraints);
                cols.push(ColGen::Step { init: None, expr: e });
                generic.push(j);
            },
            // multi-column mix: x' = x * y + z (degree 2) or x*y*z
            3 | 2 => {
                let e = if maxd >= 3 && rng.chance(1, 3) {
                    Expr::add(Expr::mul(Expr::mul(Expr::Cur(j), Expr::Cur(gen_or_self(rng, &generic))), Expr::Cur(j)), Expr::Cur(any(rng)))
                } else if maxd >= 2 {
                    Expr::add(Expr::mul(Expr::Cur(j), Expr::Cur(gen_or_self(rng, &generic))), small_const(rng))
                } else {
                    Expr::add(Expr::Cur(j), small_const(rng))
                };
                mk(Expr::sub(Expr::Nxt(j), e.clone()), &mut constraints);
                cols.push(ColGen::Step { init: None, expr: e });
                generic.push(j);
            },
            // free columns
            4 => {
                cols.push(ColGen::Rand);
                generic.push(j);
            },
            5 => {
                cols.push(ColGen::Counter);
                mk(Expr::sub(Expr::Nxt(j), Expr::add(Expr::Cur(j), Expr::Const(1))), &mut constraints);
                generic.push(j);
            },
            6 => {
                let c = 1usize << rng.range(0, n.ilog2() as u64 - 1);
                if c == 1 {
                    cols.push(ColGen::Const(if rng.chance(1, 2) { None } else { Some(rng.below(3) as u128) }));
                } else {
                    cols.push(ColGen::Cyc(c));
                }
                cyclic.push((j, c));
            },
            7 => {
                cols.push(ColGen::LowDeg(rng.below((n - 1) as u64) as usize));
                lowdeg.push(j);
            },
            // pointwise function of lower columns: c_j = c_a * c_b
            8 if j > 0 && maxd >= 2 && !generic.is_empty() && generic.iter().any(|g| *g < j) => {
                let lower: Vec<usize> = generic.iter().copied().filter(|g| *g < j).collect();
                let a = *rng.pick(&lower);
                let bcol = *rng.pick(&lower);
                let e = Expr::mul(Expr::Cur(a), Expr::Cur(bcol));
                mk(Expr::sub(Expr::Cur(j), e.clone()), &mut constraints);
                cols.push(ColGen::Fn(e));
            },
            8 => {
                cols.push(ColGen::Rand);
                generic.push(j);
            },
            // ---- degenerate material
            // constant column with the constraint x' = x
            9 => {
                cols.push(ColGen::Const(if rng.chance(1, 2) { None } else { Some(rng.below(2) as u128) }));
                mk(Expr::sub(Expr::Nxt(j), Expr::Cur(j)), &mut constraints);
                cyclic.push((j, 1));
            },
            // fixed point of a power map: x' = x^d started at 0 or 1
            10 => {
                let d = rng.range(1, maxd as u64) as u32;
                let e = Expr::pow(Expr::Cur(j), d);
                mk(Expr::sub(Expr::Nxt(j), e.clone()), &mut constraints);
                cols.push(ColGen::Step { init: Some(rng.below(2) as u128), expr: e });
                cyclic.push((j, 1));
            },
            // low-degree column constrained by a product with a generic column of degree 2
            _ => {
                cols.push(ColGen::LowDeg(rng.below(3) as usize));
                if maxd >= 2 {
                    let e = Expr::mul(Expr::sub(Expr::Nxt(j), Expr::Cur(j)), Expr::Const(0));
                    // 0 * (x' - x): identically zero constraint of declared degree 1
                    constraints.push(Constraint { degree: Degree::new(1), expr: e });
                }
            },
        }
    }
    if constraints.is_empty() {
        // every AIR needs a transition constraint: tie column 0 to a rule
        let e = Expr::add(Expr::Cur(0), Expr::Const(3));
        cols[0] = ColGen::Step { init: None, expr: e.clone() };
        cyclic.retain(|c| c.0 != 0);
        constraints.push(Constraint { degree: Degree::new(1), expr: Expr::sub(Expr::Nxt(0), e) });
    }
    let mut desc = AirDesc { width: w, trace_len: n, exemptions: 1, tail_junk: false, periodic, cols, constraints, assertions: vec![], aux: None };

    // ---- assertions (main): no two on the same cell
    let mut used = std::collections::HashSet::new();
    let mut try_add = |a: AssertDesc, list: &mut Vec<AssertDesc>, used: &mut std::collections::HashSet<(usize, usize)>| -> bool {
        let steps = a.steps(n);
        if steps.iter().any(|s| used.contains(&(a.column, *s))) {
            return false;
        }
        for s in steps {
            used.insert((a.column, s));
        }
        list.push(a);
        true
    };
    let mut assertions = vec![];
    let na = rng.range(1, 4);
    for _ in 0..na {
        let mut col = rng.below(w as u64) as usize;
        let kind = rng.below(10);
        // constant / sub-periodic / low-degree value sequences: assert on structured columns
        let structured_cols: Vec<usize> = cyclic.iter().map(|c| c.0).chain(lowdeg.iter().copied()).collect();
        if !structured_cols.is_empty() && rng.chance(1, 3) {
            col = *rng.pick(&structured_cols);
        }
        let a = if kind < 5 {
            let any_step = rng.below(n as u64) as usize;
            let step = *rng.pick(&[0usize, 0, 1, n - 1, n - 2, n / 2, any_step]);
            AssertDesc::single(col, step)
        } else if kind < 8 && bud.sequences {
            let stride = 1usize << rng.range(1, n.ilog2() as u64);
            let first = if rng.chance(1, 2) { 0 } else { rng.below(stride as u64) as usize };
            AssertDesc::sequence(col, first, stride)
        } else if !cyclic.is_empty() {
            let (c, period) = *rng.pick(&cyclic);
            let lo = period.max(2).ilog2() as u64;
            let stride = 1usize << rng.range(lo, n.ilog2() as u64);
            let first = if rng.chance(1, 2) { 0 } else { rng.below(stride as u64) as usize };
            AssertDesc::periodic(c, first, stride)
        } else {
            AssertDesc::single(col, 0)
        };
        try_add(a, &mut assertions, &mut used);
    }
    if assertions.is_empty() {
        assertions.push(AssertDesc::single(0, 0));
    }
    desc.assertions = assertions;

    // ---- auxiliary segment
    if rng.below(100) < bud.aux_pct && desc.total_width() < 250 {
        let lagrange = rng.below(100) < bud.lagrange_pct;
        // number of regular aux columns (= aux constraints before duplication): mostly 1..3, sometimes
        // more than the main segment has constraints
        let nreg = if rng.chance(1, 5) { rng.range(4, 6) as usize } else { rng.range(1, 3) as usize };
        // no random elements at all in one case out of five (constants take their place)
        let num_rands = if rng.chance(1, 5) { 0 } else { rng.range(1, 3) as usize };
        let mut acols = vec![];
        let mut acons = vec![];
        let mut aasserts: Vec<AuxAssertDesc> = vec![];
        let cycles = desc.cycles();
        for j in 0..nreg {
            let x = rng.below(w as u64) as usize;
            let (r0, r1) = if num_rands == 0 {
                (small_const(rng), small_const(rng))
            } else {
                (Expr::Rand(rng.below(num_rands as u64) as usize), Expr::Rand(rng.below(num_rands as u64) as usize))
            };
            let nper = factors.len();
            let mut kind = if j == 0 { rng.below(2) } else { rng.below(3) };
            if nper > 0 && rng.chance(1, 4) {
                kind = 3;
            }
            match kind {
                // running sum with a periodic selector: s' = s + p * c_x * r0, s_0 = r1
                3 => {
                    let pi = *rng.pick(&factors);
                    let step = Expr::add(Expr::AuxCur(j), Expr::mul(Expr::mul(Expr::Per(pi), Expr::Cur(x)), r0.clone()));
                    let c = Expr::sub(Expr::AuxNxt(j), step.clone());
                    acons.push(Constraint { degree: c.degree(&cycles, n), expr: c });
                    acols.push(AuxGen::Acc { init: r1.clone(), step });
                    aasserts.push(AuxAssertDesc { a: AssertDesc::single(j, 0), value: r1.clone() });
                },
                // pointwise random linear image of a main column: a = r0 * c_x + r1
                0 => {
                    let e = Expr::add(Expr::mul(r0.clone(), Expr::Cur(x)), r1.clone());
                    let c = Expr::sub(Expr::AuxCur(j), e.clone());
                    acons.push(Constraint { degree: c.degree(&cycles, n), expr: c });
                    acols.push(AuxGen::Fn(e));
                    // an aux assertion tied to a main public value when one exists on column x
                    let mut pos = 0;
                    for a in desc.assertions.iter() {
                        if a.column == x && aasserts.iter().all(|q| q.a.column != j) {
                            let (ad, val) = match a.kind {
                                AssertKind::Single => (AssertDesc::single(j, a.first), Expr::Pub(pos)),
                                AssertKind::Periodic => (AssertDesc::periodic(j, a.first, a.stride), Expr::Pub(pos)),
                                AssertKind::Sequence => (AssertDesc::sequence(j, a.first, a.stride), Expr::PubSeq(pos)),
                            };
                            aasserts.push(AuxAssertDesc { a: ad, value: Expr::add(Expr::mul(r0.clone(), val), r1.clone()) });
                        }
                        pos += a.num_values(n);
                    }
                },
                // running product z' = z * (c_x + r0), z_0 = 1
                1 => {
                    let f = Expr::add(Expr::Cur(x), r0.clone());
                    let step = Expr::mul(Expr::AuxCur(j), f);
                    let c = Expr::sub(Expr::AuxNxt(j), step.clone());
                    acons.push(Constraint { degree: c.degree(&cycles, n), expr: c });
                    acols.push(AuxGen::Acc { init: Expr::Const(1), step });
                    aasserts.push(AuxAssertDesc { a: AssertDesc::single(j, 0), value: Expr::Const(1) });
                },
                // permutation-style quotient z' (c_y + r) = z (c_x + r) using a lower aux column too
                _ => {
                    let y = rng.below(w as u64) as usize;
                    let num = Expr::add(Expr::add(Expr::Cur(x), r0.clone()), Expr::AuxCur(j - 1));
                    let den = Expr::add(Expr::Cur(y), r0.clone());
                    let step = Expr::div(Expr::mul(Expr::AuxCur(j), num.clone()), den.clone());
                    let c = Expr::sub(Expr::mul(Expr::AuxNxt(j), den), Expr::mul(Expr::AuxCur(j), num));
                    acons.push(Constraint { degree: c.degree(&cycles, n), expr: c });
                    acols.push(AuxGen::Acc { init: r1.clone(), step });
                    aasserts.push(AuxAssertDesc { a: AssertDesc::single(j, 0), value: r1.clone() });
                },
            }
        }
        if aasserts.is_empty() {
            // assert the first cell of aux column 0 through a fresh main assertion if possible
            if let Some(AuxGen::Fn(Expr::Add(m, r1))) = acols.first() {
                // a = r_i * c_x + r_k  at a free cell
                if let Expr::Mul(r0, cx) = &**m {
                    if let Expr::Cur(x) = &**cx {
                        let x = *x;
                        let pos = desc.num_pub_inputs();
                        let mut list = desc.assertions.clone();
                        let cell = (0..n).find(|s| !used.contains(&(x, *s))).unwrap_or(0);
                        if try_add(AssertDesc::single(x, cell), &mut list, &mut used) {
                            desc.assertions = list;
                            aasserts.push(AuxAssertDesc {
                                a: AssertDesc::single(0, cell),
                                value: Expr::add(Expr::mul((**r0).clone(), Expr::Pub(pos)), (**r1).clone()),
                            });
                        }
                    }
                }
            }
        }
        // the numbers of main and auxiliary constraints differ in both directions: scaled copies
        if !acons.is_empty() && rng.chance(1, 4) {
            while acons.len() <= desc.constraints.len() && acons.len() < 12 {
                let c = acons[rng.below(acons.len() as u64) as usize].clone();
                acons.push(Constraint { degree: c.degree, expr: Expr::mul(small_const(rng), c.expr) });
            }
        } else if !acons.is_empty() && rng.chance(1, 6) {
            while desc.constraints.len() <= acons.len() && desc.constraints.len() < 12 {
                let c = desc.constraints[rng.below(desc.constraints.len() as u64) as usize].clone();
                desc.constraints.push(Constraint { degree: c.degree, expr: Expr::mul(small_const(rng), c.expr) });
            }
        }
        if !aasserts.is_empty() && maxd >= 2 || (!aasserts.is_empty() && acons.iter().all(|c| c.degree.base + c.degree.cycles.len() <= maxd)) {
            // keep the aux constraints within the degree budget
            if acons.iter().all(|c| c.degree.base + c.degree.cycles.len() <= maxd.max(2)) {
                desc.aux = Some(AuxDesc {
                    width: nreg + lagrange as usize,
                    num_rands,
                    lagrange,
                    cols: acols,
                    constraints: acons,
                    assertions: aasserts,
                });
            }
        }
    }

    // ---- exemptions
    if bud.exemptions && rng.chance(1, 3) {
        let m = desc.max_exemptions();
        if m >= 1 {
            let any_e = rng.range(1, m as u64) as usize;
            desc.exemptions = *rng.pick(&[1usize, 2.min(m), m, any_e]);
            // a junk tail would break periodic assertions placed on rule-driven columns
            let periodic_on_rule = desc
                .assertions
                .iter()
                .any(|a| a.kind == AssertKind::Periodic && matches!(desc.cols[a.column], ColGen::Step { .. } | ColGen::Fn(_)));
            desc.tail_junk = desc.exemptions > 1 && rng.chance(1, 2) && !periodic_on_rule;
        }
    }
    debug_assert!(desc.validate().is_ok(), "random_desc produced an invalid description: {:?} {}", desc.validate(), desc.to_line());
    desc
}

// ================================================================================================
// FIELD-SPECIFIC STRUCTURED DATA
// ================================================================================================
fn low_degree_periodic_g<B: GField>(cycle: usize, degree: usize, seed: u64) -> Vec<u128> {
    let mut rng = Rng::new(seed ^ 0x10de6);
    let coef: Vec<B> = (0..=degree).map(|_| rand_elem::<B>(&mut rng)).collect();
    let w = B::get_root_of_unity(cycle.ilog2());
    let mut x = B::ONE;
    let mut out = Vec::with_capacity(cycle);
    for _ in 0..cycle {
        let mut acc = B::ZERO;
        for c in coef.iter().rev() {
            acc = acc * x + *c;
        }
        out.push(acc.canon());
        x *= w;
    }
    out
}

/// values of a periodic column of length `cycle` (a power of two >= 2) whose interpolating polynomial
/// has degree exactly `degree` (< cycle) over `field`: a low-degree periodic column, e.g. degree 1
/// for cycle 8. (Constant and sub-periodic columns are field independent; this one is not.)
pub fn low_degree_periodic(field: FieldId, cycle: usize, degree: usize, seed: u64) -> Vec<u128> {
    assert!(cycle.is_power_of_two() && cycle >= 2 && degree < cycle);
    by_field!(field, low_degree_periodic_g, (cycle, degree, seed))
}

/// [`random_desc`] specialised to a field: in one case out of four one periodic column (if any) is
/// replaced by a low-degree one of the same cycle length (degree below half the cycle). The actual
/// constraint degrees may then be below the declared ones, as for `Budget::degenerate`.
pub fn random_desc_for(rng: &mut Rng, bud: &Budget, field: FieldId) -> AirDesc {
    let mut d = random_desc(rng, bud);
    if !d.periodic.is_empty() && rng.chance(1, 4) {
        let i = rng.below(d.periodic.len() as u64) as usize;
        let c = d.periodic[i].len();
        let deg = if c >= 4 { rng.range(1, (c / 2 - 1) as u64) as usize } else { 0 };
        d.periodic[i] = low_degree_periodic(field, c, deg, rng.u64());
    }
    // in one case out of four a never-constrained free column under a sequence assertion becomes a
    // geometric column, so that the asserted values have an interpolant of a chosen (interesting)
    // degree instead of a generic full-degree one
    if rng.chance(1, 4) {
        let n = d.trace_len;
        let cands: Vec<(usize, usize)> = d
            .assertions
            .iter()
            .filter(|a| a.kind == AssertKind::Sequence && a.num_values(n) >= 2)
            .filter(|a| matches!(d.cols[a.column], ColGen::Rand | ColGen::LowDeg(_)))
            .map(|a| (a.column, a.num_values(n)))
            .collect();
        if !cands.is_empty() {
            let (j, m) = *rng.pick(&cands);
            let deg = *rng.pick(&interesting_degrees(m));
            let ratio = Expr::Const(trace_generator_pow(field, n, deg as u64));
            let rule = Expr::mul(ratio, Expr::Cur(j));
            d.cols[j] = ColGen::Step { init: Some(1), expr: rule.clone() };
            d.constraints.push(Constraint { degree: Degree::new(1), expr: Expr::sub(Expr::Nxt(j), rule) });
        }
    }
    d
}

fn trace_generator_pow_g<B: GField>(n: usize, e: u64) -> u128 {
    let g = B::get_root_of_unity(n.ilog2());
    g.exp_u(e as u128).canon()
}

/// `g^e` for the generator `g` of the trace domain of `n` rows over `field`. A column with
/// `T[i] = (g^e)^i` (generation rule `S1:*k<g^e>c<j>`, constraint `1:-n<j>*k<g^e>c<j>`) is a valid
/// geometric column whose sequence assertion with `m = n / stride` values has the value polynomial
/// `const * x^(e mod m)`: the way to obtain asserted sequences with an interpolant of a chosen degree.
pub fn trace_generator_pow(field: FieldId, n: usize, e: u64) -> u128 {
    assert!(n.is_power_of_two() && n >= 2);
    by_field!(field, trace_generator_pow_g, (n, e))
}

fn sequence_interpolants_g<B: GField>(desc: &AirDesc, trace: &TraceData) -> Vec<(usize, usize)> {
    let n = desc.trace_len;
    let mut out = vec![];
    for a in &desc.assertions {
        if a.kind != AssertKind::Sequence || a.column >= trace.len() {
            continue;
        }
        let m = a.num_values(n);
        if m < 2 {
            continue;
        }
        let mut vals: Vec<B> = a.steps(n).iter().map(|s| B::from_word(trace[a.column][*s] % B::MOD)).collect();
        let inv_twiddles = winter_math::fft::get_inv_twiddles::<B>(m);
        winter_math::fft::interpolate_poly(&mut vals, &inv_twiddles);
        out.push((m, winter_math::polynom::degree_of(&vals)));
    }
    out
}

/// for every main sequence assertion with at least two values: (#values, degree of the polynomial
/// interpolating the asserted values over the assertion's own domain) — evidence labelling
pub fn sequence_interpolants(desc: &AirDesc, field: FieldId, trace: &TraceData) -> Vec<(usize, usize)> {
    by_field!(field, sequence_interpolants_g, (desc, trace))
}

/// interesting interpolant degrees for a sequence of `m` values: ends, middle, and the neighbourhood
/// of the prover's small/large polynomial threshold (63 coefficients)
pub fn interesting_degrees(m: usize) -> Vec<usize> {
    let mut v = vec![0, 1, 2, 61, 62, 63, 64, 65, 70, m / 2 - 1, m / 2, m / 2 + 1, m.saturating_sub(3), m - 2, m - 1];
    v.retain(|d| *d < m);
    v.sort();
    v.dedup();
    v
}

fn shifted_sequence_values_g<B: GField>(n: usize, stride: usize, values: &[u128], d: u64) -> Vec<u128> {
    let m = values.len();
    let g = B::get_root_of_unity(n.ilog2());
    let w = g.exp_u(stride as u128);
    let w_inv = w.inv();
    let m_inv = B::from_word(m as u128).inv();
    let vals: Vec<B> = values.iter().map(|v| B::from_word(*v % B::MOD)).collect();
    // coefficients by the direct inverse DFT (no library FFT): p_i = 1/m * sum_k v_k * w^(-i k)
    let mut coef = Vec::with_capacity(m);
    for i in 0..m {
        let wi = w_inv.exp_u(i as u128);
        let mut x = B::ONE;
        let mut acc = B::ZERO;
        for v in &vals {
            acc += *v * x;
            x *= wi;
        }
        coef.push(acc * m_inv);
    }
    let shift = g.exp_u(d as u128);
    let mut out = Vec::with_capacity(m);
    let mut x = shift;
    for _ in 0..m {
        let mut acc = B::ZERO;
        for c in coef.iter().rev() {
            acc = acc * x + *c;
        }
        out.push(acc.canon());
        x *= w;
    }
    out
}

/// The adversary's view of a sequence assertion with `m = values.len()` values (m a power of two, `m * stride = n`):
/// `P` is the polynomial of degree < m with `P(w^k) = values[k]`, `w = g^stride`, `g` the generator of the trace
/// domain of `n` rows over `field`; returned are `P(g^d * w^k)` for `k = 0..m`. For `d = 0` these are the values
/// themselves. A boundary constraint that evaluates the value polynomial under a WRONG domain offset (the
/// library evaluates `P(x * g^-first)`; a wrong offset `g^-b` enforces `T(g^(first + k stride)) = P(g^(first - b) w^k)`)
/// is satisfied by a column that carries these values at the asserted steps, with `d = first - b (mod n)`:
/// `d = first` for a missing shift, `d = 2 first` for a shift in the wrong direction, `d = first - first'` for the
/// offset of a sibling assertion. Such a column violates the assertion (unless `P` is constant or `d = 0 mod n`)
/// and must be rejected.
pub fn shifted_sequence_values(field: FieldId, n: usize, stride: usize, values: &[u128], d: u64) -> Vec<u128> {
    assert!(n.is_power_of_two() && n >= 2 && !values.is_empty() && values.len() * stride == n);
    by_field!(field, shifted_sequence_values_g, (n, stride, values, d))
}
