//! data-driven AIR family shared by the protocol-level properties (filled in later)
